"""Path-wise symbolic executor over the *inlined* call graph of one class (C16, C08, _shared).

Nothing here executes werkzeug: the executor walks the engine's CFGs (``wzsa/cfg.py``) of the methods of a class,
binding locals to *terms* (canonical source text over the root parameters ``__p1__``.., the subject ``__self__`` and
loop elements ``__eL_C__``), following calls on the subject into the method that the class's MRO resolves them to
(any depth, decorators applied, property getters / setters / deleters followed, ``super()`` resolved after the
defining class, private module-level helpers that receive the subject followed too), evaluating branch conditions
on constants and on *facts* learned on the path (canonical atoms of ``wzsa/guards.py``; unknown atoms fork), and
emitting *events* for everything that touches the subject's storage:

    ("op",   loc, name, args, node, fi)    a mutator-named operation on storage location ``loc`` of the subject
                                           (``""`` = the subject itself, e.g. a dict subclass; ``"_headers"`` = self._headers)
    ("mut",  loc, name, args, node, fi)    ... that changes the storage on this path (dict.pop / set.discard /
                                           setdefault change nothing when the membership fact of the path says so)
    ("read", loc, name, args, node, fi)    a non-mutating method call / subscript read on a storage location
    ("notify", node, fi)                   the subject's callback attribute is called with the subject
    ("store", obj, attr, value, node, fi)  attribute store on another object
    ("storeitem", obj, idx, value, node, fi)
    ("setattr", name, value, node, fi)     default attribute protocol (super().__setattr__ / object.__setattr__)
    ("construct", clsname, args, kwargs, node, fi)
    ("compare", op, left, right, node, fi) every evaluated comparison (also those inside comprehensions)
    ("stub", name, args, node, fi)         call of a stub function value
    ("iter", element, iterable, node, fi)  a for loop binds its element term to the items of the iterable term
    ("handler", node, fi)                  the path enters an ``except`` clause (an exception raised in its try body)

A rule supplies an automaton (``on_event(auto, event, st) -> auto``) whose state is part of the explored state, so
loops terminate on a fixpoint of (node, environment, facts, automaton state).
"""

from __future__ import annotations

import ast
import re
import typing as t

from ..cfg import CFG, Node, cfg_of
from ..classflow import Closure, callable_names
from ..guards import canon
from ..loader import AnalysisError, BuiltinClass, ClassInfo, FuncInfo, Repo, dotted, norm

SELF = "__self__"
CBV = "__cb__"  # the value held by the subject's callback attribute (assumed set: a view without callback has nothing to notify)
SUPER = "__super__"
NONEMPTY = "__nonempty__"  # a local accumulator that has been grown (typed variants: __nonempty_list__ ...)


def nonempty(v: str) -> bool:
    return v.startswith("__nonempty")


def _nonempty_like(c: t.Any) -> str:
    return f"__nonempty_{type(c).__name__}__" if isinstance(c, (list, set, dict, tuple)) else NONEMPTY
CB_ATTRS = ("on_update", "_on_update")
CACHE_ATTRS = {"_hash_cache"}
PURE_METHODS = {
    "lower", "casefold", "upper", "strip", "lstrip", "rstrip", "title", "capitalize", "encode", "decode", "startswith",
    "endswith", "partition", "rpartition", "split", "rsplit", "replace", "join", "format", "isdigit",
}
PURE_FUNCS = {"len", "str", "int", "bool", "isinstance", "issubclass", "type", "tuple", "frozenset", "repr", "callable", "id", "hash", "min", "max", "abs"}
PASS_THROUGH = {"update_wrapper": 0, "cast": 1}  # functions returning one of their arguments unchanged
CONDITIONAL = {"pop", "discard", "setdefault", "remove"}  # change the container depending on membership of args[0]
ADDS_KEY = {"add", "setdefault", "__setitem__"}
DROPS_KEY = {"pop", "discard", "remove", "__delitem__"}

_parse_cache: dict[str, ast.AST] = {}


def P(term: str) -> ast.AST:
    """parsed expression of a term (cached; never mutated by callers: ``clone`` copies)."""
    n = _parse_cache.get(term)
    if n is None:
        try:
            n = ast.parse(term, mode="eval").body
        except SyntaxError:
            n = ast.Name(id="__unparsable__", ctx=ast.Load())
        _parse_cache[term] = n
    return n


def clone(n: t.Any, repl: dict[int, str]) -> t.Any:
    """structural copy of an AST with the sub-expressions listed in ``repl`` (by id) replaced by parsed terms."""
    if isinstance(n, list):
        return [clone(x, repl) for x in n]
    if not isinstance(n, ast.AST):
        return n
    if id(n) in repl:
        return clone(P(repl[id(n)]), {})
    new = type(n)()
    for f in n._fields:
        if hasattr(n, f):
            setattr(new, f, clone(getattr(n, f), repl))
    return new


def text(n: ast.AST) -> str:
    return " ".join(ast.unparse(ast.fix_missing_locations(n)).split())


_NOCONST = object()


def const_of(term: str) -> t.Any:
    """python value of a constant term, or _NOCONST."""
    if nonempty(term):
        return _NOCONST
    n = P(term)
    if isinstance(n, ast.Constant):
        return n.value
    if isinstance(n, (ast.Tuple, ast.List, ast.Set, ast.Dict, ast.UnaryOp)):
        try:
            return ast.literal_eval(n)
        except Exception:
            return _NOCONST
    if isinstance(n, ast.Call) and isinstance(n.func, ast.Name) and n.func.id in ("set", "frozenset", "dict", "list", "tuple") and not n.args and not n.keywords:
        return {"set": set(), "frozenset": frozenset(), "dict": {}, "list": [], "tuple": ()}[n.func.id]
    return _NOCONST


def loc_of(term: str) -> str | None:
    """storage location of the subject that a term denotes: '' for the subject, 'x' for __self__.x[...]... ; None otherwise."""
    if term == SELF:
        return ""
    m = re.match(r"^__self__\.(\w+)$", term)
    return m.group(1) if m else None


def mentions_loc(key: str, loc: str) -> bool:
    if loc == "":
        return re.search(r"__self__(?![\w.])", key) is not None
    return re.search(r"__self__\." + re.escape(loc) + r"(?!\w)", key) is not None


def is_lowered(term: str) -> bool:
    """the term is a lower-cased string by construction."""
    n = P(term)
    if isinstance(n, ast.Call) and isinstance(n.func, ast.Attribute) and n.func.attr in ("lower", "casefold") and not n.args:
        return True
    if isinstance(n, ast.Call) and dotted(n.func) in ("str.lower", "str.casefold") and len(n.args) == 1:
        return True
    if isinstance(n, ast.Constant) and isinstance(n.value, str):
        return n.value == n.value.lower()
    if isinstance(n, ast.IfExp):
        return is_lowered(text(n.body)) and is_lowered(text(n.orelse))
    return False


def lowered_elements(term: str, lowered_locs: t.Iterable[str] = ()) -> bool:
    """the term is a collection / iterable whose elements are lower-cased by construction."""
    n = P(term)
    l = loc_of(term)
    if l is not None and l in lowered_locs:
        return True
    if isinstance(n, (ast.ListComp, ast.SetComp, ast.GeneratorExp)):
        return is_lowered(text(n.elt))
    if isinstance(n, (ast.Tuple, ast.List, ast.Set)):
        return bool(n.elts) and all(is_lowered(text(e)) for e in n.elts)
    if isinstance(n, ast.Call):
        d = dotted(n.func)
        if d == "map" and len(n.args) == 2 and text(n.args[0]) in ("str.lower", "str.casefold"):
            return True
        if d in ("set", "frozenset", "list", "tuple", "sorted", "iter") and len(n.args) == 1:
            return lowered_elements(text(n.args[0]), lowered_locs)
    return False


def iterates_nothing(term: str, facts: dict[str, bool]) -> bool:
    """the term iterates no element on a path with these facts: an empty constant, a value the path knows to be falsy
    (a falsy container is an empty one), or a view / copy / enumeration / mapping / filter of such a value."""
    c = const_of(term)
    if c is not _NOCONST:
        return not c and c is not None and not isinstance(c, (bool, int, float))
    if facts.get(term) is False:
        return True
    n = P(term)
    if isinstance(n, (ast.ListComp, ast.SetComp, ast.GeneratorExp, ast.DictComp)):
        return iterates_nothing(text(n.generators[0].iter), facts)
    if isinstance(n, ast.Call):
        d = dotted(n.func)
        if d in ("map", "filter") and len(n.args) == 2:
            return iterates_nothing(text(n.args[1]), facts)
        if d == "zip" and n.args:
            return any(iterates_nothing(text(x), facts) for x in n.args)
        if d in ("list", "tuple", "set", "frozenset", "sorted", "iter", "reversed", "enumerate") and n.args:
            return iterates_nothing(text(n.args[0]), facts)
        if d == "range" and len(n.args) == 1 and isinstance(n.args[0], ast.Call) and dotted(n.args[0].func) == "len" and len(n.args[0].args) == 1:
            return iterates_nothing(text(n.args[0].args[0]), facts)
        if isinstance(n.func, ast.Attribute) and n.func.attr in ("items", "keys", "values", "copy") and not n.args:
            return iterates_nothing(text(n.func.value), facts)
    return False


class Fn:
    """callable value: a package function / method, a closure (nested def / lambda) or a stub."""

    def __init__(self, kind: str, name: str, fi: FuncInfo | None = None, node: ast.AST | None = None, env: dict[str, str] | None = None, frame: "Frame | None" = None, bound: str | None = None):
        self.kind = kind  # func closure stub
        self.name = name
        self.fi = fi
        self.node = node
        self.env = env or {}
        self.frame = frame
        self.bound = bound
        self.raw = False  # the undecorated function (the value a decorator receives)


class Frame:
    """static context of one activation."""

    __slots__ = ("fi", "module", "defcls", "node", "raised", "depth")

    def __init__(self, fi: FuncInfo | None, module, defcls: ClassInfo | None, node: ast.AST, depth: int):
        self.fi = fi
        self.module = module
        self.defcls = defcls
        self.node = node
        self.raised: list[tuple[str, "St"]] = []
        self.depth = depth


class St:
    """explored state: environment, path facts, automaton state (+ a trail of line numbers for reports)."""

    __slots__ = ("env", "facts", "auto", "trail", "_key")

    def __init__(self, env: dict[str, str], facts: dict[str, bool], auto: t.Hashable, trail: tuple = ()):
        self.env = env
        self.facts = facts
        self.auto = auto
        self.trail = trail
        self._key = None

    def key(self):
        if self._key is None:
            self._key = (tuple(sorted(self.env.items())), tuple(sorted(self.facts.items())), self.auto)
        return self._key

    def bind(self, name: str, val: str) -> "St":
        old = self.env.get(name)
        wide = f"__wide_{name}__"
        if not name.startswith("__") and (len(val) > 400 or (old is not None and old != val and (old == wide and wide in val or len(val) > 60 and len(old) > 30 and old in val))):
            # widening: a term that keeps growing around a loop (ptr = ptr.next) becomes opaque; what the path knew
            # about the previous value does not hold for the next one
            st = St({**self.env, name: wide}, {k: v for k, v in self.facts.items() if wide not in k}, self.auto, self.trail)
            return st
        if self.env.get(name) == val:
            return self
        e = dict(self.env)
        e[name] = val
        return St(e, self.facts, self.auto, self.trail)

    def with_env(self, env: dict[str, str]) -> "St":
        return St(env, self.facts, self.auto, self.trail)

    def with_fact(self, key: str, val: bool) -> "St":
        if self.facts.get(key) is val:
            return self
        f = dict(self.facts)
        f[key] = val
        return St(self.env, f, self.auto, self.trail)

    def kill(self, pred: t.Callable[[str], bool]) -> "St":
        if not any(pred(k) for k in self.facts):
            return self
        return St(self.env, {k: v for k, v in self.facts.items() if not pred(k)}, self.auto, self.trail)

    def with_auto(self, auto, line: int | None = None) -> "St":
        tr = self.trail if line is None else (self.trail + (line,))[-14:]
        if auto == self.auto and tr is self.trail:
            return self
        return St(self.env, self.facts, auto, tr)


class Out(t.NamedTuple):
    kind: str  # ret | raise
    value: str  # returned term / raised exception name ('?' unknown)
    st: St


def _identity_consistency(facts: dict[str, bool], key: str) -> list[bool]:
    """truth values of atom ``key`` that are consistent with the facts of the path (None / True / False identities
    and truthiness of one term exclude each other)."""
    allowed = [True, False]
    m = re.match(r"^(.*) is (None|True|False)$", key)
    if m:
        x, which = m.group(1), m.group(2)
        for other in ("None", "True", "False"):
            if other != which and facts.get(f"{x} is {other}") is True:
                allowed = [False]
        tr = facts.get(x)
        if tr is True and which in ("None", "False"):
            allowed = [False]
        if tr is False and which == "True":
            allowed = [False]
    else:
        if facts.get(f"{key} is None") is True or facts.get(f"{key} is False") is True:
            allowed = [False]
        elif facts.get(f"{key} is True") is True:
            allowed = [True]
    return allowed


class Exec:
    def __init__(
        self,
        repo: Repo,
        cls: ClassInfo | None,
        on_event: t.Callable[[t.Hashable, tuple, St], t.Hashable] | None = None,
        oracle: t.Callable[[str], bool | None] | None = None,
        inline_public: bool = True,
        cb_attrs: t.Iterable[str] = CB_ATTRS,
        limit: int = 60000,
        follow_exc: bool = True,
    ):
        self.repo = repo
        self.cls = cls
        self.on_event = on_event
        self.oracle = oracle
        self.inline_public = inline_public
        self.cb_attrs = set(cb_attrs)
        self.limit = limit
        self.steps = 0
        self.follow_exc = follow_exc
        self.fns: dict[str, Fn] = {}
        self.unknown_forks: set[str] = set()
        self.opaque_calls: set[str] = set()
        self.stack: list[int] = []
        self._cfgs: dict[int, CFG] = {}
        self.mutnames = set(repo.mutators("list")) | set(repo.mutators("dict")) | set(repo.mutators("set")) | _package_mutators(repo)
        self._folder = None

    # ------------------------------------------------------------------ events
    def emit(self, st: St, ev: tuple) -> St:
        if self.on_event is None:
            return st
        node = ev[-2]
        return st.with_auto(self.on_event(st.auto, ev, st), getattr(node, "lineno", None))

    # ------------------------------------------------------------------ function values
    def fn_name(self, fn: Fn) -> str:
        self.fns[fn.name] = fn
        return fn.name

    def closure(self, node: ast.AST, st: St, fr: Frame) -> str:
        nm = getattr(node, "name", "lambda")
        name = f"__fn_{nm}_L{getattr(node, 'lineno', 0)}c{getattr(node, 'col_offset', 0)}__"
        # one closure value per definition site; the captured environment is the one of the latest evaluation
        # (the captured names are parameters / the subject in every use here)
        self.fns[name] = Fn("closure", name, node=node, env=dict(st.env), frame=fr)
        return name

    def stub(self, label: str) -> str:
        name = f"__stub_{label}__"
        self.fns[name] = Fn("stub", name)
        return name

    def method_fn(self, fi: FuncInfo, bound: str | None) -> str:
        name = f"__m_{fi.fq.replace('.', '_')}{'_b' if bound else ''}__"
        self.fns[name] = Fn("func", name, fi=fi, bound=bound)
        return name

    # ------------------------------------------------------------------ roots
    def run_function(self, fi: FuncInfo, args: list[str] | None = None, auto0: t.Hashable = None, facts0: dict[str, bool] | None = None, subject: int | None = 0, decorators: bool = True) -> list[Out]:
        """explore one function / method from its entry.  Parameter i is bound to ``args[i]`` (default ``__p<i>__``,
        the subject parameter to ``__self__``)."""
        n = len(fi.params)
        a = [f"__p{i}__" for i in range(n)]
        if subject is not None and n > subject:
            a[subject] = SELF
        if args:
            for i, v in enumerate(args):
                if v is not None and i < n:
                    a[i] = v
        st = St({}, dict(facts0 or {}), auto0)
        fr = Frame(None, fi.module, fi.cls, fi.node, 0)
        fn = Fn("func", "__root__", fi=fi)
        res = self.call(fn, a, {}, st, fr, fi.node, decorators=decorators, exact=True)
        outs = [Out("ret", v, s) for v, s in res] + [Out("raise", nm, s) for nm, s in fr.raised]
        return outs

    def run_fn(self, name: str, args: list[str], auto0: t.Hashable = None, facts0: dict[str, bool] | None = None) -> list[Out]:
        fn = self.fns[name]
        st = St({}, dict(facts0 or {}), auto0)
        fr = Frame(None, (fn.frame.module if fn.frame else (fn.fi.module if fn.fi else None)), self.cls, fn.node or (fn.fi.node if fn.fi else None), 0)
        res = self.call(fn, args, {}, st, fr, fn.node)
        return [Out("ret", v, s) for v, s in res] + [Out("raise", nm, s) for nm, s in fr.raised]

    # ------------------------------------------------------------------ calls
    def call(self, fn: Fn, args: list[str], kwargs: dict[str, str], st: St, fr: Frame, node: ast.AST | None, decorators: bool = True, exact: bool = False) -> list[tuple[str, St]]:
        """execute a callable value; normal results are returned, raised outcomes are appended to fr.raised."""
        if fn.kind == "stub":
            st = self.emit(st, ("stub", fn.name, tuple(args), node, fr.fi))
            return [(f"__result_of{fn.name}", st)]
        if fn.kind == "func":
            fi = fn.fi
            assert fi is not None
            if fn.bound is not None:
                args = [fn.bound] + list(args)
            if decorators and not fn.raw:
                decs = self._package_decorators(fi)
                if decs:
                    # apply the decorators (innermost first) to the undecorated function value, then call the result
                    rawfn = Fn("func", f"__raw_{fi.fq.replace('.', '_')}__", fi=fi)
                    rawfn.raw = True
                    val = self.fn_name(rawfn)
                    states = [(val, st)]
                    for d in decs:
                        nxt = []
                        for v, s in states:
                            for rv, s2 in self.call(Fn("func", d.name, fi=d), [v], {}, s.with_env({}), fr, node, decorators=False):
                                nxt.append((rv, s2))
                        states = nxt
                    out = []
                    for v, s in states:
                        target = self.fns.get(v)
                        if target is None:
                            raise AnalysisError(f"decorator of {fi.fq} does not return a function the executor can follow ({v})")
                        out += self.call(target, args, kwargs, s.with_env(st.env), fr, node, decorators=False)
                    return out
            fnode, module, defcls, env0, label = fi.node, fi.module, fi.cls, {}, fi.fq
            is_gen = any(isinstance(x, (ast.Yield, ast.YieldFrom)) for x in _walk_own(fnode))
            if is_gen and not exact:
                self.opaque_calls.add(label)
                return [(f"__gen_{fi.name}__({', '.join(a_ for a_ in args if not a_.startswith('*'))})", self.emit(st, ("enter", fi.name, tuple(args), node, fi)))]
        else:
            fnode, env0, label = fn.node, dict(fn.env), fn.name
            module = fn.frame.module if fn.frame else fr.module
            defcls = fn.frame.defcls if fn.frame else fr.defcls
            fi = fn.frame.fi if fn.frame else None
        key = id(fnode)
        if self.stack.count(key) >= 2 or len(self.stack) > 14:
            self.opaque_calls.add(label)
            return [(f"__rec_{len(self.opaque_calls)}__", st)]
        nfr = Frame(fn.fi if fn.kind == "func" else fi, module, defcls, fnode, fr.depth + 1)
        if fn.kind == "func":
            st = self.emit(st, ("enter", fn.fi.name, tuple(args), node, fn.fi))
        env = dict(env0)
        env.update(self._bind_params(fnode, args, kwargs, nfr))
        self.stack.append(key)
        try:
            outs = self.run_cfg(self._cfg(fnode, fn.fi if fn.kind == "func" else None), nfr, st.with_env(env))
        finally:
            self.stack.pop()
        res = []
        for o in outs:
            back = o.st.with_env(st.env)
            if o.kind == "ret":
                res.append((o.value, back))
            elif not o.value.startswith("~"):
                fr.raised.append((o.value, back))
            # an implicit exception of a builtin operation (list.remove of a missing item ...) is followed to the
            # handlers of the function it occurs in, not across call boundaries: whether it can happen there depends
            # on invariants between the containers that no rule here decides
        return _dedupe(res)

    def _package_decorators(self, fi: FuncInfo) -> list[FuncInfo]:
        out = []
        for d in reversed(getattr(fi.node, "decorator_list", [])):
            nm = dotted(d.func if isinstance(d, ast.Call) else d)
            if not nm or isinstance(d, ast.Call):
                continue
            tgt = self.repo.resolve(fi.module, nm)
            tf = self.repo.try_func(tgt) if tgt and tgt.startswith("werkzeug") else None
            if tf is not None:
                out.append(tf)
        return out

    def _cfg(self, fnode: ast.AST, fi: FuncInfo | None) -> CFG:
        if fi is not None and fi.node is fnode:
            return cfg_of(fi)
        c = self._cfgs.get(id(fnode))
        if c is None:
            c = CFG(fnode)
            self._cfgs[id(fnode)] = c
        return c

    def _bind_params(self, fnode: ast.AST, args: list[str], kwargs: dict[str, str], fr: Frame) -> dict[str, str]:
        a = fnode.args  # type: ignore[attr-defined]
        pos = [x.arg for x in a.posonlyargs + a.args]
        env: dict[str, str] = {}
        plain: list[str] = []
        star: str | None = None
        for v in args:
            if v.startswith("*"):
                star = v[1:]
                break
            plain.append(v)
        for i, name in enumerate(pos):
            if i < len(plain):
                env[name] = plain[i]
            elif name in kwargs:
                env[name] = kwargs[name]
            elif star is not None:
                env[name] = f"({star})[{i - len(plain)}]"
            else:
                j = i - (len(pos) - len(a.defaults))
                if 0 <= j < len(a.defaults):
                    env[name] = self._default(a.defaults[j])
                elif "**" in kwargs:
                    env[name] = f"({kwargs['**']})[{name!r}]"
                else:
                    env[name] = f"__missing_{name}__"
        for x, d in zip(a.kwonlyargs, a.kw_defaults):
            if x.arg in kwargs:
                env[x.arg] = kwargs[x.arg]
            elif d is not None:
                env[x.arg] = self._default(d)
            else:
                env[x.arg] = f"__missing_{x.arg}__"
        if a.vararg:
            extra = plain[len(pos):]
            env[a.vararg.arg] = ("(" + ", ".join(extra) + ("," if len(extra) == 1 else "") + ")") if star is None else f"__varargs_{a.vararg.arg}__"
        if a.kwarg:
            env[a.kwarg.arg] = f"__kwargs_{a.kwarg.arg}__"
        return env

    @staticmethod
    def _default(d: ast.AST) -> str:
        return text(clone(d, {}))

    # ------------------------------------------------------------------ CFG walk
    def run_cfg(self, cfg: CFG, fr: Frame, st0: St) -> list[Out]:
        outs: dict[tuple, Out] = {}
        seen: set[tuple] = set()
        work: list[tuple[Node, St]] = [(cfg.entry, st0)]

        def out(kind: str, value: str, st: St) -> None:
            env = {k: v for k, v in st.env.items() if k in ("__ret__",)}
            o = Out(kind, value, st.with_env(env))
            outs.setdefault((kind, value, o.st.key()), o)

        while work:
            node, st = work.pop()
            k = (node.id, st.key())
            if k in seen:
                continue
            seen.add(k)
            self.steps += 1
            if self.steps > self.limit:
                raise AnalysisError(f"symbolic execution of {getattr(fr.node, 'name', '?')} exceeds {self.limit} steps")
            if node is cfg.exit:
                out("ret", st.env.get("__ret__", "None"), st)
                continue
            if node is cfg.raise_exit:
                out("raise", st.env.get("__exc__", "?"), st)
                continue
            fr.raised = []
            pre = st
            handlers = [s for s, l in node.succs if l == "exc"]
            normal = [(s, l) for s, l in node.succs if l != "exc"]
            results: list[tuple[str | None, St]] = []  # (edge label filter, state)
            a = node.ast
            if node.kind in ("entry", "join") or a is None:
                results = [(None, st)]
            elif node.kind == "test":
                for b, s in self.truth(a, st, fr):
                    results.append(("T" if b else "F", s))
            elif node.kind == "loop":
                for itv, s in self.ev(a.iter, st, fr):
                    s = self._reads_in(itv, s, fr, a, "__iter__")
                    if iterates_nothing(itv, s.facts):
                        results.append(("F", s))  # the path knows the iterated value to be empty: the body does not run
                        continue
                    el = f"__e{a.lineno}_{a.col_offset}__"
                    s = self.emit(s, ("iter", el, itv, a, fr.fi))
                    s_t = s.kill(lambda key, el=el: el in key)
                    for s2 in self.assign(a.target, el, s_t, fr, a):
                        results.append(("T", s2))
                    results.append(("F", s))
            elif node.kind == "with":
                cur = [st]
                for it in a.items:
                    nxt = []
                    for s in cur:
                        for v, s2 in self.ev(it.context_expr, s, fr):
                            if it.optional_vars is not None:
                                nxt += self.assign(it.optional_vars, v, s2, fr, a)
                            else:
                                nxt.append(s2)
                    cur = nxt
                results = [(None, s) for s in cur]
            elif node.kind == "handler":
                st = self.emit(st, ("handler", a, fr.fi))  # the path continues in an except clause
                results = [(None, st.bind(a.name, f"__exc_{a.lineno}__") if a.name else st)]
            else:
                raising = isinstance(a, ast.Raise) or any(l == "raise" for _, l in node.succs)
                if raising:
                    self._raise_node(a, node, st, fr, work, out)
                    self._route_raised(fr, handlers, work, out)
                    continue
                for s in self.stmt(a, st, fr):
                    results.append((None, s))
            # implicit exception of the node itself: the handlers see the state before it
            if self.follow_exc and handlers and node.kind in ("stmt", "test", "loop", "with"):
                for h in handlers:
                    work.append((h, pre))
            self._route_raised(fr, handlers, work, out)
            for lab, s in results:
                for succ, l in normal:
                    if lab is None or l == lab:
                        work.append((succ, s))
        return list(outs.values())

    def _route_raised(self, fr: Frame, handlers: list[Node], work: list, out) -> None:
        raised, fr.raised = fr.raised, []
        for name, s in raised:
            hs = _matching_handlers(handlers, name)
            if hs is None:  # nothing can catch it here
                out("raise", name, s.bind("__exc__", name))
            else:
                for h in hs[0]:
                    work.append((h, s))
                if hs[1]:
                    out("raise", name, s.bind("__exc__", name))

    def _raise_node(self, a: ast.AST, node: Node, st: St, fr: Frame, work: list, out) -> None:
        name = "?"
        states = [st]
        if isinstance(a, ast.Raise) and a.exc is not None:
            e = a.exc.func if isinstance(a.exc, ast.Call) else a.exc
            name = (dotted(e) or "?").rsplit(".", 1)[-1]
            if isinstance(e, ast.Name) and e.id in st.env:
                # an exception object / class chosen earlier and raised here (``missing = KeyError(key) ... raise missing``):
                # the binding that reaches the raise names the class
                bn = P(st.env[e.id])
                bn = bn.func if isinstance(bn, ast.Call) else bn
                bd = (dotted(bn) or "").rsplit(".", 1)[-1] if isinstance(bn, (ast.Name, ast.Attribute)) else ""
                name = bd if re.match(r"^[A-Z]\w*(Error|Exception|Exit|Interrupt|Warning|Iteration)$", bd) or bd in _EXC_PARENTS else "?"
            states = [s for _, s in self.ev(a.exc, st, fr)]
        elif isinstance(a, ast.Expr):
            states = [s for _, s in self.ev(a.value, st, fr)]
        handlers = [s for s, l in node.succs if l == "exc"]
        hs = _matching_handlers(handlers, name)
        for s in states:
            s = s.bind("__exc__", name)
            if hs is not None:
                for h in hs[0]:
                    work.append((h, s))
            if hs is None or hs[1]:
                for succ, l in node.succs:
                    if l == "raise":
                        work.append((succ, s))

    # ------------------------------------------------------------------ statements
    def stmt(self, a: ast.AST, st: St, fr: Frame) -> list[St]:
        if isinstance(a, ast.Expr):
            return [s for _, s in self.ev(a.value, st, fr)]
        if isinstance(a, ast.Assign):
            out = []
            for v, s in self.ev(a.value, st, fr):
                cur = [s]
                for tg in a.targets:
                    cur = [s3 for s2 in cur for s3 in self.assign(tg, v, s2, fr, a)]
                out += cur
            return out
        if isinstance(a, ast.AnnAssign):
            if a.value is None:
                return [st]
            return [s2 for v, s in self.ev(a.value, st, fr) for s2 in self.assign(a.target, v, s, fr, a)]
        if isinstance(a, ast.AugAssign):
            return self._augassign(a, st, fr)
        if isinstance(a, ast.Return):
            if a.value is None:
                return [st.bind("__ret__", "None")]
            return [self.emit(s, ("return", v, a, fr.fi)).bind("__ret__", v) for v, s in self.ev(a.value, st, fr)]
        if isinstance(a, ast.Delete):
            cur = [st]
            for tg in a.targets:
                cur = [s2 for s in cur for s2 in self._delete(tg, s, fr, a)]
            return cur
        if isinstance(a, (ast.FunctionDef, ast.AsyncFunctionDef)):
            return [st.bind(a.name, self.closure(a, st, fr))]
        if isinstance(a, ast.ClassDef):
            return [st.bind(a.name, f"__class_{a.name}__")]
        if isinstance(a, (ast.Import, ast.ImportFrom, ast.Global, ast.Nonlocal, ast.Pass, ast.Break, ast.Continue, ast.Assert)):
            return [st]
        return [st]

    def _augassign(self, a: ast.AugAssign, st: St, fr: Frame) -> list[St]:
        out = []
        for v, s in self.ev(a.value, st, fr):
            tg = a.target
            if isinstance(tg, ast.Name):
                old = s.env.get(tg.id, tg.id)
                co, cv = const_of(old), const_of(v)
                new = f"({old}) {_OPS.get(type(a.op), '+')} ({v})"
                if co is not _NOCONST and cv is not _NOCONST and isinstance(a.op, (ast.Add, ast.BitOr, ast.BitAnd, ast.Sub)):
                    try:
                        r = {ast.Add: lambda x, y: x + y, ast.BitOr: lambda x, y: x | y, ast.BitAnd: lambda x, y: x & y, ast.Sub: lambda x, y: x - y}[type(a.op)](co, cv)
                        if isinstance(r, bool):
                            new = repr(r)
                        elif isinstance(r, int):
                            new = repr(max(-1, min(1, r)))  # saturating: only sign / truthiness is kept
                        elif isinstance(r, (list, tuple, set, dict, str)):
                            new = repr(r) if not r else _nonempty_like(r)
                    except Exception:
                        pass
                elif co is not _NOCONST and isinstance(co, (list, tuple, set)) and isinstance(a.op, (ast.Add, ast.BitOr)):
                    nv = P(v)
                    if isinstance(nv, (ast.List, ast.Tuple, ast.Set)) and nv.elts:
                        new = _nonempty_like(co)
                elif nonempty(old):
                    new = old
                out.append(s.bind(tg.id, text(P(new)) if not nonempty(new) else new))
            elif isinstance(tg, ast.Attribute):
                for ov, s2 in self.ev(tg.value, s, fr):
                    if ov == SELF:
                        s3 = self.emit(s2, ("op", tg.attr, _AUG.get(type(a.op), "__iadd__"), (v,), a, fr.fi))
                        s3 = self._mutated(s3, tg.attr, _AUG.get(type(a.op), "__iadd__"), (v,), a, fr)
                        out.append(s3)
                    else:
                        out.append(self.emit(s2, ("store", ov, tg.attr, f"({ov}).{tg.attr} {_OPS.get(type(a.op), '+')} ({v})", a, fr.fi)))
            elif isinstance(tg, ast.Subscript):
                for ov, s2 in self.ev(tg.value, s, fr):
                    for iv, s3 in self.ev(tg.slice, s2, fr):
                        out += self._setitem(ov, iv, f"({ov})[{iv}] {_OPS.get(type(a.op), '+')} ({v})", s3, fr, a)
            else:
                out.append(s)
        return out

    def _delete(self, tg: ast.AST, st: St, fr: Frame, a: ast.AST) -> list[St]:
        if isinstance(tg, ast.Name):
            e = dict(st.env)
            e.pop(tg.id, None)
            return [st.with_env(e)]
        if isinstance(tg, ast.Subscript):
            out = []
            for ov, s in self.ev(tg.value, st, fr):
                for iv, s2 in self.ev(tg.slice, s, fr):
                    if ov == SELF:
                        tgt = self._lookup_self("__delitem__")
                        if isinstance(tgt, FuncInfo):
                            out += [s3 for _, s3 in self.call(Fn("func", "__delitem__", fi=tgt, bound=SELF), [iv], {}, s2, fr, a)]
                            continue
                    l = loc_of(ov)
                    if l is not None:
                        s3 = self.emit(s2, ("op", l, "__delitem__", (iv,), a, fr.fi))
                        out.append(self._mutated(s3, l, "__delitem__", (iv,), a, fr))
                    else:
                        out.append(self.emit(s2, ("storeitem", ov, iv, "__deleted__", a, fr.fi)))
            return out
        if isinstance(tg, ast.Attribute):
            out = []
            for ov, s in self.ev(tg.value, st, fr):
                if ov == SELF:
                    d = self._lookup_self(f"{tg.attr}.deleter")
                    if isinstance(d, FuncInfo):
                        out += [s3 for _, s3 in self.call(Fn("func", d.name, fi=d, bound=SELF), [], {}, s, fr, a)]
                        continue
                    da = self._lookup_self("__delattr__")
                    if isinstance(da, FuncInfo):
                        out += [s3 for _, s3 in self.call(Fn("func", "__delattr__", fi=da, bound=SELF), [repr(tg.attr)], {}, s, fr, a)]
                        continue
                    s3 = self.emit(s, ("op", tg.attr, "delattr", (), a, fr.fi))
                    out.append(self._mutated(s3, tg.attr, "delattr", (), a, fr))
                else:
                    out.append(self.emit(s, ("store", ov, tg.attr, "__deleted__", a, fr.fi)))
            return out
        if isinstance(tg, (ast.Tuple, ast.List)):
            cur = [st]
            for e in tg.elts:
                cur = [s2 for s in cur for s2 in self._delete(e, s, fr, a)]
            return cur
        return [st]

    # ------------------------------------------------------------------ assignment targets
    def assign(self, tg: ast.AST, v: str, st: St, fr: Frame, a: ast.AST) -> list[St]:
        if isinstance(tg, ast.Name):
            return [st.bind(tg.id, v)]
        if isinstance(tg, ast.Starred):
            return self.assign(tg.value, f"list({v})", st, fr, a)
        if isinstance(tg, (ast.Tuple, ast.List)):
            vn = P(v)
            cur = [st]
            for i, e in enumerate(tg.elts):
                if isinstance(vn, (ast.Tuple, ast.List)) and len(vn.elts) == len(tg.elts) and not any(isinstance(x, ast.Starred) for x in list(vn.elts) + list(tg.elts)):
                    ev_ = text(vn.elts[i])
                else:
                    ev_ = text(ast.Subscript(value=clone(vn, {}), slice=ast.Constant(value=i), ctx=ast.Load()))
                cur = [s2 for s in cur for s2 in self.assign(e, ev_, s, fr, a)]
            return cur
        if isinstance(tg, ast.Attribute):
            out = []
            for ov, s in self.ev(tg.value, st, fr):
                if ov == SELF:
                    setter = self._lookup_self(f"{tg.attr}.setter")
                    if isinstance(setter, FuncInfo):
                        out += [s2 for _, s2 in self.call(Fn("func", setter.name, fi=setter, bound=SELF), [v], {}, s, fr, a)]
                        continue
                    if tg.attr in self.cb_attrs or tg.attr in CACHE_ATTRS:
                        out.append(self.emit(s, ("store", SELF, tg.attr, v, a, fr.fi)))
                        continue
                    s2 = self.emit(s, ("op", tg.attr, "store", (v,), a, fr.fi))
                    out.append(self._mutated(s2, tg.attr, "store", (v,), a, fr))
                else:
                    out.append(self.emit(s, ("store", ov, tg.attr, v, a, fr.fi)))
            return out
        if isinstance(tg, ast.Subscript):
            out = []
            for ov, s in self.ev(tg.value, st, fr):
                for iv, s2 in self.ev(tg.slice, s, fr):
                    out += self._setitem(ov, iv, v, s2, fr, a)
            return out
        return [st]

    def _setitem(self, ov: str, iv: str, v: str, st: St, fr: Frame, a: ast.AST) -> list[St]:
        if ov == SELF:
            tgt = self._lookup_self("__setitem__")
            if isinstance(tgt, FuncInfo):
                return [s for _, s in self.call(Fn("func", "__setitem__", fi=tgt, bound=SELF), [iv, v], {}, st, fr, a)]
        l = loc_of(ov)
        if l is not None:
            s = self.emit(st, ("op", l, "__setitem__", (iv, v), a, fr.fi))
            return [self._mutated(s, l, "__setitem__", (iv, v), a, fr)]
        return [self.emit(st, ("storeitem", ov, iv, v, a, fr.fi))]

    def _lookup_self(self, name: str, after: str | None = None):
        if self.cls is None:
            return None
        _, what = self.repo.lookup(self.cls, name, after)
        return what

    def _mutated(self, st: St, loc: str, op: str, args: tuple, node: ast.AST, fr: Frame) -> St:
        """the operation changes storage ``loc`` on this path: emit, forget what the path knew about it."""
        st = self.emit(st, ("mut", loc, op, args, node, fr.fi))
        st = st.kill(lambda k: mentions_loc(k, loc))
        cont = SELF if loc == "" else f"{SELF}.{loc}"
        if args and op in ADDS_KEY and not (op == "__setitem__" and isinstance(P(args[0]), ast.Slice)):
            st = st.with_fact(f"{args[0]} in {cont}", True)
        elif args and op in DROPS_KEY:
            st = st.with_fact(f"{args[0]} in {cont}", False)
        return st

    def _storage_op(self, loc: str, op: str, args: tuple, st: St, fr: Frame, node: ast.AST, value: str) -> list[tuple[str, St]]:
        """a mutator-named operation on a storage location: 'op' always, 'mut' when it changes the storage."""
        st = self.emit(st, ("op", loc, op, args, node, fr.fi))
        cont = SELF if loc == "" else f"{SELF}.{loc}"
        if op in CONDITIONAL and args:
            key = f"{args[0]} in {cont}"
            res = []
            for present, s in self._decide(key, st):
                if op == "setdefault":
                    res.append((value, self._mutated(s, loc, op, args, node, fr) if not present else s))
                elif present:
                    res.append((value, self._mutated(s, loc, op, args, node, fr)))
                elif op == "discard" or (op == "pop" and len(args) >= 2):
                    res.append((args[1] if op == "pop" else "None", s))
                else:  # implicit exception of the builtin: marked with ~ (rules do not judge implicit raises)
                    fr.raised.append(("~KeyError" if op == "pop" else "~?", s))
            return res
        return [(value, self._mutated(st, loc, op, args, node, fr))]

    # ------------------------------------------------------------------ facts
    def _decide(self, key: str, st: St, positive: bool = True) -> list[tuple[bool, St]]:
        """truth of canonical atom ``key`` on this path: known fact, oracle, or fork (recording the fact)."""
        if key in st.facts:
            return [(st.facts[key] == positive, st)]
        if self.oracle is not None:
            o = self.oracle(key)
            if o is not None:
                return [(o == positive, st)]
        allowed = _identity_consistency(st.facts, key)
        if len(allowed) == 2:
            self.unknown_forks.add(key)
        return [(v == positive, st.with_fact(key, v)) for v in allowed]

    def truth(self, e: ast.AST, st: St, fr: Frame) -> list[tuple[bool, St]]:
        """truth value of an expression (forks on unknown atoms)."""
        if isinstance(e, ast.BoolOp):
            res: list[tuple[bool, St]] = []
            cur = [st]
            is_and = isinstance(e.op, ast.And)
            for i, v in enumerate(e.values):
                nxt = []
                for s in cur:
                    for b, s2 in self.truth(v, s, fr):
                        if b != is_and:
                            res.append((b, s2))
                        elif i == len(e.values) - 1:
                            res.append((b, s2))
                        else:
                            nxt.append(s2)
                cur = nxt
            return res
        if isinstance(e, ast.UnaryOp) and isinstance(e.op, ast.Not):
            return [(not b, s) for b, s in self.truth(e.operand, st, fr)]
        if isinstance(e, ast.Compare) and len(e.ops) == 1:
            out = []
            for l, s in self.ev(e.left, st, fr):
                for r, s2 in self.ev(e.comparators[0], s, fr):
                    if r == SELF and isinstance(e.ops[0], (ast.In, ast.NotIn)):
                        ct = self._lookup_self("__contains__")
                        if isinstance(ct, FuncInfo) and self._may_inline(ct):
                            for v, s3 in self.call(Fn("func", "__contains__", fi=ct, bound=SELF), [l], {}, s2, fr, e):
                                out += [(b == isinstance(e.ops[0], ast.In), s4) for b, s4 in self._truth_of(v, s3)]
                            continue
                    out += self._compare(e, e.ops[0], l, r, s2, fr)
            return out
        if isinstance(e, ast.NamedExpr):
            out = []
            for v, s in self.ev(e.value, st, fr):
                out += self._truth_of(v, s.bind(e.target.id, v))
            return out
        out = []
        for v, s in self.ev(e, st, fr):
            out += self._truth_of(v, s)
        return out

    def _truth_of(self, v: str, st: St) -> list[tuple[bool, St]]:
        c = const_of(v)
        if c is not _NOCONST:
            return [(bool(c), st)]
        if v == CBV or nonempty(v) or v in self.fns or v.startswith("__obj_"):
            return [(True, st)]
        n = P(v)
        if isinstance(n, (ast.List, ast.Tuple, ast.Set)) and n.elts or isinstance(n, ast.Dict) and n.keys:
            return [(True, st)]
        if isinstance(n, ast.UnaryOp) and isinstance(n.op, ast.Not):
            return [(not b, s) for b, s in self._truth_of(text(n.operand), st)]
        k, p = canon(n)
        return self._decide(k, st, p)

    def _compare(self, e: ast.AST, op: ast.cmpop, l: str, r: str, st: St, fr: Frame) -> list[tuple[bool, St]]:
        st = self.emit(st, ("compare", type(op).__name__, l, r, e, fr.fi))
        cl, cr = const_of(l), const_of(r)
        if isinstance(op, (ast.Is, ast.IsNot)):
            res = None
            if cl is not _NOCONST and cr is not _NOCONST and (cl is None or cr is None or isinstance(cl, bool) or isinstance(cr, bool) or cl is Ellipsis or cr is Ellipsis):
                res = cl is cr
            elif (cr is None or isinstance(cr, bool)) and cr is not _NOCONST and (l in (CBV, SELF) or nonempty(l) or l in self.fns or cl is not _NOCONST):
                res = False
            elif (cl is None or isinstance(cl, bool)) and cl is not _NOCONST and (r in (CBV, SELF) or nonempty(r) or r in self.fns or cr is not _NOCONST):
                res = False
            elif l == r and l in self.fns:
                res = True
            elif (cl is not _NOCONST and self._is_sentinel(r, fr)) or (cr is not _NOCONST and self._is_sentinel(l, fr)):
                res = False  # a constant is never a module-level sentinel object
            elif l == r and self._sentinel_kind(l, fr) is not None:
                res = True  # the sentinel itself reached the comparison (e.g. through a local that was assigned it)
            elif l.startswith("__obj_") and r.startswith("__obj_") and P(l).__class__ is ast.Name and P(r).__class__ is ast.Name:
                res = False  # two marker objects created at different places
            elif (self._sentinel_kind(r, fr) is not None and self._not_the_sentinel(l, r, fr)) or (self._sentinel_kind(l, fr) is not None and self._not_the_sentinel(r, l, fr)):
                res = False
            if res is not None:
                return [(res == isinstance(op, ast.Is), st)]
        elif isinstance(op, (ast.Eq, ast.NotEq)) and (cl is _NOCONST or cr is _NOCONST) and (self._plain_sentinel(l, fr) or self._plain_sentinel(r, fr)):
            # == with a sentinel whose class defines no __eq__: a builtin value answers NotImplemented for the foreign
            # type, the comparison falls back to identity
            res = None
            if l == r:
                res = True
            elif (self._plain_sentinel(r, fr) and self._builtin_value(l, fr)) or (self._plain_sentinel(l, fr) and self._builtin_value(r, fr)):
                res = False
            if res is not None:
                return [(res == isinstance(op, ast.Eq), st)]
        elif cl is not _NOCONST and cr is not _NOCONST:
            try:
                res = {
                    ast.Eq: lambda: cl == cr, ast.NotEq: lambda: cl != cr, ast.Lt: lambda: cl < cr, ast.LtE: lambda: cl <= cr,
                    ast.Gt: lambda: cl > cr, ast.GtE: lambda: cl >= cr, ast.In: lambda: cl in cr, ast.NotIn: lambda: cl not in cr,
                }[type(op)]()
                return [(bool(res), st)]
            except Exception:
                pass
        elif cl is not _NOCONST and isinstance(op, (ast.In, ast.NotIn)):
            folded = self._fold(e.comparators[0], fr) if isinstance(e, ast.Compare) else _NOCONST
            if folded is not _NOCONST:
                try:
                    return [((cl in folded) == isinstance(op, ast.In), st)]
                except Exception:
                    pass
        n = ast.Compare(left=clone(P(l), {}), ops=[type(op)()], comparators=[clone(P(r), {})])
        k, p = canon(n)
        return self._decide(k, st, p)

    def _is_sentinel(self, term: str, fr: Frame) -> bool:
        """the term names a module-level object of the package created by a call (``_missing = _Missing()``)."""
        if not re.match(r"^[A-Za-z_]\w*$", term) or fr.module is None:
            return False
        tgt = self.repo.resolve(fr.module, term)
        if not tgt or not tgt.startswith("werkzeug"):
            return False
        mn, _, nm = tgt.rpartition(".")
        m = self.repo.modules.get(mn)
        v = getattr(m, "assigns", {}).get(nm) if m is not None else None
        if isinstance(v, list):
            v = v[-1] if v else None
        return isinstance(v, ast.Call)

    def _sentinel_kind(self, term: str, fr: Frame) -> str | None:
        """the term denotes an object that serves as a marker and is told apart by identity: 'private' for a
        module-level sentinel of the package (see _sentinel_class) and for an ``object()`` created in the function
        itself (one token per creation site), 'public' for the Ellipsis constant; None otherwise."""
        if term == "...":
            return "public"
        if term.startswith("__obj_") or self._sentinel_class(term, fr) is not None:
            return "private"
        return None

    def _sentinel_class(self, term: str, fr: Frame) -> ClassInfo | str | None:
        """the term names a module-level object of the package that is bound once, to ``K()`` with K a package class
        deriving from no builtin type (``_missing = _Missing()``): the class of that object ('object' for a
        module-level ``object()``)."""
        if not re.match(r"^[A-Za-z_]\w*$", term) or fr.module is None:
            return None
        tgt = self.repo.resolve(fr.module, term)
        if not tgt or not tgt.startswith("werkzeug"):
            return None
        mn, _, nm = tgt.rpartition(".")
        m = self.repo.modules.get(mn)
        vs = getattr(m, "assigns", {}).get(nm) if m is not None else None
        if not isinstance(vs, list) or len(vs) != 1 or not isinstance(vs[0], ast.Call) or vs[0].args or vs[0].keywords:
            return None
        d = dotted(vs[0].func)
        kt = self.repo.resolve(m, d) if d else None
        if kt == "builtins.object":
            return "object"
        k = self.repo.try_cls(kt) if kt and kt.startswith("werkzeug") else None
        if k is None or "__new__" in k.methods:
            return None
        try:
            mro = self.repo.mro(k)
        except AnalysisError:
            return None
        if any(isinstance(b, BuiltinClass) and b.fq != "builtins.object" for b in mro):
            return None
        return k

    def _plain_sentinel(self, term: str, fr: Frame) -> bool:
        """a sentinel (see _sentinel_kind) whose class leaves == / != to object (identity)."""
        if term == "..." or term.startswith("__obj_"):
            return True
        k = self._sentinel_class(term, fr)
        if k is None:
            return False
        if isinstance(k, str):
            return True
        return not any(isinstance(b, ClassInfo) and ("__eq__" in b.methods or "__ne__" in b.methods) for b in self.repo.mro(k))

    # operations that hand back something that was stored / passed in earlier (possibly the sentinel itself)
    _ELEMENT_READS = {"get", "pop", "setdefault", "popitem", "popleft", "__getitem__", "__next__", "send", "getlist", "get_all", "poplist", "popitemlist"}
    _ELEMENT_FUNCS = {"getattr", "next", "min", "max", "vars", "iter", "reversed", "sorted", "cast", "copy", "deepcopy", "super", "partial"}

    def _not_the_sentinel(self, term: str, sentinel: str, fr: Frame) -> bool:
        """the value of ``term`` is certainly not the module-level sentinel object named ``sentinel``: identity with a
        sentinel is decided by which binding reached the comparison.  True for an instance of a builtin value type
        (str(x), a display, a comparison ...: the sentinel's class derives from no builtin type) and for the result
        of a call that is neither handed the sentinel nor reads an element back out of a container / iterator /
        attribute: a private sentinel gets into a value only by being named (ASSUMPTION of the rules that use this
        executor: functions and methods of other objects do not return the package's private sentinel objects)."""
        if self._builtin_value(term, fr):
            return True
        n = P(term)
        if isinstance(n, ast.IfExp):
            return all(self._not_the_sentinel(text(x), sentinel, fr) for x in (n.body, n.orelse))
        if sentinel == "...":
            return False  # a public object: any function may return it
        if not isinstance(n, ast.Call) or re.search(r"(?<![\w.])" + re.escape(sentinel) + r"(?!\w)", term):
            return False
        f = n.func
        if isinstance(f, ast.Attribute):
            return f.attr not in self._ELEMENT_READS and not f.attr.startswith("__")
        if isinstance(f, ast.Name):
            return f.id not in self._ELEMENT_FUNCS and not f.id.startswith("__stub") and not f.id.startswith("__result_of")
        return False

    _VALUE_BUILTINS = {"str", "int", "float", "bool", "bytes", "repr", "len", "tuple", "list", "dict", "set", "frozenset", "format", "ascii", "chr", "hex", "hash", "id"}

    def _builtin_value(self, term: str, fr: Frame) -> bool:
        """the term evaluates to an instance of a builtin value type whatever its operands are: a constant, a display,
        a comprehension, an f-string, a comparison / negation, or a call of a builtin constructor / function that
        returns one (the name resolved in the module: not shadowed)."""
        if nonempty(term) or const_of(term) is not _NOCONST:
            return True
        n = P(term)
        if isinstance(n, (ast.JoinedStr, ast.List, ast.Tuple, ast.Dict, ast.Set, ast.ListComp, ast.SetComp, ast.DictComp, ast.Compare)):
            return True
        if isinstance(n, ast.UnaryOp) and isinstance(n.op, ast.Not):
            return True
        if isinstance(n, ast.IfExp):
            return self._builtin_value(text(n.body), fr) and self._builtin_value(text(n.orelse), fr)
        if isinstance(n, ast.Call) and isinstance(n.func, ast.Name) and n.func.id in self._VALUE_BUILTINS and fr.module is not None:
            return self.repo.resolve(fr.module, n.func.id) == f"builtins.{n.func.id}"
        return False

    def _fold(self, e: ast.AST, fr: Frame):
        """value of a module-level constant expression (wzsa.fold)."""
        if not isinstance(e, (ast.Name, ast.Attribute)) or fr.module is None:
            return _NOCONST
        try:
            from ..fold import Folder

            if self._folder is None:
                self._folder = Folder(self.repo)
            return self._folder.expr(fr.module, e)
        except Exception:
            return _NOCONST

    # ------------------------------------------------------------------ expressions
    def ev_list(self, exprs: list[ast.AST], st: St, fr: Frame) -> list[tuple[tuple[str, ...], St]]:
        res: list[tuple[tuple[str, ...], St]] = [((), st)]
        for e in exprs:
            nxt = []
            for terms, s in res:
                for v, s2 in self.ev(e, s, fr):
                    nxt.append((terms + (v,), s2))
            res = nxt
        return res

    def ev(self, e: ast.AST, st: St, fr: Frame) -> list[tuple[str, St]]:
        """value terms of an expression (several when calls / conditions fork); calls are followed, events emitted."""
        if isinstance(e, ast.Constant):
            return [("..." if e.value is Ellipsis else repr(e.value), st)]
        if isinstance(e, ast.Name):
            if e.id in st.env:
                return [(st.env[e.id], st)]
            return [(e.id, st)]
        if isinstance(e, ast.Attribute):
            out = []
            for b, s in self.ev(e.value, st, fr):
                out += self._getattr(b, e.attr, s, fr, e)
            return out
        if isinstance(e, ast.Call):
            return self._call_expr(e, st, fr)
        if isinstance(e, ast.NamedExpr):
            return [(v, s.bind(e.target.id, v)) for v, s in self.ev(e.value, st, fr)]
        if isinstance(e, ast.Lambda):
            return [(self.closure(e, st, fr), st)]
        if isinstance(e, ast.IfExp):
            out = []
            for b, s in self.truth(e.test, st, fr):
                out += self.ev(e.body if b else e.orelse, s, fr)
            return out
        if isinstance(e, ast.BoolOp):
            # value semantics: the deciding operand is the value
            out = []
            cur = [st]
            is_and = isinstance(e.op, ast.And)
            for i, v in enumerate(e.values):
                nxt = []
                for s in cur:
                    for val, s2 in self.ev(v, s, fr):
                        if i == len(e.values) - 1:
                            out.append((val, s2))
                            continue
                        for b, s3 in self._truth_of(val, s2):
                            if b != is_and:
                                out.append((val, s3))
                            else:
                                nxt.append(s3)
                cur = nxt
            return _dedupe(out)
        if isinstance(e, ast.UnaryOp) and isinstance(e.op, ast.Not):
            return _dedupe([(repr(not b), s) for b, s in self.truth(e.operand, st, fr)])
        if isinstance(e, ast.Compare) and len(e.ops) == 1:
            return _dedupe([(repr(b), s) for b, s in self.truth(e, st, fr)])
        if isinstance(e, (ast.ListComp, ast.SetComp, ast.GeneratorExp, ast.DictComp)):
            return [self._comp(e, st, fr)]
        if isinstance(e, ast.Subscript):
            out = []
            for b, s in self.ev(e.value, st, fr):
                for i, s2 in self.ev(e.slice, s, fr):
                    if b == SELF:
                        gi = self._lookup_self("__getitem__")
                        if isinstance(gi, FuncInfo) and self._may_inline(gi):
                            out += self.call(Fn("func", "__getitem__", fi=gi, bound=SELF), [i], {}, s2, fr, e)
                            continue
                    l = loc_of(b)
                    if l is not None:
                        s2 = self.emit(s2, ("read", l, "__getitem__", (i,), e, fr.fi))
                    out.append((text(ast.Subscript(value=clone(P(b), {}), slice=clone(P(i), {}), ctx=ast.Load())), s2))
            return out
        if isinstance(e, ast.Starred):
            return [("*" + v, s) for v, s in self.ev(e.value, st, fr)]
        if isinstance(e, (ast.Yield, ast.Await, ast.YieldFrom)):
            if e.value is None:
                return [("None", st)]
            return [(f"__yielded_{getattr(e, 'lineno', 0)}__", self.emit(s, ("yield", v, e, fr.fi))) for v, s in self.ev(e.value, st, fr)]
        # generic: evaluate the direct sub-expressions in order, rebuild the node around their terms
        kids: list[ast.AST] = []
        for ch in ast.iter_child_nodes(e):
            if isinstance(ch, ast.FormattedValue):
                kids.append(ch.value)
            elif isinstance(ch, ast.expr):
                kids.append(ch)
            elif isinstance(ch, ast.keyword):
                kids.append(ch.value)
        out = []
        for terms, s in self.ev_list(kids, st, fr):
            repl = {id(k): (v[1:] if v.startswith("*") and not isinstance(k, ast.Starred) else v) for k, v in zip(kids, terms)}
            repl = {i: v for i, v in repl.items() if not v.startswith("*")}
            try:
                out.append((text(clone(e, repl)), s))
            except Exception:
                out.append((f"__expr_{getattr(e, 'lineno', 0)}_{getattr(e, 'col_offset', 0)}__", s))
        return out

    def _comp(self, e: ast.AST, st: St, fr: Frame) -> tuple[str, St]:
        """a comprehension / generator as a structural term: free names replaced by their terms, bound names kept;
        comparisons inside are reported as events."""
        bound: set[str] = set()
        for g in e.generators:  # type: ignore[attr-defined]
            for x in ast.walk(g.target):
                if isinstance(x, ast.Name):
                    bound.add(x.id)
        repl: dict[int, str] = {}
        for x in ast.walk(e):
            if isinstance(x, ast.Name) and isinstance(x.ctx, ast.Load) and x.id not in bound and x.id in st.env:
                v = st.env[x.id]
                if not v.startswith("*"):
                    repl[id(x)] = v
        new = clone(e, repl)
        for x in ast.walk(new):
            if isinstance(x, ast.Compare) and len(x.ops) == 1:
                # find the source node for the location of the event
                src = next((y for y in ast.walk(e) if isinstance(y, ast.Compare) and getattr(y, "lineno", None) is not None and ast.dump(clone(y, repl)) == ast.dump(x)), e)
                st = self.emit(st, ("compare", type(x.ops[0]).__name__, text(x.left), text(x.comparators[0]), src, fr.fi))
        t_ = text(new)
        return t_, self._reads_in(t_, st, fr, e, "comprehension")

    def _may_inline(self, fi: FuncInfo) -> bool:
        if self.inline_public:
            return True
        n = fi.name
        return n.startswith("_") and not (n.startswith("__") and n.endswith("__"))

    def _getattr(self, b: str, attr: str, st: St, fr: Frame, node: ast.AST) -> list[tuple[str, St]]:
        if b == SELF:
            if attr in self.cb_attrs:
                return [(CBV, st)]
            if attr == "__class__":
                return [("type(__self__)", st)]
            what = self._lookup_self(attr)
            if isinstance(what, FuncInfo):
                decs = what.decorators
                if any(d == "property" or d.endswith(".property") or d.endswith("cached_property") for d in decs):
                    return self.call(Fn("func", attr, fi=what, bound=SELF), [], {}, st, fr, node)
                if any(d in ("staticmethod",) for d in decs):
                    return [(self.method_fn(what, None), st)]
                if self._may_inline(what):
                    return [(self.method_fn(what, SELF), st)]
            return [(f"{SELF}.{attr}", st)]
        if b == SUPER or b.startswith("__super_"):
            return [(f"{b}.{attr}", st)]
        return [(text(ast.Attribute(value=clone(P(b), {}), attr=attr, ctx=ast.Load())), st)]

    def _call_expr(self, e: ast.Call, st: St, fr: Frame) -> list[tuple[str, St]]:
        f = e.func
        out: list[tuple[str, St]] = []
        # ---- receiver
        if isinstance(f, ast.Attribute):
            recvs = self.ev(f.value, st, fr)
        else:
            recvs = [(None, st)]
        for recv, s0 in recvs:
            if isinstance(f, ast.Attribute):
                fvals = [(None, s0)]
            else:
                fvals = self.ev(f, s0, fr)
            for fv, s1 in fvals:
                argexprs = list(e.args) + [k.value for k in e.keywords]
                for terms, s2 in self.ev_list(argexprs, s1, fr):
                    args = []
                    for a_ in terms[: len(e.args)]:
                        an = P(a_[1:]) if a_.startswith("*") else None
                        if isinstance(an, (ast.Tuple, ast.List)) and not any(isinstance(x, ast.Starred) for x in an.elts):
                            args += [text(x) for x in an.elts]  # *(a, b) -> a, b
                        else:
                            args.append(a_)
                    kwargs = {}
                    for k, v in zip(e.keywords, terms[len(e.args):]):
                        kwargs[k.arg if k.arg is not None else "**"] = v
                    out += self._dispatch(e, recv, f.attr if isinstance(f, ast.Attribute) else None, fv, args, kwargs, s2, fr)
        return _dedupe(out)

    def _opaque(self, e: ast.Call, recv: str | None, attr: str | None, fv: str | None, args: list[str], kwargs: dict[str, str], st: St) -> tuple[str, St]:
        fn_t = f"({recv}).{attr}" if recv is not None else fv
        try:
            fnode = clone(P(fn_t), {})  # type: ignore[arg-type]
            call = ast.Call(
                func=fnode,
                args=[(ast.Starred(value=clone(P(a[1:]), {}), ctx=ast.Load()) if a.startswith("*") else clone(P(a), {})) for a in args],
                keywords=[ast.keyword(arg=(None if k == "**" else k), value=clone(P(v), {})) for k, v in kwargs.items()],
            )
            term = text(call)
        except Exception:
            term = f"__call_{getattr(e, 'lineno', 0)}_{getattr(e, 'col_offset', 0)}__"
        pure = (attr in PURE_METHODS) if attr is not None else (fv in PURE_FUNCS)
        if not pure:
            st = st.kill(lambda k: term in k)
        return term, st

    def _dispatch(self, e: ast.Call, recv: str | None, attr: str | None, fv: str | None, args: list[str], kwargs: dict[str, str], st: St, fr: Frame) -> list[tuple[str, St]]:
        repo = self.repo
        # ---- method call on a receiver
        if attr is not None:
            assert recv is not None
            if recv == SELF and attr == "__class__":
                return [self._opaque(e, None, None, "type(__self__)", args, kwargs, st)]
            if recv == SELF or recv == "type(__self__)":
                if recv != SELF:
                    if not args or args[0] != SELF:
                        return [self._opaque(e, recv, attr, fv, args, kwargs, st)]
                    args = args[1:]
                if attr in self.cb_attrs:
                    return self._call_cb(args, st, fr, e)
                return self._self_call(attr, None, args, kwargs, st, fr, e)
            if recv == SUPER:
                after = fr.defcls.fq if fr.defcls is not None else None
                return self._self_call(attr, after, args, kwargs, st, fr, e)
            if recv in self.fns:
                return [self._opaque(e, recv, attr, fv, args, kwargs, st)]
            if recv == CBV:
                return [self._opaque(e, recv, attr, fv, args, kwargs, st)]
            l = loc_of(recv)
            if l is not None and l != "":
                if attr in self.mutnames:
                    val, s = self._opaque(e, recv, attr, fv, args, kwargs, st)
                    return self._storage_op(l, attr, tuple(args), s, fr, e, val)
                val, s = self._opaque(e, recv, attr, fv, args, kwargs, st)
                return [(val, self.emit(s, ("read", l, attr, tuple(args), e, fr.fi)))]
            # Class.method(self, ...)
            if args and args[0] == SELF and re.match(r"^[A-Za-z_][\w.]*$", recv) and fr.module is not None:
                tgt = repo.resolve(fr.module, recv)
                if tgt in ("builtins.dict", "builtins.list", "builtins.set") and attr in self.mutnames:
                    val, s = self._opaque(e, recv, attr, fv, args, kwargs, st)
                    return self._storage_op("", attr, tuple(args[1:]), s, fr, e, val)
                if tgt == "builtins.object" and attr == "__setattr__" and len(args) >= 3:
                    return [("None", self.emit(st, ("setattr", args[1], args[2], e, fr.fi)))]
                c = repo.try_cls(tgt) if tgt and tgt.startswith("werkzeug") else None
                if c is not None:
                    _, what = repo.lookup(c, attr)
                    if isinstance(what, FuncInfo):
                        return self.call(Fn("func", attr, fi=what), args, kwargs, st, fr, e)
                    if what == "builtin" and attr in self.mutnames:
                        val, s = self._opaque(e, recv, attr, fv, args, kwargs, st)
                        return self._storage_op("", attr, tuple(args[1:]), s, fr, e, val)
            # mutation of a local accumulator: remember that it is no longer empty
            val, s = self._opaque(e, recv, attr, fv, args, kwargs, st)
            s = self.emit(s, ("mcall", recv, attr, tuple(args), e, fr.fi))
            if attr in ("append", "add", "extend", "update", "insert", "appendleft") and args:
                c = const_of(recv)
                f = e.func
                if (c is not _NOCONST and isinstance(c, (list, set, dict)) or nonempty(recv) or recv.startswith("__maybe_")) and isinstance(f, ast.Attribute) and isinstance(f.value, ast.Name):
                    grows = attr in ("append", "add", "insert", "appendleft") or (isinstance(P(args[0]), (ast.List, ast.Tuple, ast.Set)) and bool(P(args[0]).elts))  # type: ignore[attr-defined]
                    if grows:
                        kind = recv[len("__maybe_"):-2] if recv.startswith("__maybe_") else None
                        s = s.bind(f.value.id, recv if nonempty(recv) else f"__nonempty_{kind}__" if kind else _nonempty_like(c))
                    elif not nonempty(recv) and not recv.startswith("__maybe_"):
                        s = s.bind(f.value.id, f"__maybe_{type(c).__name__}__")  # a local container that may or may not have grown
            return [(val, s)]
        # ---- plain call
        assert fv is not None
        if fv in self.fns:
            return self.call(self.fns[fv], args, kwargs, st, fr, e)
        if fv == CBV:
            return self._call_cb(args, st, fr, e)
        head = fv
        if head == "super":
            return [(SUPER, st)]
        if head == "object" and not args and not kwargs and fr.module is not None and repo.resolve(fr.module, "object") == "builtins.object":
            # a fresh marker object: one token per creation site, told apart by identity
            return [(f"__obj_L{getattr(e, 'lineno', 0)}c{getattr(e, 'col_offset', 0)}__", st)]
        if head in PASS_THROUGH or head.rsplit(".", 1)[-1] in PASS_THROUGH:
            i = PASS_THROUGH[head.rsplit(".", 1)[-1]]
            if i < len(args):
                return [(args[i], st)]
        if head == "getattr" and len(args) >= 2:
            c = const_of(args[1])
            if isinstance(c, str):
                if args[0] == SELF:
                    return self._getattr(SELF, c, st, fr, e)
                if args[0] == "type(__self__)":
                    what = self._lookup_self(c)
                    if isinstance(what, FuncInfo) and any(d == "property" or d.endswith(".setter") for d in what.decorators):
                        return [("__property_object__", st)]
                    if what is None and len(args) >= 3:
                        return [(args[2], st)]
        if head == "isinstance" and len(args) == 2 and args[0] == "__property_object__":
            return [(repr(args[1] == "property"), st)]
        if head == "setattr" and len(args) == 3 and args[0] == SELF:
            c = const_of(args[1])
            if isinstance(c, str):
                tmp = ast.Attribute(value=ast.Name(id="__selfname__", ctx=ast.Load()), attr=c, ctx=ast.Store())
                return [("None", s) for s in self.assign(tmp, args[2], st.bind("__selfname__", SELF), fr, e)]
            return [("None", self._mutated(self.emit(st, ("op", "?", "setattr", (args[1], args[2]), e, fr.fi)), "?", "setattr", (args[1], args[2]), e, fr))]
        if head == "type" and len(args) == 1 and args[0] == SELF:
            return [("type(__self__)", st)]
        if head == "vars" and len(args) == 1 and args[0] == SELF:
            return [(f"{SELF}.__dict__", st)]
        if head in ("bool",) and len(args) == 1:
            return _dedupe([(repr(b), s) for b, s in self._truth_of(args[0], st)])
        if re.match(r"^[A-Za-z_][\w.]*$", head) and fr.module is not None and head.split(".")[0] not in st.env:
            tgt = repo.resolve(fr.module, head)
            if tgt and tgt.startswith("werkzeug"):
                tf = repo.try_func(tgt)
                if tf is not None and tf.cls is None:
                    touches = any(a == SELF or (loc_of(a.lstrip("*")) is not None) for a in list(args) + list(kwargs.values()))
                    private = tf.name.startswith("_") and tf.module is fr.module
                    if touches or private:
                        return self.call(Fn("func", tf.name, fi=tf), args, kwargs, st, fr, e)
                c = repo.try_cls(tgt)
                if c is not None:
                    st = self.emit(st, ("construct", c.name, tuple(args), tuple(sorted(kwargs.items())), e, fr.fi))
        for a_ in list(args) + list(kwargs.values()):
            st = self._reads_in(a_, st, fr, e, head)
        return [self._opaque(e, None, None, fv, args, kwargs, st)]

    def _reads_in(self, term: str, st: St, fr: Frame, node: ast.AST, how: str) -> St:
        """a storage location handed as a whole to an iteration / function / comprehension is read."""
        for l in sorted(set(re.findall(r"__self__\.(\w+)", term))):
            st = self.emit(st, ("read", l, how, (), node, fr.fi))
        if re.search(r"__self__(?![\w.])", term):
            st = self.emit(st, ("read", "", how, (), node, fr.fi))
        return st

    def _call_cb(self, args: list[str], st: St, fr: Frame, e: ast.AST) -> list[tuple[str, St]]:
        if args and args[0] == SELF:
            return [("None", self.emit(st, ("notify", e, fr.fi)))]
        return [("None", self.emit(st, ("stub", "__cb_other__", tuple(args), e, fr.fi)))]

    def _self_call(self, name: str, after: str | None, args: list[str], kwargs: dict[str, str], st: St, fr: Frame, e: ast.AST) -> list[tuple[str, St]]:
        """``self.name(...)`` / ``super().name(...)`` resolved in the MRO of the analysed class."""
        if self.cls is None:
            return [self._opaque(e, SELF, name, None, args, kwargs, st)]  # type: ignore[arg-type]
        owner, what = self.repo.lookup(self.cls, name, after)
        if isinstance(what, FuncInfo):
            if after is None and not self._may_inline(what):
                val, s = self._opaque(e, SELF, name, None, args, kwargs, st)  # type: ignore[arg-type]
                return [(val, self.emit(s, ("selfcall", name, tuple(args), e, fr.fi)))]
            decs = what.decorators
            if "staticmethod" in decs:
                return self.call(Fn("func", name, fi=what), args, kwargs, st, fr, e)
            if "classmethod" in decs:
                return self.call(Fn("func", name, fi=what), ["type(__self__)"] + args, kwargs, st, fr, e)
            return self.call(Fn("func", name, fi=what, bound=SELF), args, kwargs, st, fr, e)
        if what == "builtin":
            if name == "__setattr__" and len(args) >= 2:
                return [("None", self.emit(st, ("setattr", args[0], args[1], e, fr.fi)))]
            val, s = self._opaque(e, SELF if after is None else "super()", name, None, args, kwargs, st)  # type: ignore[arg-type]
            if name in self.mutnames and isinstance(owner, BuiltinClass) and owner.fq != "builtins.object":
                return self._storage_op("", name, tuple(args), s, fr, e, val)
            return [(val, self.emit(s, ("read", "", name, tuple(args), e, fr.fi)))]
        if what is None and name == "__setattr__" and len(args) >= 2:
            return [("None", self.emit(st, ("setattr", args[0], args[1], e, fr.fi)))]
        if isinstance(what, ast.Name) and what.id != name:  # alias  __copy__ = copy
            return self._self_call(what.id, None, args, kwargs, st, fr, e)
        return [self._opaque(e, SELF, name, None, args, kwargs, st)]  # type: ignore[arg-type]


# ---------------------------------------------------------------------------
_OPS = {ast.Add: "+", ast.Sub: "-", ast.Mult: "*", ast.BitOr: "|", ast.BitAnd: "&", ast.BitXor: "^", ast.Div: "/", ast.FloorDiv: "//", ast.Mod: "%"}
_AUG = {ast.Add: "__iadd__", ast.Sub: "__isub__", ast.Mult: "__imul__", ast.BitOr: "__ior__", ast.BitAnd: "__iand__", ast.BitXor: "__ixor__"}


def _walk_own(fn: ast.AST) -> t.Iterator[ast.AST]:
    stack = list(ast.iter_child_nodes(fn))
    while stack:
        n = stack.pop()
        yield n
        if isinstance(n, (ast.FunctionDef, ast.AsyncFunctionDef, ast.ClassDef, ast.Lambda)):
            continue
        stack.extend(ast.iter_child_nodes(n))


def _dedupe(res: list[tuple[str, St]]) -> list[tuple[str, St]]:
    seen = set()
    out = []
    for v, s in res:
        k = (v, s.key())
        if k not in seen:
            seen.add(k)
            out.append((v, s))
    return out


_EXC_PARENTS = {"KeyError": {"LookupError"}, "IndexError": {"LookupError"}, "BadRequestKeyError": {"KeyError", "LookupError", "HTTPException", "BadRequest"}}


def _matching_handlers(handlers: list[Node], name: str) -> tuple[list[Node], bool] | None:
    """(handlers that may catch exception ``name``, may it also propagate); None when there are no handlers."""
    if not handlers:
        return None
    name = name.lstrip("~")
    if name == "?":
        return handlers, True
    for h in handlers:
        tp = h.ast.type  # type: ignore[union-attr]
        if tp is None:
            return [h], False
        names = [(dotted(x) or "?").rsplit(".", 1)[-1] for x in (tp.elts if isinstance(tp, ast.Tuple) else [tp])]
        if name in names or "Exception" in names or "BaseException" in names or _EXC_PARENTS.get(name, set()) & set(names):
            return [h], False
        if "?" in names:
            return handlers, True
    return [], True


_pm_cache: dict[int, set[str]] = {}


def _package_mutators(repo: Repo) -> set[str]:
    """method names that reach a primitive mutation on the package's header containers (Headers / MultiDict)."""
    got = _pm_cache.get(id(repo))
    if got is None:
        got = set()
        for fq in ("datastructures.headers.Headers", "datastructures.structures.MultiDict"):
            c = repo.try_cls(fq)
            if c is None:
                continue
            cl = Closure(repo, c)
            for nm in callable_names(repo, c):
                if nm not in ("__init__", "__new__", "copy", "__copy__", "deepcopy", "__deepcopy__") and cl.reach(nm, stop_at_rejectors=False):
                    got.add(nm)
        _pm_cache[id(repo)] = got
    return got


# ---------------------------------------------------------------------------
# change notification: on every path, a change of the subject's storage is followed by a call of the callback


class NotifyResult(t.NamedTuple):
    mutates: bool  # some path changes the storage
    ok: bool  # no normal (or explicitly raising) exit leaves a change un-notified
    fact: str
    outs: list[Out]
    ex: Exec


def _notify_auto(a, ev, st):
    dirty, ever = a
    if ev[0] == "mut":
        return (getattr(ev[-2], "lineno", 0) or -1, True)
    if ev[0] == "stub" and ev[1] == "__stub_mutator__":
        return (getattr(ev[-2], "lineno", 0) or -1, True)
    if ev[0] == "notify":
        return (None, ever)
    return a


def judge_notify(outs: list[Out], ex: Exec) -> NotifyResult:
    mutates = any(o.st.auto[1] for o in outs)
    bad = [o for o in outs if o.st.auto[0] is not None and not o.value.startswith("~") and not (o.kind == "raise" and o.value.startswith("~"))]
    bad = [o for o in bad if not (o.kind == "raise" and o.value.startswith("~"))]
    if bad:
        o = bad[0]
        how = "returns" if o.kind == "ret" else f"raises {o.value}"
        fact = f"a path changes the storage at line {o.st.auto[0]} and {how} without calling the callback (lines visited: {', '.join(map(str, o.st.trail))})"
        return NotifyResult(mutates, False, fact, outs, ex)
    n = sum(1 for o in outs if o.st.auto[1])
    return NotifyResult(mutates, True, f"{len(outs)} path outcome(s) on the inlined call graph, {n} changing the storage, each change followed by the callback", outs, ex)


def notify_flow(repo: Repo, cls: ClassInfo, fi: FuncInfo, subject: int = 0, cb_attrs: t.Iterable[str] = CB_ATTRS) -> NotifyResult:
    ex = Exec(repo, cls, on_event=_notify_auto, cb_attrs=cb_attrs)
    outs = ex.run_function(fi, auto0=(None, False), subject=subject)
    return judge_notify(outs, ex)


def notify_wrapper(repo: Repo, deco: FuncInfo) -> NotifyResult:
    """a decorator ``deco(f)``: the function it returns calls f with the subject, then notifies on every path."""
    ex = Exec(repo, None, on_event=_notify_auto)
    stub = ex.stub("mutator")
    outs = ex.run_function(deco, args=[stub], auto0=(None, False), subject=None)
    rets = {o.value for o in outs if o.kind == "ret"}
    if len(rets) != 1 or next(iter(rets)) not in ex.fns or ex.fns[next(iter(rets))].kind != "closure":
        return NotifyResult(False, False, f"the decorator does not return a wrapper function ({sorted(rets)})", outs, ex)
    wouts = ex.run_fn(next(iter(rets)), [SELF, "*__args__"], auto0=(None, False))
    r = judge_notify(wouts, ex)
    returns_rv = all(o.value != "None" for o in wouts if o.kind == "ret")
    if r.ok and not r.mutates:
        return NotifyResult(False, False, "the wrapper never calls the wrapped function", wouts, ex)
    if r.ok and not all(o.st.auto[1] for o in wouts if o.kind == "ret"):
        return NotifyResult(True, False, "the wrapper has a path that does not call the wrapped function", wouts, ex)
    if r.ok and not returns_rv:
        return NotifyResult(True, False, "the wrapper drops the wrapped function's return value", wouts, ex)
    return r


def callable_notifies(repo: Repo, cls: ClassInfo, ex: Exec, fnname: str) -> tuple[bool, str]:
    """a callable value (lambda / nested def / bound method) given as a child container's callback: calling it with
    the child notifies the subject on every path."""
    fn = ex.fns.get(fnname)
    if fn is None:
        return False, f"`{fnname}` is not a function value"
    ex2 = Exec(repo, cls, on_event=lambda a, ev, st: True if ev[0] == "notify" else a, cb_attrs=ex.cb_attrs)
    ex2.fns = dict(ex.fns)
    outs = ex2.run_fn(fnname, ["__child__"], auto0=False)
    rets = [o for o in outs if o.kind == "ret"]
    ok = bool(rets) and all(o.st.auto for o in rets)
    return ok, f"{len(rets)} path(s), {'each calls' if ok else 'not every path calls'} the subject's callback"
