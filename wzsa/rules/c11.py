"""C11 - conditional and range responses are sound (structural clauses)."""

from __future__ import annotations

import ast
import itertools

from .. import astq
from ..fold import Folder, RegexConst, classes_in, group_width
from ..loader import AnalysisError, AnchorMissing, ClassInfo, FuncInfo, dotted, norm, walk_no_nested
from ..report import Ctx
from . import _c11_helpers as H
from ._c11_helpers import FA

LEVEL_TEXT = (
    "Static decision of structural clauses of C11 on /repo's current source: (R11.1) every validator header reaches its "
    "own parameter of sansio is_resource_modified; the ETags predicate applied to If-None-Match is weak-or-strong-or-star, "
    "the one applied to If-Match admits a strong match and '*', the one applied to the If-Range tag admits a strong match "
    "(truth tables computed from the ETags methods' branch structure), each gets the unquoted response ETag and enters "
    "the verdict with the right polarity; parse_etags files weak and strong tags under the constructor parameter of that "
    "name; (R11.2) the If-None-Match verdict replaces the date verdict by plain assignment and nothing but If-Match can "
    "replace it afterwards; (R11.3) every non-None Last-Modified value reaching the date comparison passed the "
    "naive-or-convert UTC normalisation and a replace() that clears exactly the microseconds, the comparison is "
    "'not later than', and its verdict depends on nothing else; (R11.4) range processing, 304 and 412 are dominated by the "
    "GET/HEAD test, 304/412 by 'not modified' for the response's own ETag and Last-Modified, 412 by a non-empty If-Match; "
    "the 206 path by the Range / If-Range (ignore_if_range=False) gate; (R11.5) Content-Length, Content-Range, the "
    "_RangeWrapper window and status 206 derive from one range_for_length / to_content_range_header pair of one parsed "
    "Range and one complete length, status is set before the wrap, the wrap passes (start, length) to (start_byte, "
    "byte_range); (R11.6) each None from the three range functions leads only to RequestedRangeNotSatisfiable and "
    "send_file closes its file on that path; (R11.7) every non-None result (S, T) of Range.range_for_length is dominated "
    "by branch facts 0 <= S, S < T and T <= length on the returned values (inline or through is_byte_range_valid, whose "
    "own branch structure is enumerated), and by the bytes-unit, known-length and single-range tests. Decided on all "
    "paths of these functions; the byte arithmetic of _RangeWrapper for each chunking is not decided."
)
TRUSTED = [
    "CPython ast",
    "datetime semantics: replace(tzinfo=) relabels, astimezone() converts, aware datetimes compare by instant",
    "RFC 9110 13.1.1-13.1.5 / 14: weak comparison for If-None-Match, '*' admits any current representation, If-None-Match takes precedence over If-Modified-Since",
]
ASSUMPTIONS = [
    "If-None-Match and If-Match are not sent together (the property's domain)",
    "Range.ranges holds int starts (Range.__init__ rejects None, checked by R11.7) and callers pass an int or None length",
    "parse_date returns aware datetimes (or None) with whole seconds",
]

SAN = "werkzeug.sansio.http.is_resource_modified"
WRAP = "werkzeug.http.is_resource_modified"
VALIDATOR_PARAMS = ["http_range", "http_if_range", "http_if_modified_since", "http_if_none_match", "http_if_match"]
PASS_PARAMS = ["etag", "data", "last_modified", "ignore_if_range"]


# ---------------------------------------------------------------------
# ETags predicates as truth tables over (weak member, strong member, star)


class ETagsModel:
    def __init__(self, ctx: Ctx):
        self.ctx = ctx
        self.repo = ctx.repo
        self.cls: ClassInfo = H.class_of(self.repo, "werkzeug.datastructures.etag.ETags")
        init = self.cls.methods.get("__init__")
        if init is None:
            raise AnchorMissing("ETags.__init__ missing")
        self.init = init
        for p in ("strong_etags", "weak_etags", "star_tag"):
            if p not in init.params:
                raise AnchorMissing(f"ETags.__init__ has no parameter {p}")
        # attribute -> constructor parameter(s) flowing into it
        self.attr_role: dict[str, str] = {}
        roles: dict[str, set[str]] = {}
        for s in walk_no_nested(init.node):
            if isinstance(s, ast.Assign) and len(s.targets) == 1 and astq.is_self_attr(s.targets[0]):
                ps = astq.names_in(s.value) & {"strong_etags", "weak_etags", "star_tag"}
                roles.setdefault(s.targets[0].attr, set()).update(ps)
        for a, ps in roles.items():
            if len(ps) == 1:
                self.attr_role[a] = {"strong_etags": "s", "weak_etags": "w", "star_tag": "x"}[next(iter(ps))]
        if sorted(self.attr_role.values()) != ["s", "w", "x"]:
            raise AnalysisError(f"ETags.__init__: cannot attribute the stored fields to strong/weak/star: {roles}")
        self._paths: dict[str, list[H.BoolPath]] = {}

    def _atom(self, m: FuncInfo, atom: ast.AST):
        """-> ("w"|"s"|"x") or ("call", method name)"""
        tag = [p for p in m.params if p != "self"]
        if astq.is_self_attr(atom) and atom.attr in self.attr_role:
            return self.attr_role[atom.attr]
        p = astq.cmp_parts(atom)
        if p and isinstance(p[1], ast.In) and astq.is_self_attr(p[2]) and p[2].attr in self.attr_role and tag and astq.is_name(p[0], tag[0]):
            return self.attr_role[p[2].attr]
        if isinstance(atom, ast.Call) and isinstance(atom.func, ast.Attribute) and astq.is_name(atom.func.value, "self") and len(atom.args) == 1 and not atom.keywords and tag and astq.is_name(atom.args[0], tag[0]):
            return ("call", atom.func.attr)
        raise AnalysisError(f"ETags.{m.name}: cannot interpret condition `{norm(atom)}`")

    def value(self, name: str, w: bool, s: bool, x: bool, depth: int = 0) -> bool:
        if depth > 6:
            raise AnalysisError(f"ETags.{name}: recursion in predicate")
        o, m = self.repo.lookup(self.cls, name)
        if not isinstance(m, FuncInfo):
            raise AnalysisError(f"ETags.{name} is not a method of the package")
        self.ctx.saw(m)
        if name not in self._paths:
            self._paths[name] = H.bool_paths(m.node, f"ETags.{name}")
        env = {"w": w, "s": s, "x": x}
        for bp in self._paths[name]:
            ok = True
            for atom, label in bp.literals:
                a = self._atom(m, atom)
                v = env[a] if isinstance(a, str) else self.value(a[1], w, s, x, depth + 1)
                if v != (label == "T"):
                    ok = False
                    break
            if ok:
                if bp.result not in (True, False):
                    raise AnalysisError(f"ETags.{name}: a path does not return a truth value")
                return bp.result
        raise AnalysisError(f"ETags.{name}: no path for w={w} s={s} x={x}")

    def table(self, name: str) -> dict[tuple[bool, bool, bool], bool]:
        return {k: self.value(name, *k) for k in itertools.product((False, True), repeat=3)}


def _table_text(tb: dict[tuple[bool, bool, bool], bool]) -> str:
    on = [k for k, v in tb.items() if v]
    if not on:
        return "never"
    names = ("weak", "strong", "star")
    return " | ".join("&".join(n if b else "!" + n for n, b in zip(names, k)) for k in on)


# requirement per validator: list of (construct suffix, description, predicate over the truth table)
def _req(role: str):
    W, S, X = 0, 1, 2

    def all_with(tb, idx):
        return all(v for k, v in tb.items() if k[idx])

    reqs = [
        ("no match is no match", "false when the tag is in neither list and there is no '*'", lambda tb: not tb[(False, False, False)]),
        ("strong match", "true whenever the tag is among the strong tags", lambda tb: all_with(tb, S)),
    ]
    if role == "INM":
        reqs.append(("weak match", "true whenever the tag is among the weak tags (weak comparison)", lambda tb: all_with(tb, W)))
        reqs.append(("star", "true whenever the header is '*'", lambda tb: all_with(tb, X)))
    if role == "IM":
        reqs.append(("star", "true whenever the header is '*' ('*' admits any current ETag)", lambda tb: all_with(tb, X)))
    return reqs


def _only_param_def(A: FA, name_node: ast.Name, pname: str) -> bool:
    if name_node.id != pname:
        return False
    ds = A.defs(name_node)
    return len(ds) == 1 and next(iter(ds)).kind == "param"


def _verdict(A: FA) -> tuple[str, int]:
    rets = astq.returns_of(A.fi.node)
    got = set()
    for r in rets:
        if r.value is None:
            raise AnalysisError(f"{A.fi.fq}: bare return")
        e, n = H.strip_not(r.value)
        if not isinstance(e, ast.Name):
            raise AnalysisError(f"{A.fi.fq}: return value `{norm(r.value)}` is not a (negated) verdict variable")
        got.add((e.id, n % 2))
    if len(got) != 1:
        raise AnalysisError(f"{A.fi.fq}: returns disagree on the verdict variable: {sorted(got)}")
    return next(iter(got))


def _polarity_to_stmt(call: ast.AST) -> tuple[ast.stmt | None, int, bool]:
    """(enclosing statement, number of `not` between, only not/and/or in between)"""
    n = 0
    pure = True
    cur = call
    p = astq.parent(cur)
    while p is not None and not isinstance(p, ast.stmt):
        if isinstance(p, ast.UnaryOp) and isinstance(p.op, ast.Not):
            n += 1
        elif isinstance(p, ast.BoolOp):
            pass
        else:
            pure = False
        cur, p = p, astq.parent(p)
    return p, n, pure


def rule_1(ctx: Ctx, A: FA, V: str, p_r: int, model: ETagsModel) -> dict[str, list[ast.stmt]]:
    """returns role -> verdict assignment statements (used by R11.2)."""
    repo = ctx.repo
    R = "R11.1"
    san = A.fi
    # ---- (a) the WSGI wrapper hands each header to its own parameter
    wrap = repo.func(WRAP)
    WA = FA(repo, wrap)
    cs = WA.calls_to(SAN)
    if len(cs) != 1:
        raise AnalysisError(f"{wrap.fq}: expected one call of the sans-io is_resource_modified, found {len(cs)}")
    b = H.bind(cs[0], san, bound=False)
    env_name = wrap.params[0]
    n = 0
    for p in VALIDATOR_PARAMS:
        n += 1
        a = b.get(p)
        hk = H.header_get_key(a) if a is not None else None
        ok = hk is not None and hk[0] == env_name and hk[1] == p.upper()
        ctx.ob(R, f"http.is_resource_modified passes environ[{p.upper()!r}] as {p}", ok, f"argument bound to `{p}`: {norm(a) if a is not None else 'absent (parameter default)'}", wrap, a or cs[0], f"wrapper wires {p}")
    for p in PASS_PARAMS:
        n += 1
        a = b.get(p)
        ok = isinstance(a, ast.Name) and a.id in wrap.params and _only_param_def(WA, a, p)
        ctx.ob(R, f"http.is_resource_modified passes its own `{p}` on", ok, f"argument bound to `{p}`: {norm(a) if a is not None else 'absent (parameter default)'}", wrap, a or cs[0], f"wrapper wires {p}")
    ctx.floor(R, "wrapper arguments", n, 9)

    # ---- (b) comparison per validator
    sites: dict[str, list[ast.Call]] = {"INM": [], "IM": [], "IFR": []}
    for c in A.calls_to("werkzeug.http.parse_etags"):
        if len(c.args) != 1:
            raise AnalysisError(f"{san.fq}: `{norm(c)}` is not a one-argument parse_etags call")
        x = c.args[0]
        role = None
        if isinstance(x, ast.Name) and _only_param_def(A, x, "http_if_none_match"):
            role = "INM"
        elif isinstance(x, ast.Name) and _only_param_def(A, x, "http_if_match"):
            role = "IM"
        elif isinstance(x, ast.Attribute) and x.attr == "etag" and isinstance(x.value, ast.Name):
            ds = A.defs(x.value)
            vals = [d.value for d in ds if d.value is not None and not astq.is_none(d.value)]
            if vals and all(isinstance(v, ast.Call) and A.resolve(v.func) == "werkzeug.http.parse_if_range_header" and len(v.args) == 1 and isinstance(v.args[0], ast.Name) and _only_param_def(A, v.args[0], "http_if_range") for v in vals):
                role = "IFR"
        if role is None:
            raise AnalysisError(f"{san.fq}: cannot tell which validator `{norm(c)}` parses")
        sites[role].append(c)
    for role, nm in (("INM", "If-None-Match"), ("IM", "If-Match"), ("IFR", "If-Range tag")):
        if not sites[role]:
            raise AnalysisError(f"{san.fq}: no parse_etags call for {nm}")
    ctx.floor(R, "parse_etags sites in is_resource_modified", sum(len(v) for v in sites.values()), 3)

    verdicts: dict[str, list[ast.stmt]] = {"INM": [], "IM": [], "IFR": []}
    names = {"INM": "If-None-Match", "IM": "If-Match", "IFR": "If-Range tag"}
    want_odd = {"INM": 1, "IM": 0, "IFR": 1}
    ncmp = 0
    for role, cl in sites.items():
        for c in cl:
            cmps: list[ast.Call] = []
            par = astq.parent(c)
            if isinstance(par, ast.Attribute) and isinstance(astq.parent(par), ast.Call) and astq.parent(par).func is par:
                cmps.append(astq.parent(par))
            else:
                st = astq.stmt_of(san, c)
                if isinstance(st, (ast.Assign, ast.AnnAssign)) and st.value is c:
                    tg = st.targets[0] if isinstance(st, ast.Assign) else st.target
                    if isinstance(tg, ast.Name):
                        for mc in astq.calls(san.node, nested=False):
                            f = mc.func
                            if isinstance(f, ast.Attribute) and astq.is_name(f.value, tg.id):
                                ds = A.defs(f.value)
                                if len(ds) == 1 and next(iter(ds)).stmt is st:
                                    cmps.append(mc)
            if not cmps:
                ctx.ob(R, f"{names[role]}: parsed tags are compared with the response ETag", False, f"`{norm(c)}` is never asked about the ETag", san, c, f"{role} compared")
                continue
            for mc in cmps:
                ncmp += 1
                meth = mc.func.attr  # type: ignore[attr-defined]
                tb = model.table(meth)
                for suffix, desc, pred in _req(role):
                    ctx.ob(R, f"{names[role]} comparison ETags.{meth}: {desc}", pred(tb), f"ETags.{meth} is true exactly for: {_table_text(tb)}", san, mc, f"{role} comparison {suffix}")
                # argument: the unquoted response ETag
                ok_arg = False
                fact = "no single argument"
                if len(mc.args) == 1 and isinstance(mc.args[0], ast.Name):
                    ds = A.defs(mc.args[0])
                    ok_arg = bool(ds)
                    for d in ds:
                        v = d.value
                        good = d.kind == "unpack" and d.index == 0 and isinstance(v, ast.Call) and A.resolve(v.func) == "werkzeug.http.unquote_etag" and len(v.args) == 1 and isinstance(v.args[0], ast.Name)
                        if good:
                            src = A.rd.reaching(d.node, v.args[0].id)  # type: ignore[arg-type,union-attr]
                            good = bool(src) and all(s.kind == "param" and s.name == "etag" or (s.kind == "assign" and isinstance(s.value, ast.Call) and A.resolve(s.value.func) == "werkzeug.http.generate_etag") for s in src)
                        ok_arg = ok_arg and good
                    fact = f"`{mc.args[0].id}` is bound by: {sorted(norm(d.stmt) if d.stmt is not None else d.kind for d in ds)}"
                ctx.ob(R, f"{names[role]} comparison receives the unquoted response ETag", ok_arg, fact, san, mc, f"{role} comparison argument")
                # polarity into the verdict
                st, nnot, pure = _polarity_to_stmt(mc)
                is_v = isinstance(st, ast.Assign) and len(st.targets) == 1 and astq.is_name(st.targets[0], V) or isinstance(st, ast.AugAssign) and astq.is_name(st.target, V)
                if not is_v or not pure:
                    raise AnalysisError(f"{san.fq}: result of `{norm(mc)}` does not enter the verdict `{V}` through not/and/or only")
                verdicts[role].append(st)
                odd = (nnot + p_r) % 2
                ctx.ob(R, f"{names[role]}: a match means {'not modified' if want_odd[role] else 'precondition holds (modified / proceed)'}", odd == want_odd[role], f"`{norm(st)}` with `return {'not ' if p_r else ''}{V}`: result is {'the negation of' if odd else 'equal to'} the match", san, st, f"{role} polarity")
    ctx.floor(R, "validator comparisons", ncmp, 3)

    # ---- (c) parse_etags files weak / strong tags under the right constructor parameter
    pe = repo.func("werkzeug.http.parse_etags")
    PA = FA(repo, pe)
    ctors = [c for c in astq.calls(pe.node, nested=False) if (PA.resolve(c.func) or "") == model.cls.fq]
    if not ctors:
        raise AnalysisError("parse_etags: no ETags construction found")
    flag = _weak_flag(ctx, PA)
    nlist = 0
    for c in ctors:
        bb = H.bind(c, model.init, bound=True)
        for pname, lbl, what in (("weak_etags", "T", "weak"), ("strong_etags", "F", "strong")):
            a = bb.get(pname)
            if a is None:
                continue
            if not isinstance(a, ast.Name):
                raise AnalysisError(f"parse_etags: `{norm(a)}` passed as {pname} is not a local list")
            apps = [m for m in PA.method_calls("append") if astq.is_name(m.func.value, a.id)]  # type: ignore[attr-defined]
            if not apps:
                raise AnalysisError(f"parse_etags: nothing is appended to `{a.id}`")
            for m in apps:
                nlist += 1
                ok = PA.dominated_by(m, flag, lbl)
                ctx.ob(R, f"parse_etags: the list passed as {pname} collects the {what} tags", ok, f"`{norm(m)}` is {'' if ok else 'NOT '}on the {'true' if lbl == 'T' else 'false'} side of the weakness flag `{norm(flag.ast)}`", pe, m, f"parse_etags {pname} append")
        st = bb.get("star_tag")
        if st is not None:
            nlist += 1
            stars = [t_ for t_, l in PA.guards(c) if l == "T" and isinstance(t_.ast, ast.Compare) and any(astq.const_str(x) == "*" for x in [t_.ast.left, *t_.ast.comparators]) and isinstance(t_.ast.ops[0], ast.Eq)]
            ctx.ob(R, "parse_etags: star_tag is set only for a '*' member", bool(stars) and isinstance(st, ast.Constant) and st.value is True, f"`{norm(c)}` guarded by {[norm(t_.ast) for t_ in stars]}", pe, c, "parse_etags star")
    ctx.floor(R, "parse_etags list wiring", nlist, 3)
    return verdicts


def _weak_flag(ctx: Ctx, PA: FA):
    """the condition atom in parse_etags that tells a weak tag: a name unpacked from position 0 of ``<match>.groups()``
    of a regex whose first group is the optional ``W/`` marker."""
    pe = PA.fi
    for t_ in PA.cfg.tests():
        if t_.kind != "test" or not isinstance(t_.ast, ast.Name):
            continue
        ds = PA.defs(t_.ast)
        if not ds or not all(d.kind == "unpack" and d.index == 0 and isinstance(d.value, ast.Call) and isinstance(d.value.func, ast.Attribute) and d.value.func.attr == "groups" for d in ds):
            continue
        d = next(iter(ds))
        m = d.value.func.value  # type: ignore[union-attr]
        if not isinstance(m, ast.Name):
            continue
        mv = [x.value for x in PA.rd.reaching(d.node, m.id)]  # type: ignore[arg-type]
        if len(mv) != 1 or not (isinstance(mv[0], ast.Call) and isinstance(mv[0].func, ast.Attribute) and mv[0].func.attr in ("match", "fullmatch", "search")):
            continue
        rxname = dotted(mv[0].func.value)
        if rxname is None:
            continue
        fq = PA.resolve(mv[0].func.value) or ""
        mn, _, nm = fq.rpartition(".")
        rx = Folder(ctx.repo).name(ctx.repo.module(mn), nm)
        if not isinstance(rx, RegexConst):
            raise AnalysisError(f"parse_etags: {fq} does not fold to a regex")
        cls0 = classes_in(rx)
        marker = bool(cls0) and cls0[0] == {ord("W"), ord("w")} and group_width(rx, 1) == (2, 2) and str(rx.pattern).startswith("(")
        ctx.ob("R11.1", "parse_etags: the weakness flag is group 1 of the tag regex, the W/ marker", marker, f"{nm} = {rx.pattern!r}: first class {sorted(map(chr, cls0[0])) if cls0 else None}, group 1 width {group_width(rx, 1)}", pe, t_.ast, "parse_etags weak flag group")
        return t_
    raise AnalysisError("parse_etags: weakness flag (position 0 of match.groups()) not found")


# ---------------------------------------------------------------------
# R11.2 precedence


def rule_2(ctx: Ctx, A: FA, V: str, verdicts: dict[str, list[ast.stmt]]) -> None:
    R = "R11.2"
    san = A.fi
    names = {"INM": "If-None-Match", "IM": "If-Match", "IFR": "If-Range tag"}
    ifr_vars = {d.name for ds in A.rd.gen.values() for d in ds if isinstance(d.value, ast.Call) and A.resolve(d.value.func) == "werkzeug.http.parse_if_range_header"}
    n = 0
    for role in ("INM", "IFR", "IM"):
        for st in verdicts[role]:
            n += 1
            plain = isinstance(st, ast.Assign) and V not in astq.names_in(st.value)
            ctx.ob(R, f"{names[role]} verdict replaces the earlier verdict (plain assignment, not combined with it)", plain, f"`{norm(st)}`", san, st, f"{role} verdict plain")
    for st in verdicts["INM"]:
        node = A.node(st)
        allowed = (astq.names_in(st.value) - {V}) | {"etag"} | ifr_vars  # type: ignore[attr-defined]
        extra = []
        for t_, l in A.guards(node):
            nm = astq.names_in(t_.ast) if t_.ast is not None else set()
            if not nm <= allowed:
                extra.append(f"{norm(t_.ast)} is {'true' if l == 'T' else 'false'}")
        n += 1
        ctx.ob(R, "If-None-Match decides whenever it is sent and the response has an ETag", not extra, f"`{norm(st)}` additionally requires: {extra}" if extra else f"`{norm(st)}` is conditioned only on the ETag / the parsed header / If-Range", san, st, "INM verdict guards")
        reach = A.cfg.reach(node)
        later = [dn for dn in A.def_nodes_of(V) if dn is not node and dn.id in reach]
        bad = [dn for dn in later if not any(dn.ast is s for s in verdicts["IM"])]
        n += 1
        ctx.ob(R, "after the If-None-Match verdict only If-Match can change the verdict (the date verdict comes first)", not bad, f"assignments of `{V}` reachable after `{norm(st)}`: {[dn.text() for dn in later]}", san, bad[0].ast if bad else st, "INM verdict final")
    ctx.floor(R, "precedence obligations", n, 5)


# ---------------------------------------------------------------------
# R11.3 date comparison


def _from_param(A: FA, e: ast.AST, at, pname: str, depth: int = 0) -> bool:
    if depth > 8:
        return False
    for nm in [x for x in ast.walk(e) if isinstance(x, ast.Name)]:
        for d in A.rd.reaching(at, nm.id):
            if d.kind == "param":
                if d.name == pname:
                    return True
            elif d.value is not None and d.node is not None and d.node is not at:
                if _from_param(A, d.value, d.node, pname, depth + 1):
                    return True
    return False


class Chain:
    def __init__(self, base: str):
        self.base = base
        self.utc = False
        self.replaces: list[tuple[FA, ast.Call]] = []


def _unwind(A: FA, e: ast.AST, at, depth: int = 0) -> list[Chain]:
    """how the value of e (evaluated at CFG node `at`) was produced: one Chain per combination of reaching
    bindings; follows plain assignments, .replace(...) / _dt_as_utc(...) wrappers and one-argument package helpers."""
    if depth > 12:
        raise AnalysisError(f"{A.fi.fq}: value chain too deep at `{norm(e)}`")
    if isinstance(e, ast.Call):
        fq = A.resolve(e.func)
        if fq == "werkzeug._internal._dt_as_utc" and len(e.args) == 1 and not e.keywords:
            out = _unwind(A, e.args[0], at, depth + 1)
            for c in out:
                c.utc = True
            return out
        if isinstance(e.func, ast.Attribute) and e.func.attr == "replace":
            out = _unwind(A, e.func.value, at, depth + 1)
            for c in out:
                c.replaces.append((A, e))
            return out
        fi = A.callee(e)
        if fi is not None and fi.cls is None and len(e.args) == 1 and not e.keywords and len(H.call_params(fi, False)) >= 1:
            CA = FA(A.repo, fi)
            p0 = H.call_params(fi, False)[0]
            outs: list[Chain] = []
            for r in astq.returns_of(fi.node):
                if r.value is None or astq.is_none(r.value):
                    continue
                for ch in _unwind(CA, r.value, CA.node(r), depth + 1):
                    if ch.base == f"parameter {p0}":
                        for inner in _unwind(A, e.args[0], at, depth + 1):
                            inner.utc = inner.utc or ch.utc
                            inner.replaces += ch.replaces
                            outs.append(inner)
                    else:
                        outs.append(ch)
            return outs
        return [Chain(f"call {norm(e.func)}")]
    if isinstance(e, ast.Name):
        out = []
        for d in A.rd.reaching(at, e.id):
            if d.kind == "param":
                out.append(Chain(f"parameter {d.name}"))
            elif d.kind in ("assign", "walrus") and d.index is None and d.value is not None:
                out += _unwind(A, d.value, d.node, depth + 1)
            else:
                out.append(Chain(f"{d.kind} binding"))
        return out
    return [Chain(norm(e))]


def _naive_guarded(X: FA, call: ast.Call) -> bool:
    """`recv.replace(tzinfo=...)` sits on the true side of `recv.tzinfo is None`"""
    recv = norm(call.func.value)  # type: ignore[attr-defined]
    for t_, l in X.guards(call):
        p = astq.cmp_parts(t_.ast) if t_.ast is not None else None
        if p and norm(p[0]) == f"{recv}.tzinfo" and astq.is_none(p[2]) and ((isinstance(p[1], ast.Is) and l == "T") or (isinstance(p[1], ast.IsNot) and l == "F")):
            return True
    return False


def rule_3(ctx: Ctx, A: FA, V: str, p_r: int) -> None:
    R = "R11.3"
    san = A.fi
    repo = ctx.repo
    comps = []
    for t_ in A.cfg.tests():
        p = astq.cmp_parts(t_.ast) if t_.kind == "test" and t_.ast is not None else None
        if p is None or not isinstance(p[1], (ast.Lt, ast.LtE, ast.Gt, ast.GtE, ast.Eq, ast.NotEq)):
            continue
        a, _, b = p
        if isinstance(a, ast.Name) and _from_param(A, a, t_, "last_modified") and not _from_param(A, b, t_, "last_modified"):
            comps.append((t_, a, b))
        elif isinstance(b, ast.Name) and _from_param(A, b, t_, "last_modified") and not _from_param(A, a, t_, "last_modified"):
            comps.append((t_, b, a))
    ctx.floor(R, "date comparisons in is_resource_modified", len(comps), 1)
    for C, lm, other in comps:
        # (1) direction: some edge means exactly lm <= other
        okey = other.id if isinstance(other, ast.Name) else None
        L = None
        if okey is not None:
            for l in ("T", "F"):
                if (lm.id, "<=", okey) in H.order_facts(C.ast, l):
                    L = l
        ctx.ob(R, "Last-Modified is compared as 'not later than' the client's date (equal dates match)", L is not None, f"`{norm(C.ast)}`: {'its ' + ('true' if L == 'T' else 'false') + ' edge means ' + lm.id + ' <= ' + str(okey) if L else 'no edge of this test means ' + lm.id + ' <= ' + norm(other)}", san, C.ast, "date comparison direction")
        # (2) the verdict set from it
        cands = []
        for dn in A.def_nodes_of(V):
            st = dn.ast
            if isinstance(st, ast.Assign) and isinstance(st.value, ast.Constant) and isinstance(st.value.value, bool):
                for l in ("T", "F"):
                    if A.cfg.reachable(dn) and A.cfg.edge_dominates(C, l, dn):
                        cands.append((dn, st, l))
        if not cands:
            raise AnalysisError(f"{san.fq}: no constant verdict assignment depends on `{norm(C.ast)}`")
        for dn, st, l in cands:
            facts = H.order_facts(C.ast, l)
            means_le = okey is not None and H.has_less(facts, lm.id, okey, strict=False)
            unmod = st.value.value == bool(p_r)
            ctx.ob(R, "the date verdict is 'not modified' exactly on the not-later side", means_le == unmod, f"`{norm(st)}` on the {'true' if l == 'T' else 'false'} side of `{norm(C.ast)}` with `return {'not ' if p_r else ''}{V}`", san, st, "date verdict side")
            extra = []
            for t2, l2 in A.guards(dn):
                if t2 is C:
                    continue
                nm = astq.names_in(t2.ast) if t2.ast is not None else set()
                if not nm <= {lm.id, okey}:
                    extra.append(f"{norm(t2.ast)} is {'true' if l2 == 'T' else 'false'}")
            ctx.ob(R, "the date verdict depends only on the two dates", not extra, f"additionally requires: {extra}" if extra else f"guards of `{norm(st)}` mention only {lm.id} / {okey}", san, st, "date verdict guards")
        # (4) normalisation of every non-None value that reaches the comparison
        none_edges = []
        for t2 in A.cfg.tests():
            if t2.kind != "test" or t2.ast is None:
                continue
            for l2 in ("T", "F"):
                if H.none_proving(t2.ast, l2) == lm.id:
                    none_edges.append((t2, l2))
        defnodes = A.def_nodes_of(lm.id)
        tot = {"utc": [], "sec": [], "fields": []}
        ndefs = 0
        for d in A.rd.reaching(C, lm.id):
            start = d.node if d.node is not None else A.cfg.entry
            others = [x for x in defnodes if x is not d.node]
            r = A.cfg.reach(start, avoid_nodes=others, avoid_edges=none_edges)
            if C.id not in r:
                continue  # this binding only arrives as None
            ndefs += 1
            if d.kind == "param":
                chains = [Chain(f"parameter {d.name}")]
            elif d.kind in ("assign", "walrus") and d.index is None and d.value is not None:
                chains = _unwind(A, d.value, d.node)
            else:
                chains = [Chain(f"{d.kind} binding")]
            for ch in chains:
                desc = f"{norm(d.stmt) if d.stmt is not None else d.kind} <- {ch.base}"
                if not ch.utc:
                    tot["utc"].append(desc)
                if not any(any(k.arg == "microsecond" and isinstance(k.value, ast.Constant) and k.value.value == 0 for k in rc.keywords) for _, rc in ch.replaces):
                    tot["sec"].append(desc)
                for RA, rc in ch.replaces:
                    kws = sorted(k.arg or "**" for k in rc.keywords) + ["<positional>"] * len(rc.args)
                    if kws == ["tzinfo"] and _naive_guarded(RA, rc):
                        continue  # marking a naive value, as _dt_as_utc / parse_date do
                    if set(kws) - {"microsecond"} and f"`{norm(rc)}` sets {kws}" not in tot["fields"]:
                        tot["fields"].append(f"`{norm(rc)}` sets {kws}")
        if not ndefs:
            raise AnalysisError(f"{san.fq}: no binding of `{lm.id}` reaches `{norm(C.ast)}` as a value")
        ctx.ob(R, "every Last-Modified value reaching the comparison went through _dt_as_utc (naive: marked UTC, aware: converted)", not tot["utc"], f"not normalised: {tot['utc']}" if tot["utc"] else f"{ndefs} non-None binding(s) of `{lm.id}`, all through _dt_as_utc", san, C.ast, "date comparison utc")
        ctx.ob(R, "every Last-Modified value reaching the comparison had its microseconds cleared", not tot["sec"], f"no replace(microsecond=0) on: {tot['sec']}" if tot["sec"] else "replace(microsecond=0) on every chain", san, C.ast, "date comparison whole seconds")
        ctx.ob(R, "replace() on the way to the comparison changes nothing but the microseconds (no relabelled tzinfo, no coarser resolution)", not tot["fields"], "; ".join(tot["fields"]) if tot["fields"] else "only microsecond is replaced", san, C.ast, "date comparison replace fields")

    # (5) _dt_as_utc itself: relabel only naive values, convert the others
    fu = repo.func("werkzeug._internal._dt_as_utc")
    U = FA(repo, fu)
    dt = [p for p in fu.params][0]

    def is_utc(e: ast.AST) -> bool:
        return (U.resolve(e) or "") == "datetime.timezone.utc"

    def tz_atom(t_) -> str | None:
        """'naive' / 'utc' : what the TRUE edge of the atom says about dt.tzinfo (prefixed with ! for the false edge meaning it)"""
        p = astq.cmp_parts(t_.ast) if t_.ast is not None else None
        if p is None:
            return None
        a, op, b = p
        if norm(b) == f"{dt}.tzinfo":
            a, b = b, a
        if norm(a) != f"{dt}.tzinfo":
            return None
        if astq.is_none(b):
            return "naive" if isinstance(op, ast.Is) else "!naive" if isinstance(op, ast.IsNot) else None
        if is_utc(b):
            return "utc" if isinstance(op, (ast.Eq, ast.Is)) else "!utc" if isinstance(op, (ast.NotEq, ast.IsNot)) else None
        return None

    nret = {"relabel": 0, "convert": 0}
    for r in astq.returns_of(fu.node):
        rn = U.node(r)
        known = set()
        for t_, l in U.guards(rn):
            k = tz_atom(t_)
            if k is not None:
                neg = k.startswith("!")
                k = k.lstrip("!")
                holds = (l == "T") != neg
                known.add(k if holds else "not-" + k)
            if t_.ast is not None and H.none_proving(t_.ast, l) == dt:
                known.add("none")
        v = r.value
        kind = "other"
        if isinstance(v, ast.Name) and v.id == dt:
            kind = "unchanged"
            ok = "none" in known or "utc" in known
            why = "returned unchanged only when it is None or already UTC"
        elif isinstance(v, ast.Call) and isinstance(v.func, ast.Attribute) and astq.is_name(v.func.value, dt) and v.func.attr == "replace":
            kind = "relabel"
            ok = "naive" in known and not v.args and [k.arg for k in v.keywords] == ["tzinfo"] and is_utc(v.keywords[0].value)
            why = "tzinfo is attached (replace) only to a naive value"
        elif isinstance(v, ast.Call) and isinstance(v.func, ast.Attribute) and astq.is_name(v.func.value, dt) and v.func.attr == "astimezone":
            kind = "convert"
            ok = "not-naive" in known and len(v.args) == 1 and is_utc(v.args[0])
            why = "an aware value is converted with astimezone(timezone.utc)"
        else:
            ok = False
            why = "unrecognised result"
        if kind in nret:
            nret[kind] += 1
        ctx.ob(R, f"_dt_as_utc: {why}", ok, f"`{norm(r)}` under {sorted(known)}", fu, r, f"_dt_as_utc return {kind} {norm(v) if v is not None else ''}")
    ctx.floor(R, "_dt_as_utc returns", len(astq.returns_of(fu.node)), 3)
    ctx.ob(R, "_dt_as_utc has a branch that converts aware values (astimezone) and one that marks naive values", nret["convert"] >= 1 and nret["relabel"] >= 1, f"astimezone returns: {nret['convert']}, replace(tzinfo=) returns: {nret['relabel']}", fu, fu.node, "_dt_as_utc branches")


# ---------------------------------------------------------------------
# R11.4 gates

RESP = "werkzeug.wrappers.response.Response"


def _method(ctx: Ctx, cls: ClassInfo, name: str) -> FuncInfo:
    o, m = ctx.repo.lookup(cls, name)
    if not isinstance(m, FuncInfo):
        raise AnchorMissing(f"{cls.name}.{name} not found")
    return m


def _irm_args(ctx: Ctx, X: FA, call: ast.Call, want_ignore: bool) -> tuple[bool, str]:
    """the is_resource_modified call compares against the response's own validators"""
    wrap = ctx.repo.func(WRAP)
    b = H.bind(call, wrap, bound=False)
    parts = []
    ok = True
    for p, hdr in (("etag", "etag"), ("last_modified", "last-modified")):
        hk = H.header_get_key(b[p]) if p in b else None
        good = hk is not None and hk[0] == "self.headers" and hk[1].lower() == hdr
        ok = ok and good
        parts.append(f"{p}={norm(b[p]) if p in b else 'absent'}")
    d = b.get("data")
    ok = ok and (d is None or astq.is_none(d))
    ig = b.get("ignore_if_range", H.param_default(wrap, "ignore_if_range"))
    good = isinstance(ig, ast.Constant) and ig.value is want_ignore
    ok = ok and good
    parts.append(f"ignore_if_range={norm(ig) if ig is not None else None}")
    return ok, ", ".join(parts)


def _status_stores(fn: ast.AST) -> list[tuple[ast.Assign, int]]:
    out = []
    for s in walk_no_nested(fn):
        if isinstance(s, ast.Assign) and len(s.targets) == 1 and (astq.is_self_attr(s.targets[0], "status_code") or astq.is_self_attr(s.targets[0], "status")):
            v = s.value
            if isinstance(v, ast.Constant) and isinstance(v.value, int):
                out.append((s, v.value))
            elif isinstance(v, ast.Constant) and isinstance(v.value, str) and v.value[:3].isdigit():
                out.append((s, int(v.value[:3])))
    out.sort(key=lambda p: p[0].lineno)
    return out


def rule_4(ctx: Ctx) -> None:
    R = "R11.4"
    repo = ctx.repo
    resp = repo.cls(RESP)
    mc = _method(ctx, resp, "make_conditional")
    M = FA(repo, mc)
    folder = Folder(repo)
    gate = None
    for t_ in M.cfg.tests():
        p = astq.cmp_parts(t_.ast) if t_.kind == "test" and t_.ast is not None else None
        if p and isinstance(p[1], (ast.In, ast.NotIn)):
            hk = H.header_get_key(p[0])
            if hk and hk[1] == "REQUEST_METHOD":
                gate = (t_, "T" if isinstance(p[1], ast.In) else "F", hk[0], p[2])
    if gate is None:
        raise AnalysisError(f"{mc.fq}: no membership test on environ['REQUEST_METHOD']")
    G, GL, env_name, coll = gate
    try:
        methods = set(folder.expr(mc.module, coll))
    except AnalysisError as e:
        raise AnalysisError(f"{mc.fq}: cannot fold the method collection `{norm(coll)}`: {e}")
    ctx.ob(R, "conditional processing applies to exactly GET and HEAD", methods == {"GET", "HEAD"}, f"`{norm(G.ast)}`: {sorted(methods)}", mc, G.ast, "method set")

    prc = [c for c in M.method_calls("_process_range_request") if astq.is_name(c.func.value, "self")]  # type: ignore[attr-defined]
    if not prc:
        raise AnalysisError(f"{mc.fq}: no call of self._process_range_request")
    for c in prc:
        ctx.ob(R, "range processing only for GET/HEAD", M.dominated_by(c, G, GL), f"`{norm(c)[:60]}` {'is' if M.dominated_by(c, G, GL) else 'is NOT'} dominated by `{norm(G.ast)}`", mc, c, "range call gated")
        pr = _method(ctx, resp, "_process_range_request")
        b = H.bind(c, pr, bound=True)
        cl = b.get("complete_length")
        ok = isinstance(cl, ast.Name) and cl.id == "complete_length" and _only_param_def(M, cl, "complete_length")
        ctx.ob(R, "make_conditional hands its complete_length to range processing", ok, f"complete_length={norm(cl) if cl is not None else 'absent'}", mc, c, "range call complete_length")
        e = b.get("environ")
        ctx.ob(R, "range processing reads the same environ as the method test", e is not None and norm(e) == env_name, f"environ={norm(e) if e is not None else 'absent'}, method test reads `{env_name}`", mc, c, "range call environ")
    is206 = set()
    for d in (d for ds in M.rd.gen.values() for d in ds):
        if d.value is not None and any(d.value is c for c in prc):
            is206.add(d.name)

    irm_atoms = [t_ for t_ in M.cfg.tests() if t_.kind == "test" and isinstance(t_.ast, ast.Call) and M.resolve(t_.ast.func) == WRAP]
    if not irm_atoms:
        raise AnalysisError(f"{mc.fq}: no test on is_resource_modified(...)")
    for t_ in irm_atoms:
        ok, fact = _irm_args(ctx, M, t_.ast, True)
        b = H.bind(t_.ast, repo.func(WRAP), bound=False)
        ok = ok and "environ" in b and norm(b["environ"]) == env_name
        ctx.ob(R, "304/412 are decided against the response's own ETag and Last-Modified, If-Range not considered", ok, fact, mc, t_.ast, "make_conditional is_resource_modified arguments")

    def im_atom(t_) -> bool:
        e = t_.ast
        if isinstance(e, ast.Name):
            e = M.single_value(e)
        if not (isinstance(e, ast.Call) and M.resolve(e.func) == "werkzeug.http.parse_etags" and len(e.args) == 1):
            return False
        hk = H.header_get_key(e.args[0])
        return hk is not None and hk[0] == env_name and hk[1] == "HTTP_IF_MATCH"

    im_atoms = [t_ for t_ in M.cfg.tests() if t_.kind == "test" and t_.ast is not None and im_atom(t_)]
    stores = [(s, code) for s, code in _status_stores(mc.node) if code in (304, 412)]
    if not any(code == 304 for _, code in stores):
        raise AnalysisError(f"{mc.fq}: no assignment of status 304")
    ctx.floor(R, "304/412 assignments in make_conditional", len(stores), 2)
    for s, code in stores:
        sn = M.node(s)
        gs = M.guards(sn)
        ctx.ob(R, f"status {code} only for GET/HEAD", (G, GL) in gs, f"`{norm(s)}` {'is' if (G, GL) in gs else 'is NOT'} dominated by `{norm(G.ast)}`", mc, s, f"status {code} gated")
        nm = [t_ for t_ in irm_atoms if (t_, "F") in gs]
        ctx.ob(R, f"status {code} only when is_resource_modified says not modified", bool(nm), f"`{norm(s)}` guards: {[norm(t_.ast)[:40] + ('' if l == 'T' else ' is false') for t_, l in gs]}", mc, s, f"status {code} needs not-modified")
        want = "T" if code == 412 else "F"
        hit = [t_ for t_ in im_atoms if (t_, want) in gs]
        ctx.ob(R, "status 412 only under a non-empty If-Match" if code == 412 else "status 304 only without If-Match (a failed If-Match is 412)", bool(hit), f"`{norm(s)}` {'is' if hit else 'is NOT'} on the {'true' if want == 'T' else 'false'} side of a parse_etags({env_name}.get('HTTP_IF_MATCH')) test", mc, s, f"status {code} If-Match side")
        if code == 304:
            allowed = {id(G)} | {id(t_) for t_ in irm_atoms} | {id(t_) for t_ in im_atoms}
            extra = [f"{norm(t_.ast)} is {'true' if l == 'T' else 'false'}" for t_, l in gs if id(t_) not in allowed and not (isinstance(t_.ast, ast.Name) and t_.ast.id in is206)]
            ctx.ob(R, "304 follows whenever the validators match for GET/HEAD (no further condition)", not extra, f"additionally requires: {extra}" if extra else "guards: method test, not-modified, no If-Match (and not already 206)", mc, s, "status 304 guards")

    # ---- the 206 path inside _process_range_request
    pr = _method(ctx, resp, "_process_range_request")
    P = FA(repo, pr)
    proc = [t_ for t_ in P.cfg.tests() if t_.kind == "test" and isinstance(t_.ast, ast.Call) and isinstance(t_.ast.func, ast.Attribute) and astq.is_name(t_.ast.func.value, "self") and t_.ast.func.attr == "_is_range_request_processable"]
    marks: list[tuple[str, ast.AST]] = [("status 206", s) for s, code in _status_stores(pr.node) if code == 206]
    marks += [("range wrap", c) for c in P.method_calls("_wrap_range_response")]
    marks += [("Range parse", c) for c in P.calls_to("werkzeug.http.parse_range_header")]
    if len(marks) < 3:
        raise AnalysisError(f"{pr.fq}: expected a 206 assignment, a _wrap_range_response call and a parse_range_header call")
    for what, a in marks:
        ok = any(P.dominated_by(a, t_, "T") for t_ in proc)
        ctx.ob(R, f"{what} only when the range request is processable (Range present, If-Range satisfied)", ok, f"`{norm(a)[:70]}` {'is' if ok else 'is NOT'} dominated by a true `self._is_range_request_processable(...)` test ({len(proc)} such test(s) in the function)", pr, a, f"{what} processable")
    ctx.floor(R, "206-path effects", len(marks), 3)

    q = _method(ctx, resp, "_is_range_request_processable")
    Q = FA(repo, q)
    env_q = [p for p in q.params if p != "self"][0]
    paths = [bp for bp in H.bool_paths(q.node, q.fq)]
    if any(bp.result not in (True, False) for bp in paths):
        raise AnalysisError(f"{q.fq}: a path does not return a truth value")
    tp = [bp for bp in paths if bp.result is True]
    if not tp:
        raise AnalysisError(f"{q.fq}: never returns True")

    def key_lit(atom: ast.AST, label: str, key: str) -> str | None:
        """'present' / 'absent' when the edge tells whether environ has key"""
        p = astq.cmp_parts(atom)
        if p and isinstance(p[1], (ast.In, ast.NotIn)) and astq.const_str(p[0]) == key and astq.is_name(p[2], env_q):
            pres = isinstance(p[1], ast.In) == (label == "T")
            return "present" if pres else "absent"
        return None

    range_ok = all(any(key_lit(a, l, "HTTP_RANGE") == "present" for a, l in bp.literals) for bp in tp)
    ctx.ob(R, "a request without Range is never range-processed", range_ok, f"{len(tp)} true path(s) of _is_range_request_processable, each {'requires' if range_ok else 'does NOT require'} 'HTTP_RANGE' in {env_q}", q, q.node, "processable needs Range")
    irm_ok = True
    args_ok = True
    facts = []
    for bp in tp:
        absent = any(key_lit(a, l, "HTTP_IF_RANGE") == "absent" for a, l in bp.literals)
        unmod = [a for a, l in bp.literals if l == "F" and isinstance(a, ast.Call) and Q.resolve(a.func) == WRAP]
        irm_ok = irm_ok and (absent or bool(unmod))
        for a in unmod:
            ok, fact = _irm_args(ctx, Q, a, False)
            b = H.bind(a, repo.func(WRAP), bound=False)
            ok = ok and "environ" in b and astq.is_name(b["environ"], env_q)
            args_ok = args_ok and ok
            facts.append(fact)
    ctx.ob(R, "a Range with a failed If-Range is ignored (processable only if If-Range is absent or the resource is unmodified)", irm_ok, f"{len(tp)} true path(s)", q, q.node, "processable needs If-Range")
    if not facts:
        raise AnalysisError(f"{q.fq}: no is_resource_modified call on a true path")
    ctx.ob(R, "If-Range is evaluated against the response's own ETag / Last-Modified with ignore_if_range=False", args_ok, "; ".join(sorted(set(facts))), q, q.node, "processable is_resource_modified arguments")


# ---------------------------------------------------------------------
# R11.5 one source for the 206, R11.6 416 on every failure

RNS = "werkzeug.exceptions.RequestedRangeNotSatisfiable"


class RangeSlots:
    """the three fallible results in _process_range_request and the variables holding them"""

    def __init__(self, ctx: Ctx, P: FA):
        pr = P.fi
        self.P = P

        def one(calls: list[ast.Call], what: str) -> tuple[ast.Call, ast.Assign, str]:
            if len(calls) != 1:
                raise AnalysisError(f"{pr.fq}: expected exactly one {what} call, found {len(calls)}")
            st = astq.stmt_of(pr, calls[0])
            if not (isinstance(st, ast.Assign) and st.value is calls[0] and len(st.targets) == 1 and isinstance(st.targets[0], ast.Name)):
                raise AnalysisError(f"{pr.fq}: result of {what} is not bound to a local name")
            return calls[0], st, st.targets[0].id

        self.parse, self.parse_st, self.PR = one(P.calls_to("werkzeug.http.parse_range_header"), "parse_range_header")
        self.rfl, self.rfl_st, self.RT = one(P.method_calls("range_for_length"), "range_for_length")
        self.tcr, self.tcr_st, self.CR = one(P.method_calls("to_content_range_header"), "to_content_range_header")

    def is_var(self, e: ast.AST, var: str, st: ast.stmt) -> bool:
        """e is a use of `var` that sees exactly the binding made by st"""
        if not astq.is_name(e, var):
            return False
        ds = self.P.defs(e)  # type: ignore[arg-type]
        return len(ds) == 1 and next(iter(ds)).stmt is st


def _header_store(fn: ast.AST, name: str) -> list[ast.Assign]:
    out = []
    for s in walk_no_nested(fn):
        if isinstance(s, ast.Assign) and len(s.targets) == 1 and isinstance(s.targets[0], ast.Subscript) and astq.is_self_attr(s.targets[0].value, "headers"):
            k = astq.const_str(s.targets[0].slice)
            if k is not None and k.lower() == name:
                out.append(s)
    return out


def rule_5(ctx: Ctx, P: FA, S: RangeSlots) -> None:
    R = "R11.5"
    repo = ctx.repo
    pr = P.fi
    resp = repo.cls(RESP)
    env_p = [p for p in pr.params if p != "self"][0]
    hk = H.header_get_key(S.parse.args[0]) if S.parse.args else None
    ctx.ob(R, "the parsed range is the request's Range header", hk == (env_p, "HTTP_RANGE"), f"`{norm(S.parse)}`", pr, S.parse, "parse source")

    def recv_ok(c: ast.Call) -> bool:
        return S.is_var(c.func.value, S.PR, S.parse_st)  # type: ignore[attr-defined]

    def len_ok(c: ast.Call) -> bool:
        return len(c.args) == 1 and not c.keywords and isinstance(c.args[0], ast.Name) and _only_param_def(P, c.args[0], "complete_length")

    both = recv_ok(S.rfl) and recv_ok(S.tcr) and len_ok(S.rfl) and len_ok(S.tcr)
    ctx.ob(R, "byte window and Content-Range come from the same parsed Range and the same complete length", both, f"`{norm(S.rfl)}` / `{norm(S.tcr)}`", pr, S.rfl, "one range one length")

    def is_rt(e: ast.AST, idx: int) -> bool:
        sc = H.subscript_const(e)
        return sc is not None and sc[1] == idx and S.is_var(sc[0], S.RT, S.rfl_st)

    def is_span(e: ast.AST | None) -> bool:
        return isinstance(e, ast.BinOp) and isinstance(e.op, ast.Sub) and is_rt(e.left, 1) and is_rt(e.right, 0)

    def span_def(e: ast.AST):
        """the binding through which e is `range[1] - range[0]` (or True when e is that difference itself)"""
        if is_span(e):
            return True
        if isinstance(e, ast.Name):
            ds = P.defs(e)
            if len(ds) == 1 and is_span(next(iter(ds)).value) and next(iter(ds)).index is None:
                return next(iter(ds))
        return None

    cls_ = _header_store(pr.node, "content-length")
    if len(cls_) != 1:
        raise AnalysisError(f"{pr.fq}: expected one Content-Length store, found {len(cls_)}")
    v = cls_[0].value
    inner = v.args[0] if isinstance(v, ast.Call) and dotted(v.func) == "str" and len(v.args) == 1 else None
    cl_def = span_def(inner) if inner is not None else None
    ctx.ob(R, "Content-Length is str(stop - start) of the range_for_length tuple", cl_def is not None, f"`{norm(cls_[0])}`" + (f" with `{norm(cl_def.stmt)}`" if cl_def not in (None, True) else ""), pr, cls_[0], "content-length source")

    wr = _method(ctx, resp, "_wrap_range_response")
    wcs = [c for c in P.method_calls("_wrap_range_response") if astq.is_name(c.func.value, "self")]  # type: ignore[attr-defined]
    if len(wcs) != 1:
        raise AnalysisError(f"{pr.fq}: expected one self._wrap_range_response call, found {len(wcs)}")
    b = H.bind(wcs[0], wr, bound=True)
    wparams = [p for p in wr.params if p != "self"]
    if len(wparams) != 2:
        raise AnalysisError(f"{wr.fq}: expected (start, length) parameters")
    s_ok = wparams[0] in b and is_rt(b[wparams[0]], 0)
    ld = span_def(b[wparams[1]]) if wparams[1] in b else None
    l_ok = ld is not None and (ld is True or cl_def is True or ld is cl_def)
    ctx.ob(R, "the body window starts at the tuple's start", s_ok, f"{wparams[0]}={norm(b[wparams[0]]) if wparams[0] in b else 'absent'}", pr, wcs[0], "wrap start")
    ctx.ob(R, "the body window length is the Content-Length value", l_ok, f"{wparams[1]}={norm(b[wparams[1]]) if wparams[1] in b else 'absent'}", pr, wcs[0], "wrap length")

    crs = [s for s in walk_no_nested(pr.node) if isinstance(s, ast.Assign) and len(s.targets) == 1 and astq.is_self_attr(s.targets[0], "content_range")] + _header_store(pr.node, "content-range")
    if len(crs) != 1:
        raise AnalysisError(f"{pr.fq}: expected one Content-Range store, found {len(crs)}")
    ctx.ob(R, "Content-Range is the to_content_range_header result", S.is_var(crs[0].value, S.CR, S.tcr_st), f"`{norm(crs[0])}`", pr, crs[0], "content-range source")

    st206 = [s for s, code in _status_stores(pr.node) if code == 206]
    if len(st206) != 1:
        raise AnalysisError(f"{pr.fq}: expected one status 206 store, found {len(st206)}")
    wn = P.node(wcs[0])
    before = P.cfg.node_dominates(P.node(st206[0]), wn)
    ctx.ob(R, "status 206 is set before the body is wrapped (the wrap is conditional on it)", before, f"`{norm(st206[0])}` {'dominates' if before else 'does NOT dominate'} `{norm(wcs[0])}`", pr, wcs[0], "status before wrap")
    effects = [("Content-Length", cls_[0]), ("Content-Range", crs[0]), ("status 206", st206[0]), ("body wrap", wcs[0])]
    trues = [r for r in astq.returns_of(pr.node) if isinstance(r.value, ast.Constant) and r.value.value is True]
    if not trues:
        raise AnalysisError(f"{pr.fq}: no `return True`")
    for r in trues:
        rn = P.node(r)
        missing = [w for w, a in effects if not P.cfg.node_dominates(P.node(a), rn)]
        ctx.ob(R, "a fulfilled range request has set Content-Length, Content-Range, status 206 and wrapped the body", not missing, f"not on every path to `return True`: {missing}" if missing else "all four dominate `return True`", pr, r, "206 effects complete")
    falses = [r for r in astq.returns_of(pr.node) if not (isinstance(r.value, ast.Constant) and r.value.value is True)]
    for r in falses:
        rn = P.node(r)
        touched = [w for w, a in effects if rn.id in P.cfg.reach(P.node(a))]
        ctx.ob(R, "an ignored range request leaves headers, status and body alone", not touched, f"`{norm(r)}` reachable after: {touched}" if touched else f"`{norm(r)}` is not reachable from any 206 effect", pr, r, "no partial 206")

    # _wrap_range_response
    W = FA(repo, wr)
    rws = W.calls_to("werkzeug.wsgi._RangeWrapper")
    if len(rws) != 1:
        raise AnalysisError(f"{wr.fq}: expected one _RangeWrapper construction, found {len(rws)}")
    rwc = H.class_of(repo, "werkzeug.wsgi._RangeWrapper")
    init = rwc.methods.get("__init__")
    if init is None or not {"iterable", "start_byte", "byte_range"} <= set(init.params):
        raise AnchorMissing("_RangeWrapper.__init__(iterable, start_byte, byte_range) not found")
    bb = H.bind(rws[0], init, bound=True)
    ok = ("iterable" in bb and astq.is_self_attr(bb["iterable"], "response") and "start_byte" in bb and isinstance(bb["start_byte"], ast.Name) and _only_param_def(W, bb["start_byte"], wparams[0])
          and "byte_range" in bb and isinstance(bb["byte_range"], ast.Name) and _only_param_def(W, bb["byte_range"], wparams[1]))
    ctx.ob(R, "_RangeWrapper gets (self.response, start -> start_byte, length -> byte_range)", ok, f"`{norm(rws[0])}` binds {{{', '.join(k + ': ' + norm(v) for k, v in bb.items())}}}", wr, rws[0], "wrapper arguments")
    st = astq.stmt_of(wr, rws[0])
    stored = isinstance(st, ast.Assign) and len(st.targets) == 1 and astq.is_self_attr(st.targets[0], "response") and st.value is rws[0]
    gs = W.guards(rws[0])
    g206 = [(t_, l) for t_, l in gs if (p := astq.cmp_parts(t_.ast)) and norm(p[0]) in ("self.status_code",) and isinstance(p[2], ast.Constant) and p[2].value == 206 and ((isinstance(p[1], ast.Eq) and l == "T") or (isinstance(p[1], ast.NotEq) and l == "F"))]
    ctx.ob(R, "the wrapper replaces self.response exactly when the status is 206", stored and len(g206) == 1 and len(gs) == 1, f"`{norm(st)}` under {[norm(t_.ast) + ('' if l == 'T' else ' is false') for t_, l in gs]}", wr, rws[0], "wrap iff 206")

    # Range.to_content_range_header
    rng = H.class_of(repo, "werkzeug.datastructures.range.Range")
    tc = _method(ctx, rng, "to_content_range_header")
    T = FA(repo, tc)
    lp = [p for p in tc.params if p != "self"][0]
    n = 0
    for r in astq.returns_of(tc.node):
        if r.value is None or astq.is_none(r.value):
            continue
        n += 1
        js = r.value
        if not isinstance(js, ast.JoinedStr):
            raise AnalysisError(f"{tc.fq}: `{norm(r)}` is not an f-string")
        consts = [x.value for x in js.values if isinstance(x, ast.Constant)]
        exprs = [x.value for x in js.values if isinstance(x, ast.FormattedValue)]
        shape = consts == [" ", "-", "/"] and len(exprs) == 4 and isinstance(js.values[0], ast.FormattedValue)
        if not shape:
            raise AnalysisError(f"{tc.fq}: `{norm(r)}` is not `<unit> <first>-<last>/<length>`")

        def from_rfl(e: ast.AST) -> bool:
            if not isinstance(e, ast.Name):
                return False
            v = T.single_value(e)
            return isinstance(v, ast.Call) and isinstance(v.func, ast.Attribute) and astq.is_name(v.func.value, "self") and v.func.attr == "range_for_length" and len(v.args) == 1 and isinstance(v.args[0], ast.Name) and _only_param_def(T, v.args[0], lp)

        f0 = H.subscript_const(exprs[1])
        first_ok = f0 is not None and f0[1] == 0 and from_rfl(f0[0])
        e2 = exprs[2]
        l0 = H.subscript_const(e2.left) if isinstance(e2, ast.BinOp) and isinstance(e2.op, ast.Sub) and isinstance(e2.right, ast.Constant) and e2.right.value == 1 else None
        last_ok = l0 is not None and l0[1] == 1 and from_rfl(l0[0])
        tot_ok = isinstance(exprs[3], ast.Name) and _only_param_def(T, exprs[3], lp)
        unit_ok = astq.is_self_attr(exprs[0], "units")
        ctx.ob(R, "Content-Range declares first = start of range_for_length(length)", first_ok, f"`{norm(exprs[1])}`", tc, r, "content-range first")
        ctx.ob(R, "Content-Range declares last = stop - 1 of range_for_length(length)", last_ok, f"`{norm(e2)}`", tc, r, "content-range last")
        ctx.ob(R, "Content-Range declares the complete length and the range's unit", tot_ok and unit_ok, f"`{norm(exprs[0])}` ... `/{norm(exprs[3])}`", tc, r, "content-range total")
    ctx.floor(R, "Content-Range renderings", n, 1)


def _none_tests(X: FA, var: str, is_use) -> list[tuple]:
    """(atom, label on which var is None) for tests of exactly this binding"""
    out = []
    for t_ in X.cfg.tests():
        if t_.kind != "test" or t_.ast is None:
            continue
        for l in ("T", "F"):
            if H.none_proving(t_.ast, l) == var:
                nm = t_.ast if isinstance(t_.ast, ast.Name) else t_.ast.left  # type: ignore[attr-defined]
                if is_use(nm):
                    out.append((t_, l))
    return out


def rule_6(ctx: Ctx, P: FA, S: RangeSlots) -> None:
    R = "R11.6"
    pr = P.fi
    n = 0
    for what, var, st in (("parse_range_header", S.PR, S.parse_st), ("range_for_length", S.RT, S.rfl_st), ("to_content_range_header", S.CR, S.tcr_st)):
        def is_use(e, var=var, st=st):
            return S.is_var(e, var, st)

        nts = _none_tests(P, var, is_use)
        n += 1
        if not nts:
            ctx.ob(R, f"a None from {what} is checked", False, f"`{var}` is never tested for None", pr, st, f"{what} none test")
            continue
        in_tests = {id(x) for t_, _ in nts for x in ast.walk(t_.ast)}
        bad_exit = []
        wrong_raise = []
        for t_, l in nts:
            r = P.cfg.reach(P.cfg.succ(t_, l))
            if P.cfg.exit.id in r:
                bad_exit.append(norm(t_.ast))
            for nd in P.cfg.nodes:
                if nd.id in r and isinstance(nd.ast, ast.Raise):
                    exc = nd.ast.exc.func if isinstance(nd.ast.exc, ast.Call) else nd.ast.exc
                    if exc is None or P.resolve(exc) != RNS:
                        wrong_raise.append(nd.text())
        ctx.ob(R, f"a None from {what} (unparsable / unsatisfiable / multi-range) ends in RequestedRangeNotSatisfiable", not bad_exit and not wrong_raise, (f"normal return reachable after {bad_exit}; " if bad_exit else "") + (f"other raises: {wrong_raise}" if wrong_raise else "") or f"None side of {[norm(t_.ast) for t_, _ in nts]} reaches only `raise RequestedRangeNotSatisfiable(...)`", pr, nts[0][0].ast, f"{what} none is 416")
        uses = [x for x in walk_no_nested(pr.node) if isinstance(x, ast.Name) and isinstance(x.ctx, ast.Load) and x.id == var and id(x) not in in_tests and var in {d.name for d in P.defs(x) if d.stmt is st}]
        if not uses:
            raise AnalysisError(f"{pr.fq}: result of {what} is never used")
        unguarded = [u for u in uses if not any(P.dominated_by(u, t_, H.flip(l)) for t_, l in nts)]
        ctx.ob(R, f"the {what} result is used only after the None check", not unguarded, f"used unchecked in: {[norm(astq.stmt_of(pr, u))[:60] for u in unguarded]}" if unguarded else f"{len(uses)} use(s), all on the not-None side", pr, unguarded[0] if unguarded else st, f"{what} use after check")
    ctx.floor(R, "fallible range results", n, 3)

    # send_file closes what it opened when the range cannot be satisfied
    sf = ctx.repo.func("werkzeug.utils.send_file")
    F = FA(ctx.repo, sf)
    wf = F.calls_to("werkzeug.wsgi.wrap_file")
    if len(wf) != 1:
        raise AnalysisError(f"{sf.fq}: expected one wrap_file call")
    fb = H.bind(wf[0], ctx.repo.func("werkzeug.wsgi.wrap_file"), bound=False)
    if not isinstance(fb.get("file"), ast.Name):
        raise AnalysisError(f"{sf.fq}: wrap_file's file argument is not a local name")
    fvar = fb["file"].id  # type: ignore[union-attr]
    mcs = F.method_calls("make_conditional")
    ctx.floor(R, "make_conditional calls in send_file", len(mcs), 1)
    for c in mcs:
        tr = astq.enclosing(c, (ast.Try,))
        while tr is not None and not any(c is x for s in tr.body for x in ast.walk(s)):  # type: ignore[attr-defined]
            tr = astq.enclosing(tr, (ast.Try,))
        hs = []
        if tr is not None:
            for h in tr.handlers:  # type: ignore[attr-defined]
                tys = [h.type] if h.type is not None and not isinstance(h.type, ast.Tuple) else (list(h.type.elts) if h.type is not None else [None])
                if any(t_ is None or (F.resolve(t_) or "") in (RNS, "werkzeug.exceptions.HTTPException", "builtins.Exception", "builtins.BaseException") for t_ in tys):
                    hs.append(h)
        if not hs:
            ctx.ob(R, "send_file handles RequestedRangeNotSatisfiable from make_conditional", False, "no enclosing handler for it", sf, c, "send_file handler")
            continue
        h = hs[0]
        hn = F.cfg.by_ast[id(h)][0]
        closes = [F.node(m) for m in F.method_calls("close") if astq.is_name(m.func.value, fvar) and any(m is x for s in h.body for x in ast.walk(s))]  # type: ignore[attr-defined]
        none_edges = [(t_, l) for t_ in F.cfg.tests() if t_.kind == "test" and t_.ast is not None for l in ("T", "F") if H.none_proving(t_.ast, l) == fvar]
        r = F.cfg.reach(hn, avoid_nodes=closes, avoid_edges=none_edges)
        leak = F.cfg.raise_exit.id in r or F.cfg.exit.id in r
        ctx.ob(R, "send_file closes the file before the 416 leaves", bool(closes) and not leak, f"handler `except {norm(h.type) if h.type is not None else ''}`: {len(closes)} `{fvar}.close()` call(s); {'a path leaves without closing' if leak or not closes else 'every path with an open file passes one'}", sf, h, "send_file closes on 416")
        swallowed = F.cfg.exit.id in F.cfg.reach(hn)
        ctx.ob(R, "send_file re-raises the 416", not swallowed, "handler can fall through to a normal return" if swallowed else "every path of the handler raises", sf, h, "send_file re-raises")


# ---------------------------------------------------------------------
# R11.7 satisfiability gate of Range.range_for_length


def _predicate_facts(repo, fi: FuncInfo, nonnull: set[str], rename: dict[str, str | None] | None, depth: int = 0) -> tuple[set, int]:
    """order facts that hold on every path of predicate ``fi`` that returns True, given that the parameters in
    ``nonnull`` are not None (facts of a package predicate called on a true edge are included, renamed).
    -> (facts, number of such paths)"""
    paths = [bp for bp in H.bool_paths(fi.node, fi.fq) if bp.result is True]
    kept = []
    for bp in paths:
        if any(H.none_proving(a, l) in nonnull for a, l in bp.literals):
            continue
        kept.append(bp)
    if not kept:
        return set(), 0
    PA = FA(repo, fi) if depth < 2 else None
    per = []
    for bp in kept:
        fs: set = set()
        for a, l in bp.literals:
            fs |= H.order_facts(a, l, rename)
            if PA is not None and l == "T" and isinstance(a, ast.Call):
                sub = PA.callee(a)
                if sub is not None and sub.cls is None and sub is not fi:
                    try:
                        b = H.bind(a, sub, bound=False)
                        rn2: dict[str, str | None] = {}
                        nn2 = set()
                        for p in sub.params:
                            x = b.get(p)
                            k = H._key(x, rename) if x is not None else None
                            rn2[p] = k
                            if isinstance(x, ast.Name) and x.id in nonnull or isinstance(x, ast.Constant) and x.value is not None:
                                nn2.add(p)
                        fs |= _predicate_facts(repo, sub, nn2, rn2, depth + 1)[0]
                    except AnalysisError:
                        pass
        # close under strictness so that intersection keeps a <= b when one path has a < b
        fs |= {(x, "<=", y) for x, rel, y in fs if rel == "<"}
        per.append(fs)
    out = set.intersection(*per)
    return out, len(kept)


def rule_7(ctx: Ctx) -> None:
    R = "R11.7"
    repo = ctx.repo
    rng = H.class_of(repo, "werkzeug.datastructures.range.Range")
    rf = _method(ctx, rng, "range_for_length")
    X = FA(repo, rf)
    Lp = [p for p in rf.params if p != "self"][0]

    # Range.__init__ rejects a None start
    init = _method(ctx, rng, "__init__")
    I = FA(repo, init)
    ctor_ok = False
    for t_ in I.cfg.tests():
        if t_.kind == "test" and t_.ast is not None:
            nm = H.none_proving(t_.ast, "T")
            if nm is not None and isinstance(t_.ast, ast.Compare):
                ds = I.defs(t_.ast.left)  # type: ignore[arg-type]
                if ds and all(d.kind == "for" and d.index == 0 for d in ds):
                    r = I.cfg.reach(I.cfg.succ(t_, "T"))
                    if I.cfg.exit.id not in r and I.cfg.raise_exit.id in r and not any(n.kind == "loop" and n.id in r for n in I.cfg.nodes):
                        ctor_ok = True
    ctx.ob(R, "Range.__init__ rejects a range whose start is None", ctor_ok, "a `start is None` test on the first element of each pair leads only to a raise" if ctor_ok else "no such test found", init, init.node, "ctor rejects None start")

    # the predicate on its own
    pred = repo.func("werkzeug.http.is_byte_range_valid")
    pp = pred.params
    if len(pp) != 3:
        raise AnalysisError(f"{pred.fq}: expected (start, stop, length)")
    pf, npaths = _predicate_facts(repo, pred, set(pp), None)
    ctx.saw(pred)
    if not npaths:
        raise AnalysisError(f"{pred.fq}: no path returns True for non-None arguments")
    ctx.ob(R, "is_byte_range_valid(start, stop, length) with all three given is true only if 0 <= start", H.has_nonneg(pf, pp[0]), f"facts on every true path ({npaths}): {sorted(pf)}", pred, pred.node, "predicate lower bound")
    ctx.ob(R, "is_byte_range_valid(start, stop, length) with all three given is true only if start < stop", H.has_less(pf, pp[0], pp[1], True), f"facts on every true path ({npaths}): {sorted(pf)}", pred, pred.node, "predicate non-empty")
    ctx.ob(R, "is_byte_range_valid(start, stop, length) with all three given is true only if start < length", H.has_less(pf, pp[0], pp[2], True), f"facts on every true path ({npaths}): {sorted(pf)}", pred, pred.node, "predicate inside")

    rets = [r for r in astq.returns_of(rf.node) if r.value is not None and not astq.is_none(r.value)]
    ctx.floor(R, "non-None results of range_for_length", len(rets), 1)
    for idx, r in enumerate(rets):
        rn = X.node(r)
        rv = r.value
        if isinstance(rv, ast.Name):
            rv = X.single_value(rv)
        if not (isinstance(rv, ast.Tuple) and len(rv.elts) == 2):
            raise AnalysisError(f"{rf.fq}: `{norm(r)}` does not return a (start, stop) pair")
        Se, Te = rv.elts
        if not isinstance(Se, ast.Name):
            raise AnalysisError(f"{rf.fq}: returned start `{norm(Se)}` is not a local name")
        S = Se.id
        guards = X.guards(rn)

        def ver(name: str, at) -> str:
            """a name together with the bindings visible at a node: facts are about values, not about names"""
            if name.startswith("#"):
                return name
            ds = X.rd.reaching(at, name)
            return name + "@" + ",".join(sorted(f"{d.node.id if d.node is not None else 'p'}.{d.index}" for d in ds))

        def show(fs) -> list:
            return sorted((a.split("@")[0], rel, b.split("@")[0]) for a, rel, b in fs)

        def nonnull_at(e: ast.AST, at) -> bool:
            if isinstance(e, ast.Constant):
                return e.value is not None
            if not isinstance(e, ast.Name):
                return False
            var = e.id
            nn_edges = [(t2, l2) for t2 in X.cfg.tests() if t2.kind == "test" and t2.ast is not None for l2 in ("T", "F") if H.none_proving(t2.ast, H.flip(l2)) == var and not isinstance(t2.ast, ast.Name)]
            defnodes = X.def_nodes_of(var)
            for d in X.rd.reaching(at, var):
                if d.kind == "aug":
                    continue  # arithmetic result
                if d.kind == "unpack" and d.index == 0 and ctor_ok and isinstance(d.value, ast.Subscript) and astq.is_self_attr(d.value.value, "ranges"):
                    continue  # start of a stored pair
                if d.kind == "assign" and d.value is not None and d.index is None and d.node is not None and nonnull_at(d.value, d.node):
                    continue
                start = d.node if d.node is not None else X.cfg.entry
                reach = X.cfg.reach(start, avoid_nodes=[x for x in defnodes if x is not d.node], avoid_edges=nn_edges)
                if at.id in reach:
                    return False
            return True

        facts: set = set()
        via = []
        for t_, l in guards:
            if t_.ast is None:
                continue
            for a_, rel_, b_ in H.order_facts(t_.ast, l):
                facts.add((ver(a_, t_), rel_, ver(b_, t_)))
            if isinstance(t_.ast, ast.Call) and l == "T":
                fi = X.callee(t_.ast)
                if fi is None or fi.cls is not None:
                    continue
                try:
                    b = H.bind(t_.ast, fi, bound=False)
                    rename: dict[str, str | None] = {}
                    nonnull = set()
                    for p in fi.params:
                        a = b.get(p)
                        k = H._key(a, None) if a is not None else None
                        rename[p] = ver(k, t_) if k is not None else None
                        if a is not None and nonnull_at(a, t_):
                            nonnull.add(p)
                    fs, cnt = _predicate_facts(repo, fi, nonnull, rename)
                except AnalysisError:
                    continue
                ctx.saw(fi)
                facts |= fs
                via.append(f"{norm(t_.ast)} [{cnt} true path(s), non-None: {sorted(nonnull)}]")

        def lt(e: ast.AST, at, depth: int = 0) -> bool:
            """S < e (e evaluated at node `at`) follows from the facts"""
            if depth > 5:
                return False
            if isinstance(e, ast.Name):
                if H.has_less(facts, ver(S, rn), ver(e.id, at), True):
                    return True
                ds = X.rd.reaching(at, e.id)
                return bool(ds) and all(d.kind == "assign" and d.index is None and d.value is not None and lt(d.value, d.node, depth + 1) for d in ds)
            if isinstance(e, ast.Call) and dotted(e.func) == "min" and e.args and not e.keywords:
                return all(lt(a, at, depth + 1) for a in e.args)
            if isinstance(e, ast.IfExp):
                return lt(e.body, at, depth + 1) and lt(e.orelse, at, depth + 1)
            return False

        def le_len(e: ast.AST, at, depth: int = 0) -> bool:
            """e <= length"""
            if depth > 5:
                return False
            if isinstance(e, ast.Name):
                if e.id == Lp and all(d.kind == "param" for d in X.rd.reaching(at, Lp)):
                    return True
                if H.has_less(facts, ver(e.id, at), ver(Lp, rn), False):
                    return True
                ds = X.rd.reaching(at, e.id)
                return bool(ds) and all(d.kind == "assign" and d.index is None and d.value is not None and le_len(d.value, d.node, depth + 1) for d in ds)
            if isinstance(e, ast.Call) and dotted(e.func) == "min" and e.args and not e.keywords:
                return any(le_len(a, at, depth + 1) for a in e.args)
            if isinstance(e, ast.IfExp):
                return le_len(e.body, at, depth + 1) and le_len(e.orelse, at, depth + 1)
            return False

        ev = f"`{norm(r)}`: order facts established by the dominating tests {show(facts)}" + (f" (through {via})" if via else " (inline tests only)")
        tag = f"result {idx}"
        ctx.ob(R, "a satisfiable range starts inside the resource: 0 <= start is tested on the returned start", H.has_nonneg(facts, ver(S, rn)), ev, rf, r, f"{tag} lower bound")
        ctx.ob(R, "a satisfiable range is not empty: start < stop is tested on the returned values", lt(Te, rn), ev, rf, r, f"{tag} non-empty")
        ctx.ob(R, "a satisfiable range ends inside the resource: returned stop is bounded by length", le_len(Te, rn), ev, rf, r, f"{tag} upper bound")

        def g_units(t_, l) -> bool:
            p = astq.cmp_parts(t_.ast) if t_.ast is not None else None
            if not p:
                return False
            a, op, b2 = p
            if astq.const_str(a) is not None:
                a, b2 = b2, a
            return astq.is_self_attr(a, "units") and astq.const_str(b2) == "bytes" and ((isinstance(op, ast.Eq) and l == "T") or (isinstance(op, ast.NotEq) and l == "F"))

        def g_single(t_, l) -> bool:
            p = astq.cmp_parts(t_.ast) if t_.ast is not None else None
            if not p:
                return False
            a, op, b2 = p
            if isinstance(a, ast.Constant):
                a, b2 = b2, a
            return isinstance(a, ast.Call) and dotted(a.func) == "len" and len(a.args) == 1 and astq.is_self_attr(a.args[0], "ranges") and isinstance(b2, ast.Constant) and b2.value == 1 and ((isinstance(op, ast.Eq) and l == "T") or (isinstance(op, ast.NotEq) and l == "F"))

        def g_len(t_, l) -> bool:
            return t_.ast is not None and not isinstance(t_.ast, ast.Name) and H.none_proving(t_.ast, H.flip(l)) == Lp

        for what, fn_, key in (("other units than bytes are not satisfiable", g_units, "units"), ("an unknown length is not satisfiable", g_len, "length known"), ("a multi-range request is not satisfiable", g_single, "single range")):
            ok = any(fn_(t_, l) for t_, l in guards)
            ctx.ob(R, what, ok, f"`{norm(r)}` guards: {[norm(t_.ast) + ('' if l == 'T' else ' is false') for t_, l in guards]}", rf, r, f"{tag} {key}")



RULES = {
    "R11.1": "each validator header reaches its own parameter; the ETags predicate applied to If-None-Match is weak|strong|star, to If-Match admits strong and '*', to the If-Range tag admits strong - each on the unquoted response ETag and entering the verdict with the right polarity; parse_etags files weak / strong / star members under the constructor parameter of that name",
    "R11.2": "the If-None-Match (If-Range tag, If-Match) verdict is a plain assignment that replaces the date verdict; once If-None-Match has decided only If-Match can change the verdict; If-None-Match decides whenever it is sent and the response has an ETag",
    "R11.3": "every non-None Last-Modified reaching the date comparison went through _dt_as_utc and a replace() that clears the microseconds and nothing else; the comparison is 'not later than'; its verdict depends only on the two dates; _dt_as_utc relabels only naive values and converts aware ones",
    "R11.4": "in make_conditional range processing and the 304/412 assignments are dominated by REQUEST_METHOD in {GET, HEAD}; 304/412 by not-modified against the response's own validators; 412 by a non-empty If-Match, 304 by its absence; the 206 path by _is_range_request_processable, which is true only with a Range header and an absent or satisfied If-Range (ignore_if_range=False)",
    "R11.5": "Content-Length, Content-Range, the _RangeWrapper window and status 206 derive from one range_for_length / to_content_range_header pair on one parsed Range and one complete length; status is set before the conditional wrap; all four precede `return True` and none precedes `return False`; Content-Range renders start-(stop-1)/length of the same range_for_length",
    "R11.6": "each None from parse_range_header, range_for_length, to_content_range_header leads only to RequestedRangeNotSatisfiable and the value is used only after that check; send_file closes its file and re-raises on that path",
    "R11.7": "every non-None (start, stop) returned by Range.range_for_length is dominated by branch facts 0 <= start, start < stop, stop <= length on the returned values (inline or through a predicate whose true paths are enumerated) and by the bytes-unit, known-length and single-range tests; is_byte_range_valid for non-None arguments implies 0 <= start < stop and start < length",
}


def run(ctx: Ctx) -> None:
    repo = ctx.repo
    for rid, text in RULES.items():
        ctx.rule(rid, text)
    san = repo.func(SAN)
    for p in VALIDATOR_PARAMS + PASS_PARAMS:
        if p not in san.params:
            raise AnchorMissing(f"{SAN} has no parameter {p}")
    A = FA(repo, san)
    V, p_r = _verdict(A)
    model = ETagsModel(ctx)
    verdicts = rule_1(ctx, A, V, p_r, model)
    rule_2(ctx, A, V, verdicts)
    rule_3(ctx, A, V, p_r)
    rule_4(ctx)
    resp = repo.cls(RESP)
    P = FA(repo, _method(ctx, resp, "_process_range_request"))
    S = RangeSlots(ctx, P)
    rule_5(ctx, P, S)
    rule_6(ctx, P, S)
    rule_7(ctx)
