"""C11 - conditional and range responses are sound (structural clauses)."""

from __future__ import annotations

import ast
import copy
import itertools
import re
import typing as t

from .. import astq
from ..guards import canon, simulate
from ..fold import Folder, RegexConst, classes_in, group_width
from ..loader import AnalysisError, AnchorMissing, ClassInfo, FuncInfo, dotted, norm, walk_no_nested
from ..report import Ctx
from . import _c06_helpers as S6
from . import _c11_helpers as H
from ._c11_helpers import FA

LEVEL_TEXT = (
    "Static decision of structural clauses of C11 on /repo's current source (a piece of sansio is_resource_modified moved "
    "into a private loop-free function of its module is analysed inlined at its call): (R11.1) every validator header reaches its "
    "own parameter of sansio is_resource_modified; the ETags predicate applied to If-None-Match is weak-or-strong-or-star, "
    "the one applied to If-Match admits a strong match and '*', the one applied to the If-Range tag admits a strong match "
    "(truth tables computed from the ETags methods' branch structure), each gets the unquoted response ETag and enters "
    "the verdict with the right polarity; parse_etags files weak and strong tags under the constructor parameter of that "
    "name (read off its control flow, or - member loop in a generator helper, lists kept in a table indexed by the flag "
    "or built by comprehensions - off its symbolic summary, or - neither following its text - off its evaluation on the tag lists of R11.10); (R11.2) precedence as a truth table: is_resource_modified is executed path by path with its conditions as "
    "abstract booleans (ETag present, If-Range gate = not ignore_if_range / Range sent / If-Range carries a tag, "
    "If-None-Match / If-Match parsed non-empty, the three comparison results; every other condition, the date tests "
    "included, free) and the verdict as a value, so assignment, conditional set, conditional expression, flag local and "
    "early return are the same thing: in every row where the response has an ETag the answer equals the If-Range tag "
    "match when that gate is open, else the negated If-Match match when If-Match has tags, else the If-None-Match "
    "match when If-None-Match has tags - no date verdict or earlier verdict survives into an answer for which an ETag "
    "validator was due (rows with neither validator, and with both If-Match and If-None-Match, are not constrained); (R11.3) every non-None Last-Modified value reaching the date comparison passed the "
    "naive-or-convert UTC normalisation and a replace() that clears exactly the microseconds, the comparison is "
    "'not later than', and its verdict depends on nothing else; (R11.4) range processing, 304 and 412 are dominated by the "
    "GET/HEAD test, 304/412 by 'not modified' for the response's own ETag and Last-Modified, 412 by a non-empty If-Match "
    "(status chosen by branches, a conditional expression, a two-entry table indexed by that test, a local set on the "
    "branches and stored once, or a private helper whose returns are the constants; arguments passed directly, through a "
    "local / an alias of self.headers bound once, or through a literal * / ** table (also a comprehension over a constant "
    "module-level table); every dominating condition is read as the literals it implies, a flag "
    "local - bound before or between the ifs - standing for its defining expression, bool(X) / a walrus / True-if-X-else-False "
    "for X, negation flipping the side, so a test, a flag holding it and split or merged guards are the same thing; a "
    "condition that uses one of these verdicts other than by its truth is reported as not understood); "
    "the 206 path by the Range / If-Range (ignore_if_range=False) gate - a dominating true _is_range_request_processable "
    "test, or, the predicate inlined / split into guards, no walk of _process_range_request with Range absent or with "
    "If-Range sent and the resource modified against it reaches the 206 effects; the arguments of is_resource_modified are checked at each "
    "*use* - the call itself or the call of a private wrapper (method of the response, function of the package) that does "
    "nothing but return its (negated) verdict, wrapper parameters replaced by what the use passes or their defaults - so the "
    "304/412 decision must ignore If-Range and the 206 gate must evaluate it even when both go through one helper; (R11.5) Content-Length, Content-Range, the "
    "_RangeWrapper window and status 206 derive from one range_for_length / to_content_range_header pair of one parsed "
    "Range and one complete length, status is set before the wrap, the wrap passes (start, length) to (start_byte, "
    "byte_range); (R11.6) each None from the three range functions leads only to RequestedRangeNotSatisfiable and "
    "send_file closes its file on that path; (R11.7) every non-None result (S, T) of Range.range_for_length is dominated "
    "by branch facts 0 <= S, S < T and T <= length on the returned values (inline or through is_byte_range_valid, whose "
    "own branch structure is enumerated), and by the bytes-unit, known-length and single-range tests; (R11.8) in "
    "_RangeWrapper the counter compared with the absolute end start_byte + byte_range is re-based to the body's absolute "
    "position after every seek of the body; (R11.9) parse_range_header as a whole function (item loop, the integer "
    "helper it calls), evaluated statement by statement over constants by the Machine of _c06_helpers, returns None for "
    "every string up to length 4 over {'-', '+', '0', '1'} that is not a range-spec `first-[last]` with last >= first or "
    "`-suffix` (doubled, trailing and lone dashes, signs, digits without a dash), also next to a well-formed spec, and "
    "exactly the denoted Range for those that are one (a finite family: longer specs, other characters, inner whitespace "
    "and whether a zero suffix length is satisfiable are not decided); (R11.10) parse_etags as a whole function (the tag regex "
    "as the re module reads it, the member loop, the ETags constructor), evaluated by the same Machine on every list of one or two "
    "entity-tags (and some of three) out of strong / weak tags - one with a comma inside the quotes - separated by a comma with no, "
    "one or two blanks or a tab on either side, and on '*': the predicates the verdict applies (contains_weak, contains, is_strong, "
    "themselves evaluated) admit exactly the tags the list names, weak ones only under weak comparison, '*' every tag (a finite "
    "family: unquoted or malformed members, empty list elements, blanks around the whole header, other tag alphabets and longer lists "
    "are not decided); (R11.11) FileWrapper.seekable(), evaluated on stand-in wrapped files whose own seekable() answers False (with "
    "and without seek / tell attributes, which every io.IOBase object has), answers false - _RangeWrapper trusts that answer when it "
    "seeks to the start of the range instead of reading up to it (what it answers for files without a seekable attribute, or with a "
    "true answer, is not constrained). Decided on all paths of these functions; the rest of the byte arithmetic of "
    "_RangeWrapper (skipping to start on non-seekable bodies, trimming the first and last chunk for each chunking), and whether "
    "_RangeWrapper / send_file consult seekable() at all, is not decided."
)
TRUSTED = [
    "CPython ast",
    "the Machine of _c06_helpers (R11.9, R11.10, R11.11): its reading of Python statements and expressions over constants, builtin str / int / re semantics; nothing of werkzeug is imported or run",
    "datetime semantics: replace(tzinfo=) relabels, astimezone() converts, aware datetimes compare by instant",
    "abstract collection bases (collections.abc Collection / Container / Iterable / Sized) add no state and no __init__ to ETags (R11.10 instantiates it as the record its own __init__ fills)",
    "file objects: seek(x) positions the body at absolute offset x without reading, tell() returns the absolute position",
    "RFC 9110 13.1.1-13.1.5 / 14: weak comparison for If-None-Match, '*' admits any current representation, If-None-Match takes precedence over If-Modified-Since",
]
ASSUMPTIONS = [
    "If-None-Match and If-Match are not sent together (the property's domain)",
    "Range.ranges holds int starts (Range.__init__ rejects None, checked by R11.7) and callers pass an int or None length",
    "parse_date returns aware datetimes (or None) with whole seconds",
    "is_resource_modified is reached with data=None (R11.4 checks this for the calls in Response); an ETags object without tags and without '*' is falsy and contains nothing; parse_etags of an absent or empty header has no tags",
]

SAN = "werkzeug.sansio.http.is_resource_modified"
WRAP = "werkzeug.http.is_resource_modified"
VALIDATOR_PARAMS = ["http_range", "http_if_range", "http_if_modified_since", "http_if_none_match", "http_if_match"]
PASS_PARAMS = ["etag", "data", "last_modified", "ignore_if_range"]


# ---------------------------------------------------------------------
# ETags predicates as truth tables over (weak member, strong member, star)


def _arm_names(e: ast.AST) -> set[str]:
    """names a stored value is made of: of a conditional expression the arms, not the test that chooses between them
    (the same names an if statement around two stores would leave out)"""
    if isinstance(e, ast.IfExp):
        return _arm_names(e.body) | _arm_names(e.orelse)
    out: set[str] = set()
    for ch in ast.iter_child_nodes(e):
        out |= _arm_names(ch)
    if isinstance(e, ast.Name):
        out.add(e.id)
    return out


class ETagsModel:
    def __init__(self, ctx: Ctx):
        self.ctx = ctx
        self.repo = ctx.repo
        self.cls: ClassInfo = H.class_of(self.repo, "werkzeug.datastructures.etag.ETags")
        init = self.cls.methods.get("__init__")
        if init is None:
            raise AnchorMissing("ETags.__init__ missing")
        self.init = init
        for p in ("strong_etags", "weak_etags", "star_tag"):
            if p not in init.params:
                raise AnchorMissing(f"ETags.__init__ has no parameter {p}")
        # attribute -> constructor parameter(s) flowing into it
        self.attr_role: dict[str, str] = {}
        roles: dict[str, set[str]] = {}
        for s in walk_no_nested(init.node):
            if isinstance(s, ast.Assign) and len(s.targets) == 1 and astq.is_self_attr(s.targets[0]):
                ps = _arm_names(s.value) & {"strong_etags", "weak_etags", "star_tag"}
                roles.setdefault(s.targets[0].attr, set()).update(ps)
        for a, ps in roles.items():
            if len(ps) == 1:
                self.attr_role[a] = {"strong_etags": "s", "weak_etags": "w", "star_tag": "x"}[next(iter(ps))]
        self.unattributed: str | None = None
        if sorted(self.attr_role.values()) != ["s", "w", "x"]:
            # the sets are stored in another representation (one pair, a mapping, behind properties ...): the methods'
            # branch structure cannot be read against the fields; the predicates are evaluated instead (`value`)
            self.unattributed = f"ETags.__init__: cannot attribute the stored fields to strong/weak/star: {roles}"
            self.attr_role = {}
        self._paths: dict[str, list[H.BoolPath]] = {}

    def _member(self, m: FuncInfo, coll: ast.AST) -> list[str] | None:
        """roles of the stored sets a collection expression is made of: self._weak -> ['w'], self._weak | self._strong -> ['w', 's']"""
        if astq.is_self_attr(coll) and coll.attr in self.attr_role and self.attr_role[coll.attr] in ("w", "s"):  # type: ignore[attr-defined]
            return [self.attr_role[coll.attr]]  # type: ignore[attr-defined]
        if isinstance(coll, ast.BinOp) and isinstance(coll.op, ast.BitOr):
            a, b = self._member(m, coll.left), self._member(m, coll.right)
            return None if a is None or b is None else a + b
        if isinstance(coll, ast.Call) and isinstance(coll.func, ast.Attribute) and coll.func.attr == "union" and not coll.keywords:
            parts = [self._member(m, x) for x in [coll.func.value, *coll.args]]
            return None if any(x is None for x in parts) else [r for x in parts for r in x]  # type: ignore[union-attr]
        return None

    def _atom(self, m: FuncInfo, atom: ast.AST):
        """-> list of roles ("w"|"s"|"x") any of which makes the atom true, or ("call", method name)"""
        tag = [p for p in m.params if p != "self"]
        if astq.is_self_attr(atom) and atom.attr in self.attr_role and self.attr_role[atom.attr] == "x":
            return ["x"]
        p = astq.cmp_parts(atom)
        if p and isinstance(p[1], ast.In) and tag and astq.is_name(p[0], tag[0]):
            roles = self._member(m, p[2])
            if roles is not None:
                return roles
        if isinstance(atom, ast.Call) and isinstance(atom.func, ast.Attribute) and astq.is_name(atom.func.value, "self") and len(atom.args) == 1 and not atom.keywords and tag and astq.is_name(atom.args[0], tag[0]):
            return ("call", atom.func.attr)
        raise AnalysisError(f"ETags.{m.name}: cannot interpret condition `{norm(atom)}`")

    def value(self, name: str, w: bool, s: bool, x: bool) -> bool:
        """truth value of ETags.<name>(tag) for a tag that is / is not among the weak tags, among the strong tags, with /
        without '*': read off the method's branch structure; a method whose text that reading does not follow (a walrus,
        a returned local, a loop, any(...)) is evaluated by the Machine on an instance its own __init__ built."""
        try:
            return self._value_paths(name, w, s, x)
        except AnalysisError as e1:
            try:
                return self._value_evaluated(name, w, s, x)
            except AnalysisError as e2:
                raise AnalysisError(f"{e1}; evaluated: {e2}")

    def _value_evaluated(self, name: str, w: bool, s: bool, x: bool) -> bool:
        o, meth = self.repo.lookup(self.cls, name)
        if not isinstance(meth, FuncInfo):
            raise AnalysisError(f"ETags.{name} is not a method of the package")
        self.ctx.saw(meth)
        if getattr(self, "_machine", None) is None:
            self._machine = _EvalMachine(self.repo, S6.TableFolder(self.repo))
        m = self._machine
        tag = "t"
        try:
            obj = m.run(self.cls, [], {"strong_etags": [tag] if s else [], "weak_etags": [tag] if w else [], "star_tag": False})
            if x:
                star = [a for a, r in self.attr_role.items() if r == "x"] or [a for a in ("star_tag",) if a in obj.attrs]
                if not star:
                    raise AnalysisError("ETags.__init__ does not store the star flag under a name of its own")
                for a in star:
                    obj.attrs[a] = True
            got = m.method(obj, name, [tag])
        except S6.ProgramRaise as r:
            raise AnalysisError(f"ETags.{name}: evaluation with weak={w} strong={s} star={x} raises {r.kind}")
        except S6.OutOfSteps:
            raise AnalysisError(f"ETags.{name}: evaluation does not finish")
        if isinstance(got, S6._MACHINE_OBJECTS):
            raise AnalysisError(f"ETags.{name}: does not return a plain truth value")
        return bool(got)

    def _value_paths(self, name: str, w: bool, s: bool, x: bool, depth: int = 0) -> bool:
        if self.unattributed:
            raise AnalysisError(self.unattributed)
        if depth > 6:
            raise AnalysisError(f"ETags.{name}: recursion in predicate")
        o, m = self.repo.lookup(self.cls, name)
        if not isinstance(m, FuncInfo):
            raise AnalysisError(f"ETags.{name} is not a method of the package")
        self.ctx.saw(m)
        if name not in self._paths:
            self._paths[name] = H.bool_paths(m.node, f"ETags.{name}")
        env = {"w": w, "s": s, "x": x}
        for bp in self._paths[name]:
            ok = True
            for atom, label in bp.literals:
                a = self._atom(m, atom)
                v = any(env[r] for r in a) if isinstance(a, list) else self._value_paths(a[1], w, s, x, depth + 1)
                if v != (label == "T"):
                    ok = False
                    break
            if ok:
                if bp.result not in (True, False):
                    raise AnalysisError(f"ETags.{name}: a path does not return a truth value")
                return bp.result
        raise AnalysisError(f"ETags.{name}: no path for w={w} s={s} x={x}")

    def table(self, name: str) -> dict[tuple[bool, bool, bool], bool]:
        return {k: self.value(name, *k) for k in itertools.product((False, True), repeat=3)}


def _table_text(tb: dict[tuple[bool, bool, bool], bool]) -> str:
    on = [k for k, v in tb.items() if v]
    if not on:
        return "never"
    names = ("weak", "strong", "star")
    return " | ".join("&".join(n if b else "!" + n for n, b in zip(names, k)) for k in on)


# requirement per validator: list of (construct suffix, description, predicate over the truth table)
def _req(role: str):
    W, S, X = 0, 1, 2

    def all_with(tb, idx):
        return all(v for k, v in tb.items() if k[idx])

    reqs = [
        ("no match is no match", "false when the tag is in neither list and there is no '*'", lambda tb: not tb[(False, False, False)]),
        ("strong match", "true whenever the tag is among the strong tags", lambda tb: all_with(tb, S)),
    ]
    if role == "INM":
        reqs.append(("weak match", "true whenever the tag is among the weak tags (weak comparison)", lambda tb: all_with(tb, W)))
        reqs.append(("star", "true whenever the header is '*'", lambda tb: all_with(tb, X)))
    if role == "IM":
        reqs.append(("star", "true whenever the header is '*' ('*' admits any current ETag)", lambda tb: all_with(tb, X)))
    return reqs


def _only_param_def(A: FA, name_node: ast.Name, pname: str) -> bool:
    if name_node.id != pname:
        return False
    ds = A.defs(name_node)
    return len(ds) == 1 and next(iter(ds)).kind == "param"


def _verdict(A: FA) -> tuple[str, int, list[ast.Return]]:
    """(verdict variable V, number of `not` in `return not V`, the *direct* returns).  A direct return is a guard
    clause that returns a validator comparison itself (``return not parse_etags(x).contains(etag)``) instead of
    storing it in V and falling through to ``return not V``: it counts as a verdict statement (rule_1 requires that it
    holds a validator comparison, R11.2 treats it as an assignment that nothing follows)."""
    rets = astq.returns_of(A.fi.node)
    got = set()
    direct: list[ast.Return] = []
    for r in rets:
        if r.value is None:
            raise AnalysisError(f"{A.fi.fq}: bare return")
        e, n = H.strip_not(r.value)
        # `modified = not unmodified` ... `return modified`: a result local bound once to the (negated) verdict,
        # the verdict not rebound between that copy and the return, is the verdict itself
        for _ in range(4):
            if not isinstance(e, ast.Name):
                break
            sv = A.single_value(e)
            if sv is None:
                break
            e2, n2 = H.strip_not(sv)
            cn = A.cfg.node_of(sv)
            if not (isinstance(e2, ast.Name) and cn is not None and A.same_defs(e2.id, cn, A.node(r))):
                break
            e, n = e2, n + n2
        if isinstance(e, ast.Name):
            got.add((e.id, n % 2))
        else:
            direct.append(r)
    if not got:
        raise AnalysisError(f"{A.fi.fq}: no return of a (negated) verdict variable")
    if len(got) != 1:
        raise AnalysisError(f"{A.fi.fq}: returns disagree on the verdict variable: {sorted(got)}")
    v, p = next(iter(got))
    return v, p, direct


def _polarity_to_stmt(call: ast.AST) -> tuple[ast.stmt | None, int, bool]:
    """(enclosing statement, number of `not` between, only not/and/or in between)"""
    n = 0
    pure = True
    cur = call
    p = astq.parent(cur)
    while p is not None and not isinstance(p, ast.stmt):
        if isinstance(p, ast.UnaryOp) and isinstance(p.op, ast.Not):
            n += 1
        elif isinstance(p, ast.BoolOp):
            pass
        else:
            pure = False
        cur, p = p, astq.parent(p)
    return p, n, pure


def _is_if_range_tag(A: FA, x: ast.AST) -> bool:
    """`<v>.etag` where every non-None binding of v is parse_if_range_header(http_if_range)"""
    if not (isinstance(x, ast.Attribute) and x.attr == "etag" and isinstance(x.value, ast.Name)):
        return False
    vals = [d.value for d in A.defs(x.value) if d.value is not None and not astq.is_none(d.value)]
    return bool(vals) and all(isinstance(v, ast.Call) and A.resolve(v.func) == "werkzeug.http.parse_if_range_header" and len(v.args) == 1 and isinstance(v.args[0], ast.Name) and _only_param_def(A, v.args[0], "http_if_range") for v in vals)


def rule_1(ctx: Ctx, A: FA, V: str, p_r: int, direct: list[ast.Return], model: ETagsModel, T: H.VerdictTable) -> None:
    repo = ctx.repo
    R = "R11.1"
    san = A.fi
    # ---- (a) the WSGI wrapper hands each header to its own parameter
    wrap = repo.func(WRAP)
    WA = FA(repo, wrap)
    cs = WA.calls_to(SAN)
    if len(cs) != 1:
        raise AnalysisError(f"{wrap.fq}: expected one call of the sans-io is_resource_modified, found {len(cs)}")
    b = H.bind(cs[0], san, bound=False, fold=lambda x: Folder(repo).expr(wrap.module, x))
    env_name = wrap.params[0]
    look_w = _bound_at(WA, WA.cfg.node_of(cs[0]))  # by name at the call: the arguments may be written-out copies of a table
    n = 0
    for p in VALIDATOR_PARAMS:
        n += 1
        a = b.get(p)
        src = a
        if isinstance(src, ast.Name):  # header read into a local first
            src = look_w(src) or src
        hk = H.header_get_key(src, look_w) if src is not None else None
        ok = hk is not None and hk[0] == env_name and hk[1] == p.upper()
        ctx.ob(R, f"http.is_resource_modified passes environ[{p.upper()!r}] as {p}", ok, f"argument bound to `{p}`: {norm(a) if a is not None else 'absent (parameter default)'}" + (f" = {norm(src)}" if src is not a and src is not None else ""), wrap, a or cs[0], f"wrapper wires {p}")
    for p in PASS_PARAMS:
        n += 1
        a = b.get(p)
        ok = isinstance(a, ast.Name) and a.id in wrap.params and _only_param_def(WA, a, p)
        ctx.ob(R, f"http.is_resource_modified passes its own `{p}` on", ok, f"argument bound to `{p}`: {norm(a) if a is not None else 'absent (parameter default)'}", wrap, a or cs[0], f"wrapper wires {p}")
    ctx.floor(R, "wrapper arguments", n, 9)

    # ---- (b) comparison per validator
    sites: dict[str, list[ast.Call]] = {"INM": [], "IM": [], "IFR": []}
    for c in A.calls_to("werkzeug.http.parse_etags"):
        if len(c.args) != 1:
            raise AnalysisError(f"{san.fq}: `{norm(c)}` is not a one-argument parse_etags call")
        x = c.args[0]
        role = None
        seen_as = T.site_roles.get(id(c), set())  # what the call parses on the executed paths (locals propagated)
        if len(seen_as) > 1:
            raise AnalysisError(f"{san.fq}: `{norm(c)}` parses different validators on different paths: {sorted(seen_as)}")
        if seen_as:
            role = next(iter(seen_as))
        elif isinstance(x, ast.Name) and _only_param_def(A, x, "http_if_none_match"):
            role = "INM"
        elif isinstance(x, ast.Name) and _only_param_def(A, x, "http_if_match"):
            role = "IM"
        elif _is_if_range_tag(A, x):
            role = "IFR"
        elif isinstance(x, ast.Name):
            # tag = if_range.etag if if_range is not None else None ... parse_etags(tag)
            arms = [v for d in A.defs(x) if d.kind in ("assign", "walrus") and d.index is None for v, _ in H.split_ifexp(d.value) if v is not None and not astq.is_none(v)]
            if arms and all(d.kind in ("assign", "walrus") and d.index is None for d in A.defs(x)) and all(_is_if_range_tag(A, v) for v in arms):
                role = "IFR"
        if role is None:
            raise AnalysisError(f"{san.fq}: cannot tell which validator `{norm(c)}` parses")
        sites[role].append(c)
    for role, nm in (("INM", "If-None-Match"), ("IM", "If-Match"), ("IFR", "If-Range tag")):
        if not sites[role]:
            raise AnalysisError(f"{san.fq}: no parse_etags call for {nm}")
    ctx.floor(R, "parse_etags sites in is_resource_modified", sum(len(v) for v in sites.values()), 3)

    verdicts: dict[str, list[ast.stmt]] = {"INM": [], "IM": [], "IFR": []}
    steered: dict[str, list[ast.Call]] = {"INM": [], "IM": [], "IFR": []}
    names = {"INM": "If-None-Match", "IM": "If-Match", "IFR": "If-Range tag"}
    want_odd = {"INM": 1, "IM": 0, "IFR": 1}
    ncmp = 0
    for role, cl in sites.items():
        for c in cl:
            cmps: list[ast.Call] = []
            par = astq.parent(c)
            if isinstance(par, ast.Attribute) and isinstance(astq.parent(par), ast.Call) and astq.parent(par).func is par:
                cmps.append(astq.parent(par))
            else:
                # the parsed header is bound to a local (assignment or walrus): the method calls on exactly that binding
                held = [d for ds in A.rd.gen.values() for d in ds if d.value is c and d.kind in ("assign", "walrus") and d.index is None]
                for d0 in held:
                    for mc in astq.calls(san.node, nested=False):
                        f = mc.func
                        if isinstance(f, ast.Attribute) and astq.is_name(f.value, d0.name) and A.defs(f.value) == frozenset([d0]):
                            cmps.append(mc)
            if not cmps:
                ctx.ob(R, f"{names[role]}: parsed tags are compared with the response ETag", False, f"`{norm(c)}` is never asked about the ETag", san, c, f"{role} compared")
                continue
            for mc in cmps:
                ncmp += 1
                meth = mc.func.attr  # type: ignore[attr-defined]
                tb = model.table(meth)
                for suffix, desc, pred in _req(role):
                    ctx.ob(R, f"{names[role]} comparison ETags.{meth}: {desc}", pred(tb), f"ETags.{meth} is true exactly for: {_table_text(tb)}", san, mc, f"{role} comparison {suffix}")
                # argument: the unquoted response ETag
                ok_arg = False
                fact = "no single argument"
                if len(mc.args) == 1 and isinstance(mc.args[0], ast.Name):
                    ds = A.defs(mc.args[0])
                    ok_arg = bool(ds)
                    for d in ds:
                        v = d.value
                        if d.kind == "assign" and d.index is None and (sc := H.subscript_const(v)) is not None and sc[1] == 0:
                            v = sc[0]  # etag = unquote_etag(etag)[0]
                            good = True
                        else:
                            good = d.kind == "unpack" and d.index == 0
                        good = good and isinstance(v, ast.Call) and A.resolve(v.func) == "werkzeug.http.unquote_etag" and len(v.args) == 1 and isinstance(v.args[0], ast.Name)
                        if good:
                            src = A.rd.reaching(d.node, v.args[0].id)  # type: ignore[arg-type,union-attr]
                            def raw_etag(s, depth: int = 0) -> bool:
                                """the binding holds the response ETag as given: the parameter, generate_etag(data), or a plain copy of such a binding"""
                                if s.kind == "param" and s.name == "etag":
                                    return True
                                if s.kind == "assign" and s.index is None and isinstance(s.value, ast.Call) and A.resolve(s.value.func) == "werkzeug.http.generate_etag":
                                    return True
                                if s.kind == "assign" and s.index is None and isinstance(s.value, ast.Name) and s.node is not None and depth < 3:
                                    up = A.rd.reaching(s.node, s.value.id)
                                    return bool(up) and all(raw_etag(u, depth + 1) for u in up)
                                return False

                            good = bool(src) and all(raw_etag(s) for s in src)
                        ok_arg = ok_arg and good
                    fact = f"`{mc.args[0].id}` is bound by: {sorted(norm(d.stmt) if d.stmt is not None else d.kind for d in ds)}"
                ctx.ob(R, f"{names[role]} comparison receives the unquoted response ETag", ok_arg, fact, san, mc, f"{role} comparison argument")
                # polarity into the verdict
                st, nnot, pure = _polarity_to_stmt(mc)
                is_v = isinstance(st, ast.Assign) and len(st.targets) == 1 and astq.is_name(st.targets[0], V) or isinstance(st, ast.AugAssign) and astq.is_name(st.target, V)
                is_ret = isinstance(st, ast.Return) and any(st is r for r in direct)
                if not (is_v or is_ret) or not pure:
                    # the comparison steers the verdict through control flow (`if not tags.contains(etag): V = True`,
                    # a conditional expression, an intermediate flag): there is no single statement whose polarity
                    # could be read off - polarity and precedence of this validator are decided by the truth table
                    # of the whole function (R11.2), which does not depend on the spelling
                    steered[role].append(mc)
                    ctx.note(f"R11.1: `{norm(mc)}` steers the verdict through control flow; polarity and precedence of {names[role]} are decided by the R11.2 truth table")
                    continue
                verdicts[role].append(st)
                # `return E` is `V = E'; return (not) V` with nothing in between: the function's result is E itself
                odd = (nnot + (0 if is_ret else p_r)) % 2
                how = "returned directly" if is_ret else f"with `return {'not ' if p_r else ''}{V}`"
                ctx.ob(R, f"{names[role]}: a match means {'not modified' if want_odd[role] else 'precondition holds (modified / proceed)'}", odd == want_odd[role], f"`{norm(st)}` {how}: result is {'the negation of' if odd else 'equal to'} the match", san, st, f"{role} polarity")
    ctx.floor(R, "validator comparisons", ncmp, 3)
    # a constant return (`return False` under a failed If-Match) is a verdict by control flow: the table decides it
    stray = [r for r in direct if not any(r is st for sts in verdicts.values() for st in sts) and not (isinstance(r.value, ast.Constant) and isinstance(r.value.value, bool))]
    if stray:
        raise AnalysisError(f"{san.fq}: return value `{norm(stray[0].value)}` is neither the (negated) verdict variable nor a validator comparison")

    # ---- (c) parse_etags files weak / strong tags under the right constructor parameter
    _parse_etags_wiring(ctx, model)


_COLLECTION_COPIES = {"list", "tuple", "set", "frozenset", "sorted"}


def _is_list_creation(e: ast.AST | None) -> bool:
    return isinstance(e, ast.List) and not e.elts or isinstance(e, ast.Call) and dotted(e.func) == "list" and not e.args and not e.keywords


class _Deferred:
    """records obligations / floors of one attempt; they are handed to the real Ctx only when the attempt got through"""

    def __init__(self, ctx: Ctx):
        self.repo = ctx.repo
        self._ctx = ctx
        self._calls: list[tuple[str, tuple]] = []

    def ob(self, *a) -> None:
        self._calls.append(("ob", a))

    def floor(self, *a) -> None:
        self._calls.append(("floor", a))

    def saw(self, *a) -> None:
        self._calls.append(("saw", a))

    def flush(self) -> None:
        for name, a in self._calls:
            getattr(self._ctx, name)(*a)


def _parse_etags_wiring(ctx: Ctx, model: ETagsModel) -> None:
    """parse_etags files weak / strong / star members under the constructor parameter of that name.  Two readings of
    the function decide the same obligations: the path walk over parse_etags' own control flow (exact about aliases
    carried from one member to the next), and - when the lists, the flag or the member loop are spelled in a way the
    path walk does not follow (member loop in a generator helper, lists kept in a table indexed by the flag, lists
    built by comprehensions, ...) - the symbolic summary of the function (helpers inlined, a generator helper read as
    the loop that produces the items, `table[bool(flag)]` read as a selection by the flag); and when neither reading
    follows the text (groups read by name, a bound method of the regex held in a local, ...), the function is evaluated
    on the entity-tag lists of R11.10 and the same obligations are read off the results."""
    first = _Deferred(ctx)
    try:
        _parse_etags_wiring_paths(first, model)  # type: ignore[arg-type]
    except AnalysisError as e1:
        second = _Deferred(ctx)
        try:
            _parse_etags_wiring_summary(second, model)  # type: ignore[arg-type]
        except AnalysisError as e2:
            third = _Deferred(ctx)
            try:
                _parse_etags_wiring_evaluated(third, model)  # type: ignore[arg-type]
            except AnalysisError as e3:
                raise AnalysisError(f"{e1}; on the symbolic summary: {e2}; evaluated on tag lists: {e3}")
            third.flush()
            return
        second.flush()
        return
    first.flush()


def _etag_group(t_) -> int | None:
    """regex group a term denotes: m.groups()[i] -> i + 1, m[k] / m.group(k) -> k"""
    if t_[0] == "idx" and S6.is_c(t_[2]) and isinstance(S6.cv(t_[2]), int) and not isinstance(S6.cv(t_[2]), bool):
        if t_[1][0] == "meth" and t_[1][1] == "groups":
            return S6.cv(t_[2]) + 1
        if t_[1][0] == "meth" and t_[1][1] in ("match", "fullmatch", "search"):
            return S6.cv(t_[2])
    if t_[0] == "meth" and t_[1] == "group" and len(t_[3]) == 1 and S6.is_c(t_[3][0]) and isinstance(S6.cv(t_[3][0]), int):
        return S6.cv(t_[3][0])
    return None


def _etag_group_truth(a, tr: bool):
    """(group term, group number, present?) stated by a path-condition atom: `g`, `bool(g)`, `g is None`"""
    k = _etag_group(a)
    if k is not None:
        return a, k, tr
    if a[0] == "cmp" and a[1] == "is" and S6.NONE in (a[2], a[3]):
        g = a[3] if a[2] == S6.NONE else a[2]
        k = _etag_group(g)
        if k is not None:
            return g, k, not tr
    return None


def _star_compared(conds) -> list:
    """what the conditions that hold compare with '*': `x == '*'`, `'*' in [x ...]`, `any(x == '*' ...)`"""
    out: list = []
    star = S6.C("*")

    def of_cmp(a) -> None:
        if a[0] == "cmp" and a[1] == "==" and star in (a[2], a[3]):
            out.append(a[3] if a[2] == star else a[2])

    for a, tr in conds:
        if not tr:
            continue
        of_cmp(a)
        if a[0] == "call" and a[1] == ("g", "builtins.any") and len(a[2]) == 1 and S6.coll_items(a[2][0]) is not None:
            for _, it_ in S6.coll_items(a[2][0]):
                of_cmp(it_)
        if a[0] == "cmp" and a[1] == "in" and a[2] == star and S6.coll_items(a[3]) is not None:
            out.extend(it_ for _, it_ in S6.coll_items(a[3]))
    return out


def _opens_with_group_1(rx: RegexConst) -> bool:
    """the parsed regex (layout and comments of re.VERBOSE gone) begins with capturing group 1, optional or not"""
    try:
        seq = list(rx.parsed())
    except re.error as e:
        raise AnalysisError(f"tag regex does not parse: {e}")
    while seq:
        op, av = seq[0]
        name = str(op)
        if name in ("MAX_REPEAT", "MIN_REPEAT", "POSSESSIVE_REPEAT"):
            seq = list(av[2])
        elif name == "SUBPATTERN":
            if av[0] is not None:
                return av[0] == 1
            seq = list(av[3])
        elif name == "ATOMIC_GROUP":
            seq = list(av)
        else:
            return False
    return False


def _parse_etags_wiring_summary(ctx: Ctx, model: ETagsModel) -> None:
    """the same obligations read off the symbolic summary of parse_etags (`_c06_helpers`): every returned
    ETags(...) construction, the items of the two list arguments with the per-member conditions they are stored
    under, and the path condition of the star result."""
    R = "R11.1"
    repo = ctx.repo
    pe = repo.func("werkzeug.http.parse_etags")
    folder = Folder(repo)
    PE = S6.Summaries(repo, folder).of(pe)
    names = [p for p in model.init.params if p != "self"]
    builds = [o for o in PE.returns if o.term[0] == "call" and o.term[1] == ("g", model.cls.fq)]
    if not builds:
        raise AnalysisError("parse_etags: no ETags construction is returned")

    def arg(call, pname: str):
        for kw in call[3]:
            if kw[1] == pname:
                return kw[2]
            if kw[1] == "**":
                raise AnalysisError("parse_etags: ETags(**...) is not followed")
        i = names.index(pname)
        return call[2][i] if i < len(call[2]) else None

    nlist = 0
    any_bad = False
    flags: dict = {}  # group-1 term -> a condition it was read from
    filed = {"weak_etags": [], "strong_etags": []}
    for o in builds:
        st = arg(o.term, "star_tag")
        if st is not None and st != S6.FALSE:
            nlist += 1
            cmp_ = _star_compared(o.conds)
            if not cmp_ and any(x[0] in ("it", "v") or (x[0] == "call" and x[1] not in (("g", "builtins.len"), ("g", "builtins.bool"))) for a, _ in o.conds for x in S6.walk(a)):
                raise AnalysisError(f"parse_etags: star_tag is set under `{S6.show_conds(o.conds)[:160]}`, which does not show a comparison with '*'")
            ctx.ob(R, "parse_etags: star_tag is set only for a '*' member", bool(cmp_) and st == S6.TRUE, f"`ETags({names[2] if len(names) > 2 else 'star_tag'}={S6.show(st)})` returned under {[S6.show(x)[:60] + " == '*'" for x in cmp_]}", pe, o.node, "parse_etags star")
        for pname in ("weak_etags", "strong_etags"):
            a = arg(o.term, pname)
            if a is None or a == S6.NONE:
                continue
            while a[0] == "call" and a[1][0] == "g" and a[1][1] in ("builtins.list", "builtins.tuple", "builtins.set", "builtins.frozenset", "builtins.sorted") and len(a[2]) == 1 and not a[3]:
                a = a[2][0]
            items = S6.coll_items(a)
            if items is None:
                raise AnalysisError(f"parse_etags: `{S6.show(a)[:80]}` passed as {pname} is not a collection built in parse_etags or its helpers")
            for cs, it_ in items:
                filed[pname].append((o, cs, it_))
    if not filed["weak_etags"] or not filed["strong_etags"]:
        lost = f" (a store into `{PE.lost[0]}` is not followed)" if PE.lost else ""
        raise AnalysisError(f"parse_etags: nothing is seen appended to the list passed as {'weak_etags' if not filed['weak_etags'] else 'strong_etags'}{lost}")
    for pname, want, what in (("weak_etags", True, "weak"), ("strong_etags", False, "strong")):
        bad = []
        for o, cs, it_ in sorted(filed[pname], key=lambda x: repr(x[1:])):
            told = [gt for a, tr in cs for gt in [_etag_group_truth(a, tr)] if gt is not None and gt[1] == 1]
            for g, _, _ in told:
                flags.setdefault(g, cs)
            vals = {present for _, _, present in told}
            if not told:
                odd = [a for a, _ in cs if any(_etag_group(x) == 1 or (x[0] == "meth" and x[1] in ("group", "groupdict") and _etag_group(x) is None) for x in S6.walk(a))]
                if odd or PE.lost:
                    raise AnalysisError(f"parse_etags: a tag is filed as {what} under a condition that is not read as 'the W/ group is present / absent': {S6.show(odd[0])[:120] if odd else PE.lost[0]}")
            if vals != {want}:
                bad.append(f"`{S6.show(it_)[:60]}` under `{S6.show_conds(cs)[:200]}`")
        nlist += 1
        any_bad = any_bad or bool(bad)
        ctx.ob(R, f"parse_etags: the list passed as {pname} collects the {what} tags", not bad, f"{len(filed[pname])} stored item(s) of the returned {pname} list, each under its member's W/ group {'present' if want else 'absent'}" + (f"; not so: {bad[:2]}" if bad else ""), pe, pe.node, f"parse_etags {pname} append")
    ctx.floor(R, "parse_etags list wiring", nlist, 3)
    # the flag is group 1 of the tag regex, the W/ marker
    regexes = set()
    if not flags and any_bad:
        return  # no member condition mentions the W/ group at all: the list obligations above say so
    for g in flags:
        m = next((x for x in S6.walk(g) if x[0] == "meth" and x[1] in ("match", "fullmatch", "search") and x[2][0] == "g"), None)
        if m is None:
            raise AnalysisError(f"parse_etags: the match object behind the weakness flag `{S6.show(g)[:80]}` is not a match of a module-level regex")
        regexes.add(m[2][1])
    if len(regexes) != 1:
        raise AnalysisError(f"parse_etags: the weakness flag is read from matches of several regexes: {sorted(regexes)}")
    fq = next(iter(regexes))
    mn, _, nm = fq.rpartition(".")
    rx = folder.name(repo.module(mn), nm)
    if not isinstance(rx, RegexConst):
        raise AnalysisError(f"parse_etags: {fq} does not fold to a regex")
    cls0 = classes_in(rx)
    marker = bool(cls0) and cls0[0] == {ord("W"), ord("w")} and group_width(rx, 1) == (2, 2) and _opens_with_group_1(rx)
    ctx.ob(R, "parse_etags: the weakness flag is group 1 of the tag regex, the W/ marker", marker, f"group 1 of {nm} = {rx.pattern!r}: first class {sorted(map(chr, cls0[0])) if cls0 else None}, group 1 width {group_width(rx, 1)}", pe, pe.node, "parse_etags weak flag group")


def _parse_etags_wiring_paths(ctx: Ctx, model: ETagsModel) -> None:
    """every append that can reach the list handed to ETags(weak_etags=...) happens only when the W/ flag of the
    current member is set, every append reaching strong_etags only when it is not.  Decided by walking the paths from
    the statement that binds the flag to each append and resolving the receiver along the path (the list itself, a
    local alias, a conditional expression on the flag), so `if flag: weak.append(x) else: strong.append(x)` and
    `tags = weak if flag else strong; tags.append(x)` give the same table."""
    R = "R11.1"
    repo = ctx.repo
    pe = repo.func("werkzeug.http.parse_etags")
    PA = FA(repo, pe)
    ctors = [c for c in astq.calls(pe.node, nested=False) if (PA.resolve(c.func) or "") == model.cls.fq]
    if not ctors:
        raise AnalysisError("parse_etags: no ETags construction found")
    flag, fdef = _weak_flag(ctx, PA)
    fnode = fdef.node

    # the lists handed to the constructor: creation binding -> parameter name
    tracked: dict = {}
    nlist = 0
    for c in ctors:
        bb = H.bind(c, model.init, bound=True)
        for pname in ("weak_etags", "strong_etags"):
            a = bb.get(pname)
            if a is None:
                continue
            while isinstance(a, ast.Call) and dotted(a.func) in _COLLECTION_COPIES and len(a.args) == 1 and not a.keywords:
                a = a.args[0]
            if not isinstance(a, ast.Name):
                raise AnalysisError(f"parse_etags: `{norm(a)}` passed as {pname} is not a local list")
            ds = PA.defs(a)
            if not ds or not all(d.kind == "assign" and d.index is None and _is_list_creation(d.value) for d in ds):
                raise AnalysisError(f"parse_etags: `{a.id}` passed as {pname} is not bound to a fresh list only: {sorted(norm(d.stmt) if d.stmt is not None else d.kind for d in ds)}")
            for d in ds:
                if tracked.setdefault(d, pname) != pname:
                    raise AnalysisError(f"parse_etags: the list `{a.id}` is passed both as weak_etags and as strong_etags")
        st = bb.get("star_tag")
        if st is not None:
            nlist += 1
            stars = []
            for t_, l in PA.guards(c):
                pp = astq.cmp_parts(t_.ast) if t_.ast is not None else None
                if pp and any(astq.const_str(x) == "*" for x in (pp[0], pp[2])) and (isinstance(pp[1], ast.Eq) and l == "T" or isinstance(pp[1], ast.NotEq) and l == "F"):
                    stars.append(t_)
            if not stars and any(t_.ast is not None and (astq.names_in(t_.ast) - set(pe.params)) for t_, _ in PA.guards(c)):
                # guarded by a test on a local that is not itself a comparison with '*' (a flag computed earlier, a value
                # handed over by a helper): what the local stands for is read off the symbolic summary
                raise AnalysisError(f"parse_etags: `{norm(c)}` is guarded by {[norm(t_.ast) for t_, _ in PA.guards(c) if t_.ast is not None]}, none of which is a comparison with '*'")
            ctx.ob(R, "parse_etags: star_tag is set only for a '*' member", bool(stars) and isinstance(st, ast.Constant) and st.value is True, f"`{norm(c)}` guarded by {[norm(t_.ast) for t_ in stars]}", pe, c, "parse_etags star")
    if set(tracked.values()) != {"weak_etags", "strong_etags"}:
        raise AnalysisError(f"parse_etags: no ETags construction receives both a weak and a strong list ({sorted(set(tracked.values()))})")

    # names that can carry one of the lists (the lists themselves and local aliases), and what they may be used for
    carriers = {d.name for d in tracked}
    alldefs = [d for ds in PA.rd.gen.values() for d in ds]
    grew = True
    while grew:
        grew = False
        for d in alldefs:
            if d.name in carriers or d.value is None or d.kind not in ("assign", "walrus") or d.index is not None:
                continue
            arms = _alias_arms(d.value)
            if arms is not None and any(isinstance(x, ast.Name) and x.id in carriers for x in arms):
                carriers.add(d.name)
                grew = True
    ctor_args = {id(x) for c in ctors for a in [*c.args, *[k.value for k in c.keywords]] for x in ast.walk(a)}
    for x in walk_no_nested(pe.node):
        if isinstance(x, ast.Name) and isinstance(x.ctx, ast.Load) and x.id in carriers and id(x) not in ctor_args:
            par = astq.parent(x)
            while isinstance(par, ast.IfExp) and x is not par.test:
                x, par = par, astq.parent(par)  # type: ignore[assignment]
            recv = isinstance(par, ast.Attribute) and par.attr == "append" and isinstance(astq.parent(par), ast.Call) and astq.parent(par).func is par  # type: ignore[union-attr]
            alias = isinstance(par, (ast.Assign, ast.AnnAssign, ast.NamedExpr)) and par.value is x and isinstance(par.targets[0] if isinstance(par, ast.Assign) else par.target, ast.Name)
            if not (recv or alias):
                raise AnalysisError(f"parse_etags: the tag list `{norm(x)}` is used in `{norm(astq.stmt_of(pe, x))[:70]}`, which is neither an append nor a plain alias: cannot follow where tags are filed")

    def flag_edge(t_, label: str) -> bool | None:
        """value of the flag implied by taking this edge (None: the test says nothing about the current flag)"""
        if t_.kind != "test" or t_.ast is None:
            return None
        v = _flag_truth(t_.ast, flag)
        if v is None:
            return None
        if {d for d in PA.rd.reaching(t_, flag)} != {fdef}:
            return None
        return v == (label == "T")

    def resolve(e: ast.AST, prefix: list, at, fv: bool | None, depth: int = 0) -> list[tuple]:
        """possible (creation binding | None, flag value) of a list-valued expression evaluated in node `at` after the
        path `prefix` (nodes passed since the flag was bound)."""
        if depth > 8:
            return [(None, fv)]
        if isinstance(e, ast.NamedExpr):
            return resolve(e.value, prefix, at, fv, depth + 1)
        if isinstance(e, ast.IfExp):
            v = _flag_truth(e.test, flag)
            if v is None or {d for d in PA.rd.reaching(at, flag)} != {fdef}:
                return resolve(e.body, prefix, at, fv, depth + 1) + resolve(e.orelse, prefix, at, fv, depth + 1)
            out = []
            for val in (True, False):
                if fv is not None and fv != val:
                    continue
                out += resolve(e.body if val == v else e.orelse, prefix, at, val, depth + 1)
            return out
        if isinstance(e, ast.Name):
            for i in range(len(prefix) - 1, -1, -1):
                for d in PA.rd.gen[prefix[i].id]:
                    if d.name == e.id:
                        if d.kind in ("assign", "walrus") and d.index is None and d.value is not None:
                            if _is_list_creation(d.value):
                                return [(d, fv)]
                            return resolve(d.value, prefix[:i], prefix[i], fv, depth + 1)
                        return [(None, fv)]
            out = []
            for d in PA.rd.reaching(fnode, e.id):  # bound before the flag: only plain aliases are followed
                if d.kind == "assign" and d.index is None and _is_list_creation(d.value):
                    out.append((d, fv))
                elif d.kind == "assign" and d.index is None and isinstance(d.value, ast.Name) and d.node is not None:
                    out += [(c_, fv) for c_, _ in _static_alias(d.value, d.node, depth + 1)]
                else:
                    out.append((None, fv))
            return out
        return [(None, fv)]

    def _static_alias(e: ast.Name, at, depth: int) -> list[tuple]:
        if depth > 8:
            return [(None, None)]
        out = []
        for d in PA.rd.reaching(at, e.id):
            if d.kind == "assign" and d.index is None and _is_list_creation(d.value):
                out.append((d, None))
            elif d.kind == "assign" and d.index is None and isinstance(d.value, ast.Name) and d.node is not None:
                out += _static_alias(d.value, d.node, depth + 1)
            else:
                out.append((None, None))
        return out

    def appends_in(n) -> list[ast.Call]:
        if n.kind not in ("stmt", "test") or n.ast is None:
            return []
        return [c for c in [n.ast, *walk_no_nested(n.ast)] if isinstance(c, ast.Call) and isinstance(c.func, ast.Attribute) and c.func.attr == "append"]

    # routes[(call id, parameter)] = list of flag values under which the call appends to that parameter's list
    routes: dict[tuple[int, str], list[bool | None]] = {}
    sites: dict[int, ast.Call] = {}
    cfg = PA.cfg
    stack = [(s, [fnode], None, frozenset([fnode.id])) for s, l in fnode.succs if l != "exc"]
    steps = 0
    while stack:
        n, prefix, fv, seen = stack.pop()
        steps += 1
        if steps > 20000:
            raise AnalysisError("parse_etags: too many paths between the weakness flag and the appends")
        if n is cfg.exit or n is cfg.raise_exit or n.id in seen:
            continue
        for c in appends_in(n):
            for cre, v in resolve(c.func.value, prefix, n, fv):  # type: ignore[attr-defined]
                if cre in tracked:
                    routes.setdefault((id(c), tracked[cre]), []).append(v)
                    sites[id(c)] = c
        for s, l in n.succs:
            if l == "exc":
                continue
            v2 = fv
            if l in ("T", "F"):
                fe = flag_edge(n, l)
                if fe is not None:
                    if fv is not None and fv != fe:
                        continue  # contradicts an earlier test of the same flag
                    v2 = fe
            stack.append((s, prefix + [n], v2, seen | {n.id}))
    # appends to a tracked list that are not behind the flag binding at all
    for n in cfg.nodes:
        for c in appends_in(n):
            if id(c) in sites or not cfg.reachable(n):
                continue
            names = astq.names_in(c.func.value) & carriers  # type: ignore[attr-defined]
            if names:
                for pname in sorted({tracked[d] for d in tracked if d.name in names} or set(tracked.values())):
                    routes.setdefault((id(c), pname), []).append(None)
                sites[id(c)] = c
    for pname, want, what in (("weak_etags", True, "weak"), ("strong_etags", False, "strong")):
        mine = [(cid, vs) for (cid, pn), vs in routes.items() if pn == pname]
        if not mine:
            raise AnalysisError(f"parse_etags: nothing is appended to the list passed as {pname}")
        for cid, vs in sorted(mine, key=lambda p: (sites[p[0]].lineno, sites[p[0]].col_offset)):
            m = sites[cid]
            nlist += 1
            dom = cfg.node_dominates(fnode, PA.node(m))
            ok = dom and all(v is want for v in vs)
            seen_vals = sorted({"undecided" if v is None else ("set" if v else "not set") for v in vs})
            ctx.ob(R, f"parse_etags: the list passed as {pname} collects the {what} tags", ok, f"`{norm(m)}` files into the {what} list with the weakness flag `{flag}` {' / '.join(seen_vals)}" + ("" if dom else " (also reachable without binding the flag)"), pe, m, f"parse_etags {pname} append")
    ctx.floor(R, "parse_etags list wiring", nlist, 3)


def _alias_arms(e: ast.AST) -> list[ast.AST] | None:
    """arms of a (nested) conditional expression over names; None when e is anything else"""
    if isinstance(e, ast.Name):
        return [e]
    if isinstance(e, ast.IfExp):
        a, b = _alias_arms(e.body), _alias_arms(e.orelse)
        return None if a is None or b is None else a + b
    return None


def _flag_truth(test: ast.AST, flag: str) -> bool | None:
    """True: the condition is the flag's truth value; False: its negation; None: something else.
    (`flag`, `not flag`, `bool(flag)`, `flag is None`, `flag is not None`: group 1 is None or the marker text)"""
    e, n = H.strip_not(test)
    pos = n % 2 == 0
    if isinstance(e, ast.Call) and dotted(e.func) == "bool" and len(e.args) == 1 and not e.keywords:
        e = e.args[0]
    if astq.is_name(e, flag):
        return pos
    p = astq.cmp_parts(e)
    if p and astq.is_name(p[0], flag) and astq.is_none(p[2]):
        if isinstance(p[1], ast.Is):
            return not pos
        if isinstance(p[1], ast.IsNot):
            return pos
    return None


def _weak_flag(ctx: Ctx, PA: FA):
    """the local in parse_etags that tells a weak tag: bound from position 0 of ``<match>.groups()`` (or from
    ``<match>.group(1)`` / ``<match>[1]``) of a regex whose first group is the optional ``W/`` marker.
    -> (name, binding)"""
    pe = PA.fi
    found = []
    for ds in PA.rd.gen.values():
        for d in ds:
            v = d.value
            m = None
            if d.kind == "unpack" and d.index == 0 and isinstance(v, ast.Call) and isinstance(v.func, ast.Attribute) and v.func.attr == "groups" and not v.args:
                m = v.func.value
            elif d.kind in ("assign", "walrus") and d.index is None and isinstance(v, ast.Call) and isinstance(v.func, ast.Attribute) and v.func.attr == "group" and len(v.args) == 1 and isinstance(v.args[0], ast.Constant) and v.args[0].value == 1:
                m = v.func.value
            elif d.kind in ("assign", "walrus") and d.index is None and isinstance(v, ast.Subscript) and isinstance(v.slice, ast.Constant) and v.slice.value == 1:
                m = v.value
            if not isinstance(m, ast.Name) or d.node is None:
                continue
            mv = [x.value for x in PA.rd.reaching(d.node, m.id)]
            if len(mv) != 1 or not (isinstance(mv[0], ast.Call) and isinstance(mv[0].func, ast.Attribute) and mv[0].func.attr in ("match", "fullmatch", "search")):
                continue
            if dotted(mv[0].func.value) is None:
                continue
            found.append((d, mv[0]))
    if not found:
        raise AnalysisError("parse_etags: weakness flag (group 1 of the tag regex match) not found")
    if len(found) > 1:
        raise AnalysisError(f"parse_etags: several bindings of group 1 of a regex match: {[d.name for d, _ in found]}")
    d, mcall = found[0]
    fq = PA.resolve(mcall.func.value) or ""
    mn, _, nm = fq.rpartition(".")
    rx = Folder(ctx.repo).name(ctx.repo.module(mn), nm)
    if not isinstance(rx, RegexConst):
        raise AnalysisError(f"parse_etags: {fq} does not fold to a regex")
    cls0 = classes_in(rx)
    marker = bool(cls0) and cls0[0] == {ord("W"), ord("w")} and group_width(rx, 1) == (2, 2) and _opens_with_group_1(rx)
    ctx.ob("R11.1", "parse_etags: the weakness flag is group 1 of the tag regex, the W/ marker", marker, f"`{d.name}` <- {nm} = {rx.pattern!r}: first class {sorted(map(chr, cls0[0])) if cls0 else None}, group 1 width {group_width(rx, 1)}", pe, d.target if d.target is not None else d.stmt, "parse_etags weak flag group")
    return d.name, d


# ---------------------------------------------------------------------
# R11.2 precedence


def _verdict_table(ctx: Ctx, A: FA, T: H.VerdictTable) -> int:
    """the function's answer per path, with the conditions as abstract booleans, against the required table: whenever
    an ETag validator is evaluated (RFC 9110 13.2.2: If-Range tag when the If-Range gate is open, else If-Match, else
    If-None-Match) the answer is that comparison alone - the date verdict (or any earlier verdict) does not survive."""
    R = "R11.2"
    san = A.fi
    rows, bad = T.check()
    ctx.floor(R, "paths of is_resource_modified in the verdict table", len(T.outcomes), 6)
    want = {
        "IFR": "the answer is 'not modified' exactly when the tag matches",
        "IM": "the answer is 'modified' (precondition holds) exactly when If-Match admits the ETag, 'not modified' (412) exactly when it does not",
        "INM": "the answer is 'not modified' exactly when If-None-Match matches",
    }
    when = {
        "IFR": "If-Range is taken into account, a Range is sent and If-Range carries a tag",
        "IM": "If-Match is sent (without If-None-Match, no If-Range tag in force)",
        "INM": "If-None-Match is sent (without If-Match, no If-Range tag in force)",
    }
    n = 0
    for role in ("IFR", "INM", "IM"):
        mine = sorted((m for m in bad if m.role == role), key=lambda m: (m.row.get("ign_truthy") is not True, len(m.outcome.val)))
        if not rows[role]:
            raise AnalysisError(f"{san.fq}: the verdict table has no row in which {when[role]}")
        n += 1
        fact = f"{rows[role]} row(s) of the truth table (response has an ETag, {when[role]}; every other condition free) over {len(T.outcomes)} paths: " + (f"{len(mine)} contradict, e.g. {T.describe(mine[0])}" if mine else "all answer with the comparison alone")
        ctx.ob(R, f"{H._ROLE_NAME[role]} alone decides when {when[role]}: {want[role]}, whatever the dates say", not mine, fact, san, mine[0].outcome.ret if mine and mine[0].outcome.ret is not None else san.node, f"{role} decides alone")
    return n


def rule_2(ctx: Ctx, A: FA, T: H.VerdictTable) -> None:
    """precedence, decided on the value of the function's answer per path (not on the shape of the verdict statements:
    plain assignment / conditional set / early return / reordered validators give the same table)."""
    n = _verdict_table(ctx, A, T)
    ctx.floor("R11.2", "precedence obligations", n, 3)


# ---------------------------------------------------------------------
# R11.3 date comparison


def _from_param(A: FA, e: ast.AST, at, pname: str, depth: int = 0) -> bool:
    if depth > 8:
        return False
    for nm in [x for x in ast.walk(e) if isinstance(x, ast.Name)]:
        for d in A.rd.reaching(at, nm.id):
            if d.kind == "param":
                if d.name == pname:
                    return True
            elif d.value is not None and d.node is not None and d.node is not at:
                if _from_param(A, d.value, d.node, pname, depth + 1):
                    return True
    return False


class Chain:
    def __init__(self, base: str):
        self.base = base
        self.utc = False
        self.replaces: list[tuple[FA, ast.Call]] = []


def _unwind(A: FA, e: ast.AST, at, depth: int = 0) -> list[Chain]:
    """how the value of e (evaluated at CFG node `at`) was produced: one Chain per combination of reaching
    bindings; follows plain assignments, .replace(...) / _dt_as_utc(...) wrappers and one-argument package helpers."""
    if depth > 12:
        raise AnalysisError(f"{A.fi.fq}: value chain too deep at `{norm(e)}`")
    if isinstance(e, ast.Call):
        fq = A.resolve(e.func)
        if fq == "werkzeug._internal._dt_as_utc" and len(e.args) == 1 and not e.keywords:
            out = _unwind(A, e.args[0], at, depth + 1)
            for c in out:
                c.utc = True
            return out
        if isinstance(e.func, ast.Attribute) and e.func.attr == "replace":
            out = _unwind(A, e.func.value, at, depth + 1)
            for c in out:
                c.replaces.append((A, e))
            return out
        fi = A.callee(e)
        if fi is not None and fi.cls is None and len(e.args) == 1 and not e.keywords and len(H.call_params(fi, False)) >= 1:
            CA = FA(A.repo, fi)
            p0 = H.call_params(fi, False)[0]
            outs: list[Chain] = []
            for r in astq.returns_of(fi.node):
                if r.value is None or astq.is_none(r.value):
                    continue
                for ch in _unwind(CA, r.value, CA.node(r), depth + 1):
                    if ch.base == f"parameter {p0}":
                        for inner in _unwind(A, e.args[0], at, depth + 1):
                            inner.utc = inner.utc or ch.utc
                            inner.replaces += ch.replaces
                            outs.append(inner)
                    else:
                        outs.append(ch)
            return outs
        return [Chain(f"call {norm(e.func)}")]
    if isinstance(e, ast.Name):
        out = []
        for d in A.rd.reaching(at, e.id):
            if d.kind == "param":
                out.append(Chain(f"parameter {d.name}"))
            elif d.kind in ("assign", "walrus") and d.index is None and d.value is not None:
                out += _unwind(A, d.value, d.node, depth + 1)
            else:
                out.append(Chain(f"{d.kind} binding"))
        return out
    return [Chain(norm(e))]


def _naive_guarded(X: FA, call: ast.Call) -> bool:
    """`recv.replace(tzinfo=...)` sits on the true side of `recv.tzinfo is None`"""
    recv = norm(call.func.value)  # type: ignore[attr-defined]
    for t_, l in X.guards(call):
        p = astq.cmp_parts(t_.ast) if t_.ast is not None else None
        if p and norm(p[0]) == f"{recv}.tzinfo" and astq.is_none(p[2]) and ((isinstance(p[1], ast.Is) and l == "T") or (isinstance(p[1], ast.IsNot) and l == "F")):
            return True
    return False


def _bool_leaves(e: ast.AST) -> list[ast.AST]:
    """condition atoms of a boolean expression (and / or / not / bool(...) / a if c else b peeled off)"""
    if isinstance(e, ast.BoolOp):
        return [x for v in e.values for x in _bool_leaves(v)]
    if isinstance(e, ast.UnaryOp) and isinstance(e.op, ast.Not):
        return _bool_leaves(e.operand)
    if isinstance(e, ast.Call) and dotted(e.func) == "bool" and len(e.args) == 1 and not e.keywords:
        return _bool_leaves(e.args[0])
    if isinstance(e, ast.IfExp):
        return _bool_leaves(e.test) + _bool_leaves(e.body) + _bool_leaves(e.orelse)
    return [e]


def _bool_eval(e: ast.AST, val: dict[int, bool]) -> bool:
    if isinstance(e, ast.BoolOp):
        vs = [_bool_eval(v, val) for v in e.values]
        return all(vs) if isinstance(e.op, ast.And) else any(vs)
    if isinstance(e, ast.UnaryOp) and isinstance(e.op, ast.Not):
        return not _bool_eval(e.operand, val)
    if isinstance(e, ast.Call) and dotted(e.func) == "bool" and len(e.args) == 1 and not e.keywords:
        return _bool_eval(e.args[0], val)
    if isinstance(e, ast.IfExp):
        return _bool_eval(e.body if _bool_eval(e.test, val) else e.orelse, val)
    if isinstance(e, ast.Constant):
        return bool(e.value)
    return val[id(e)]


def rule_3(ctx: Ctx, A: FA, V: str, p_r: int) -> None:
    R = "R11.3"
    san = A.fi
    repo = ctx.repo
    ORD = (ast.Lt, ast.LtE, ast.Gt, ast.GtE, ast.Eq, ast.NotEq)

    def date_sides(cmp: ast.AST | None, at) -> tuple[ast.Name, ast.AST] | None:
        p = astq.cmp_parts(cmp) if cmp is not None else None
        if p is None or not isinstance(p[1], ORD):
            return None
        a, _, b = p
        if isinstance(a, ast.Name) and _from_param(A, a, at, "last_modified") and not _from_param(A, b, at, "last_modified"):
            return a, b
        if isinstance(b, ast.Name) and _from_param(A, b, at, "last_modified") and not _from_param(A, a, at, "last_modified"):
            return b, a
        return None

    # a comparison is either a branch condition (`if ... and lm <= ms: V = True`) or part of a boolean expression
    # stored in the verdict (`V = bool(ms and lm and lm <= ms)`): (node, compare, lm, other, verdict statement | None)
    # ... or sits in the expression a flag local was bound to, the flag being the branch condition
    # (`not_newer = bool(ms and lm and lm <= ms)` ... `if not_newer: V = True`): then an edge of the flag test stands for
    # whatever value of the comparison all valuations of the flag's conditions with that outcome agree on.
    comps: list[tuple] = []
    flag_of: dict[int, ast.AST] = {}  # id(compare) -> the flag's defining expression
    for t_ in A.cfg.tests():
        ds_ = date_sides(t_.ast, t_) if t_.kind == "test" else None
        if ds_ is not None:
            comps.append((t_, t_.ast, ds_[0], ds_[1], None))
        elif t_.kind == "test" and isinstance(t_.ast, ast.Name):
            fv = A.single_value(t_.ast)
            fn_ = A.cfg.node_of(fv) if fv is not None else None
            if fv is None or fn_ is None:
                continue
            for x in ast.walk(fv):
                ds_ = date_sides(x, fn_) if isinstance(x, ast.Compare) else None
                if ds_ is not None:
                    if not any(x is lf for lf in _bool_leaves(fv)):
                        raise AnalysisError(f"{san.fq}: the date comparison `{norm(x)}` is used inside `{norm(fv)[:70]}` other than as a condition of it")
                    flag_of[id(x)] = fv
                    comps.append((t_, x, ds_[0], ds_[1], None))

    def edge_facts(cmp_: ast.AST, l: str) -> set:
        """order facts that hold when the branch test the comparison belongs to takes edge l"""
        fv = flag_of.get(id(cmp_))
        if fv is None:
            return H.order_facts(cmp_, l)
        leaves = _bool_leaves(fv)
        seen_ = set()
        for bits in itertools.product((False, True), repeat=len(leaves)):
            val = {id(x): b_ for x, b_ in zip(leaves, bits)}
            if _bool_eval(fv, val) == (l == "T"):
                seen_.add(val[id(cmp_)])
        return H.order_facts(cmp_, "T" if True in seen_ else "F") if len(seen_) == 1 else set()

    def names_x(e_: ast.AST | None) -> set[str]:
        """names a condition depends on, a flag local counted as the names of the expression it was bound to"""
        out_: set[str] = set()
        tc_ = H.truth_core(e_) if e_ is not None else None
        if tc_ is not None:
            return names_x(tc_[0])  # bool(X) depends on what X depends on
        for x in ast.walk(e_) if e_ is not None else ():
            if isinstance(x, ast.Name):
                v_ = A.single_value(x) if isinstance(x.ctx, ast.Load) and A.cfg.node_of(x) is not None else None
                flagish = v_ is not None and (isinstance(v_, (ast.Compare, ast.BoolOp)) or H.truth_core(v_) is not None or (isinstance(v_, ast.UnaryOp) and isinstance(v_.op, ast.Not)))
                out_ |= names_x(v_) if flagish else {x.id}
        return out_

    for dn in A.def_nodes_of(V):
        st = dn.ast
        if isinstance(st, (ast.Assign, ast.AnnAssign)) and st.value is not None and not isinstance(st.value, ast.Constant):
            for x in ast.walk(st.value):
                ds_ = date_sides(x, dn) if isinstance(x, ast.Compare) else None
                if ds_ is not None:
                    comps.append((dn, x, ds_[0], ds_[1], st))
    ctx.floor(R, "date comparisons in is_resource_modified", len(comps), 1)
    for C, cmp, lm, other, vst in comps:
        # (1) direction: some edge means exactly lm <= other
        okey = other.id if isinstance(other, ast.Name) else None
        L = None
        if okey is not None:
            for l in ("T", "F"):
                if (lm.id, "<=", okey) in edge_facts(cmp, l):
                    L = l
        ctx.ob(R, "Last-Modified is compared as 'not later than' the client's date (equal dates match)", L is not None, f"`{norm(cmp)}`: {'its ' + ('true' if L == 'T' else 'false') + ' edge means ' + lm.id + ' <= ' + str(okey) if L else 'no edge of this test means ' + lm.id + ' <= ' + norm(other)}", san, cmp, "date comparison direction")
        if vst is None:
            # (2) the verdict set from it
            cands = []
            for dn in A.def_nodes_of(V):
                st = dn.ast
                if isinstance(st, ast.Assign) and isinstance(st.value, ast.Constant) and isinstance(st.value.value, bool):
                    for l in ("T", "F"):
                        if A.cfg.reachable(dn) and A.cfg.edge_dominates(C, l, dn):
                            cands.append((dn, st, l))
            if not cands:
                raise AnalysisError(f"{san.fq}: no constant verdict assignment depends on `{norm(cmp)}`")
            for dn, st, l in cands:
                facts = edge_facts(cmp, l)
                means_le = okey is not None and H.has_less(facts, lm.id, okey, strict=False)
                unmod = st.value.value == bool(p_r)
                ctx.ob(R, "the date verdict is 'not modified' exactly on the not-later side", means_le == unmod, f"`{norm(st)}` on the {'true' if l == 'T' else 'false'} side of `{norm(cmp)}` with `return {'not ' if p_r else ''}{V}`", san, st, "date verdict side")
                extra = []
                for t2, l2 in A.guards(dn):
                    if t2 is C and id(cmp) not in flag_of:
                        continue
                    nm = names_x(t2.ast)
                    if not nm <= {lm.id, okey}:
                        extra.append(f"{norm(t2.ast)} is {'true' if l2 == 'T' else 'false'}")
                ctx.ob(R, "the date verdict depends only on the two dates", not extra, f"additionally requires: {extra}" if extra else f"guards of `{norm(st)}` mention only {lm.id} / {okey}", san, st, "date verdict guards")
        else:
            # (2') the verdict is the value of a boolean expression over the comparison: enumerate its truth table
            leaves = _bool_leaves(vst.value)
            others = [x for x in leaves if x is not cmp]
            rows = []
            for bits in itertools.product((False, True), repeat=len(leaves)):
                val = {id(x): b_ for x, b_ in zip(leaves, bits)}
                rows.append((val, _bool_eval(vst.value, val) == bool(p_r)))
            unmod_rows = [val for val, u in rows if u]
            side_ok = L is not None and bool(unmod_rows) and all(val[id(cmp)] == (L == "T") for val in unmod_rows)
            ctx.ob(R, "the date verdict is 'not modified' exactly on the not-later side", side_ok, f"`{norm(vst)}` with `return {'not ' if p_r else ''}{V}`: not modified in {len(unmod_rows)} of {len(rows)} valuations of its {len(leaves)} condition(s)" + ("" if side_ok or L is None else f", not all of them with `{norm(cmp)}` {'true' if L == 'T' else 'false'}"), san, vst, "date verdict side")
            extra = [norm(x) for x in others if not astq.names_in(x) <= {lm.id, okey}]
            for t2, l2 in A.guards(C):
                nm = astq.names_in(t2.ast) if t2.ast is not None else set()
                if not nm <= {lm.id, okey}:
                    extra.append(f"{norm(t2.ast)} is {'true' if l2 == 'T' else 'false'}")
            ctx.ob(R, "the date verdict depends only on the two dates", not extra, f"additionally depends on: {extra}" if extra else f"`{norm(vst)}` mentions only {lm.id} / {okey}", san, vst, "date verdict guards")
        # (4) normalisation of every non-None value that reaches the comparison
        # edges taken only by a None (or falsy) value: the test itself, or a flag holding it (`has = lm is not None`)
        none_edges = H.proving_edges(A, lambda e_, l2, n2: H.none_proving(e_, l2) == lm.id)
        defnodes = A.def_nodes_of(lm.id)
        tot = {"utc": [], "sec": [], "fields": []}
        ndefs = 0
        Cn = A.cfg.node_of(cmp) or C  # where the comparison is evaluated (the test, or the statement binding the flag)
        for d in A.rd.reaching(Cn, lm.id):
            start = d.node if d.node is not None else A.cfg.entry
            others = [x for x in defnodes if x is not d.node]
            r = A.cfg.reach(start, avoid_nodes=others, avoid_edges=none_edges)
            if Cn.id not in r:
                continue  # this binding only arrives as None
            if d.kind in ("assign", "walrus") and d.index is None and d.value is not None and astq.is_none(d.value):
                continue  # `lm = None`: not a value
            ndefs += 1
            if d.kind == "param":
                chains = [Chain(f"parameter {d.name}")]
            elif d.kind in ("assign", "walrus") and d.index is None and d.value is not None:
                chains = _unwind(A, d.value, d.node)
            else:
                chains = [Chain(f"{d.kind} binding")]
            for ch in chains:
                desc = f"{norm(d.stmt) if d.stmt is not None else d.kind} <- {ch.base}"
                if not ch.utc:
                    tot["utc"].append(desc)
                if not any(any(k.arg == "microsecond" and isinstance(k.value, ast.Constant) and k.value.value == 0 for k in rc.keywords) for _, rc in ch.replaces):
                    tot["sec"].append(desc)
                for RA, rc in ch.replaces:
                    kws = sorted(k.arg or "**" for k in rc.keywords) + ["<positional>"] * len(rc.args)
                    if kws == ["tzinfo"] and _naive_guarded(RA, rc):
                        continue  # marking a naive value, as _dt_as_utc / parse_date do
                    if set(kws) - {"microsecond"} and f"`{norm(rc)}` sets {kws}" not in tot["fields"]:
                        tot["fields"].append(f"`{norm(rc)}` sets {kws}")
        if not ndefs:
            raise AnalysisError(f"{san.fq}: no binding of `{lm.id}` reaches `{norm(cmp)}` as a value")
        ctx.ob(R, "every Last-Modified value reaching the comparison went through _dt_as_utc (naive: marked UTC, aware: converted)", not tot["utc"], f"not normalised: {tot['utc']}" if tot["utc"] else f"{ndefs} non-None binding(s) of `{lm.id}`, all through _dt_as_utc", san, cmp, "date comparison utc")
        ctx.ob(R, "every Last-Modified value reaching the comparison had its microseconds cleared", not tot["sec"], f"no replace(microsecond=0) on: {tot['sec']}" if tot["sec"] else "replace(microsecond=0) on every chain", san, cmp, "date comparison whole seconds")
        ctx.ob(R, "replace() on the way to the comparison changes nothing but the microseconds (no relabelled tzinfo, no coarser resolution)", not tot["fields"], "; ".join(tot["fields"]) if tot["fields"] else "only microsecond is replaced", san, cmp, "date comparison replace fields")

    # (5) _dt_as_utc itself: relabel only naive values, convert the others
    fu = repo.func("werkzeug._internal._dt_as_utc")
    U = FA(repo, fu)
    dt = [p for p in fu.params][0]

    def is_utc(e: ast.AST) -> bool:
        return (U.resolve(e) or "") == "datetime.timezone.utc"

    def tz_atom(e_: ast.AST | None) -> str | None:
        """'naive' / 'utc' : what the TRUE edge of the atom says about dt.tzinfo (prefixed with ! for the false edge meaning it)"""
        p = astq.cmp_parts(e_) if e_ is not None else None
        if p is None:
            return None
        a, op, b = p
        if norm(b) == f"{dt}.tzinfo":
            a, b = b, a
        if norm(a) != f"{dt}.tzinfo":
            return None
        if astq.is_none(b):
            return "naive" if isinstance(op, ast.Is) else "!naive" if isinstance(op, ast.IsNot) else None
        if is_utc(b):
            return "utc" if isinstance(op, (ast.Eq, ast.Is)) else "!utc" if isinstance(op, (ast.NotEq, ast.IsNot)) else None
        return None

    nret = {"relabel": 0, "convert": 0}
    expanded = H.expand_returns(fu.node)
    for r, v, extra in expanded:
        rn = U.node(r)
        known = set()
        for e_, l in [(t_.ast, l) for t_, l in U.guards(rn)] + extra:
            k = tz_atom(e_)
            if k is not None:
                neg = k.startswith("!")
                k = k.lstrip("!")
                holds = (l == "T") != neg
                known.add(k if holds else "not-" + k)
            if e_ is not None and H.none_proving(e_, l) == dt:
                known.add("none")
        kind = "other"
        if v is None or astq.is_none(v):
            kind = "unchanged"
            ok = "none" in known
            why = "None is returned only for None"
        elif isinstance(v, ast.Name) and v.id == dt:
            kind = "unchanged"
            ok = "none" in known or "utc" in known
            why = "returned unchanged only when it is None or already UTC"
        elif isinstance(v, ast.Call) and isinstance(v.func, ast.Attribute) and astq.is_name(v.func.value, dt) and v.func.attr == "replace":
            kind = "relabel"
            ok = "naive" in known and not v.args and [k.arg for k in v.keywords] == ["tzinfo"] and is_utc(v.keywords[0].value)
            why = "tzinfo is attached (replace) only to a naive value"
        elif isinstance(v, ast.Call) and isinstance(v.func, ast.Attribute) and astq.is_name(v.func.value, dt) and v.func.attr == "astimezone":
            kind = "convert"
            ok = "not-naive" in known and len(v.args) == 1 and is_utc(v.args[0])
            why = "an aware value is converted with astimezone(timezone.utc)"
        else:
            ok = False
            why = "unrecognised result"
        if kind in nret:
            nret[kind] += 1
        ctx.ob(R, f"_dt_as_utc: {why}", ok, f"`return {norm(v) if v is not None else ''}` under {sorted(known)}", fu, r, f"_dt_as_utc return {kind} {norm(v) if v is not None else ''}")
    ctx.floor(R, "_dt_as_utc results", len(expanded), 2)
    ctx.ob(R, "_dt_as_utc has a branch that converts aware values (astimezone) and one that marks naive values", nret["convert"] >= 1 and nret["relabel"] >= 1, f"astimezone returns: {nret['convert']}, replace(tzinfo=) returns: {nret['relabel']}", fu, fu.node, "_dt_as_utc branches")


# ---------------------------------------------------------------------
# R11.4 gates

RESP = "werkzeug.wrappers.response.Response"


def _method(ctx: Ctx, cls: ClassInfo, name: str) -> FuncInfo:
    o, m = ctx.repo.lookup(cls, name)
    if not isinstance(m, FuncInfo):
        raise AnchorMissing(f"{cls.name}.{name} not found")
    return m


class IrmUse(t.NamedTuple):
    """one *use* of http.is_resource_modified in a function: the expression whose truth is (the negation of) the
    verdict, and the arguments the verdict is computed from *at this use* - written in the using function's own terms."""

    site: ast.Call  # the expression in the using function: the call itself, or the call of a helper that wraps it
    neg: int  # number of `not` between the helper's result and the call (0: the site is true iff modified)
    args: dict[str, ast.AST]  # parameter of http.is_resource_modified -> argument expression (helper parameters replaced)
    via: tuple[FuncInfo, ...]  # helpers the use goes through (outermost first)


class _Subst(ast.NodeTransformer):
    def __init__(self, env: dict[str, ast.AST]):
        self.env = env

    def visit_Name(self, n: ast.Name) -> ast.AST:
        if isinstance(n.ctx, ast.Load) and n.id in self.env:
            return copy.deepcopy(self.env[n.id])
        return n

    def visit_Lambda(self, n: ast.Lambda) -> ast.AST:
        return n


def _wrapped_call(e: ast.AST) -> tuple[ast.AST, int]:
    """(X, n): the truth of e is the truth of X negated n times, by the form of the expression alone"""
    n = 0
    for _ in range(8):
        e, k = H.strip_not(e)
        n += k
        tc = H.truth_core(e)
        if tc is None:
            break
        e = tc[0]
        n += 0 if tc[1] else 1
    return e, n


def _transparent_helper(fi: FuncInfo) -> tuple[ast.AST, dict[str, ast.AST]] | None:
    """a helper whose whole effect is `return <expr>`: optional docstring, plain assignments that bind a local name
    once, one return.  -> (returned expression, local name -> bound expression); None for any other body."""
    body = list(fi.node.body)  # type: ignore[attr-defined]
    if body and isinstance(body[0], ast.Expr) and isinstance(body[0].value, ast.Constant) and isinstance(body[0].value.value, str):
        body = body[1:]
    if not body or not isinstance(body[-1], ast.Return) or body[-1].value is None:
        return None
    local: dict[str, ast.AST] = {}
    for s in body[:-1]:
        if isinstance(s, ast.Assign) and len(s.targets) == 1 and isinstance(s.targets[0], ast.Name):
            nm, val = s.targets[0].id, s.value
        elif isinstance(s, ast.AnnAssign) and isinstance(s.target, ast.Name) and s.value is not None:
            nm, val = s.target.id, s.value
        else:
            return None
        if nm in local or nm in fi.params or any(isinstance(x, (ast.NamedExpr, ast.Yield, ast.YieldFrom, ast.Await)) for x in ast.walk(val)):
            return None
        local[nm] = _Subst(dict(local)).visit(copy.deepcopy(val))
    if any(isinstance(x, (ast.NamedExpr, ast.Yield, ast.YieldFrom, ast.Await)) for x in ast.walk(body[-1].value)):
        return None
    return body[-1].value, local


def _irm_use(ctx: Ctx, X: FA, e: ast.AST | None, depth: int = 0) -> IrmUse | None:
    """`e` as a use of http.is_resource_modified: the call itself, or a call of a private helper (method of the same
    object, function of the package) that does nothing but return the (negated) verdict of such a call.  The
    arguments of the inner call are translated to the call site: a helper parameter stands for the argument passed
    here (or its default), a helper local for the expression it was bound to - so every rule about "the arguments of
    is_resource_modified" is a rule about each *use*, however many uses share one wrapper."""
    if not isinstance(e, ast.Call) or depth > 3:
        return None
    repo = ctx.repo
    if X.resolve(e.func) == WRAP:
        return IrmUse(e, 0, H.bind(e, repo.func(WRAP), bound=False), ())
    helper: FuncInfo | None = None
    bound = False
    recv: ast.AST | None = None
    f = e.func
    if isinstance(f, ast.Attribute) and isinstance(f.value, ast.Name) and X.fi.cls is not None and X.fi.params and f.value.id == X.fi.params[0]:
        _o, m = repo.lookup(X.fi.cls, f.attr)
        if isinstance(m, FuncInfo) and not m.decorators:
            helper, bound, recv = m, True, f.value
    elif isinstance(f, ast.Name):
        helper = X.callee(e)
        if helper is not None and (helper.cls is not None or helper.decorators):
            helper = None
    if helper is None or helper.fq == X.fi.fq:
        return None
    shape = _transparent_helper(helper)
    if shape is None:
        return None
    ret, local = shape
    inner_e, n = _wrapped_call(_Subst(local).visit(copy.deepcopy(ret)))
    HX = FA(repo, helper)
    inner = _irm_use(ctx, HX, inner_e, depth + 1)
    if inner is None:
        return None
    ctx.saw(helper)
    b = H.bind(e, helper, bound=bound)
    env: dict[str, ast.AST] = {}
    names = H.call_params(helper, bound) + [x.arg for x in helper.node.args.kwonlyargs]  # type: ignore[attr-defined]
    for p in names:
        v = b.get(p, H.param_default(helper, p))
        if v is None:
            raise AnalysisError(f"{X.fi.fq}: `{norm(e)}` does not pass `{p}` to {helper.fq}, which has no default for it")
        env[p] = v
    if bound and recv is not None and helper.params:
        env[helper.params[0]] = recv
    args = {p: ast.fix_missing_locations(_Subst(env).visit(copy.deepcopy(v))) for p, v in inner.args.items()}
    return IrmUse(e, n + inner.neg, args, (helper,) + inner.via)


def _bound_at(X: FA, site) -> t.Callable[[ast.Name], ast.AST | None]:
    """name use -> the expression the name was bound to, when it is a local of X bound by one plain assignment: the only
    binding visible at ``site`` (a CFG node), or - the site unknown because the expression is a translated copy - the only
    binding of that name in the whole function (a parameter or a name bound twice stands for nothing)."""

    def look(n: ast.Name) -> ast.AST | None:
        if site is not None:
            ds = list(X.defs_at(site, n.id))
        else:
            ds = [d for nd in X.def_nodes_of(n.id) for d in X.rd.gen[nd.id] if d.name == n.id]
            if n.id in X.fi.params:
                return None
        d = ds[0] if len(ds) == 1 else None
        if d is None or d.kind not in ("assign", "walrus") or d.index is not None or d.value is None:
            return None
        return d.value

    return look


def _to_caller(HX: FA, e: ast.AST, env: dict[str, ast.AST]) -> ast.AST:
    """an expression of a private helper written in its caller's terms: a parameter stands for the argument of the call,
    a local of the helper bound by one plain assignment for the expression it was bound to (so nothing of the helper's
    own namespace is left in expressions over parameters, attributes and calls)"""

    class T(ast.NodeTransformer):
        depth = 0

        def visit_Name(self, n: ast.Name) -> ast.AST:
            if not isinstance(n.ctx, ast.Load):
                return n
            if n.id in env:
                return copy.deepcopy(env[n.id])
            v = _bound_at(HX, None)(n)
            if v is not None and self.depth < 6:
                self.depth += 1
                try:
                    return self.visit(copy.deepcopy(v))
                finally:
                    self.depth -= 1
            return n

        def visit_Lambda(self, n: ast.Lambda) -> ast.AST:
            return n

    return ast.fix_missing_locations(T().visit(copy.deepcopy(e)))


def _irm_args(ctx: Ctx, X: FA, call: ast.Call | IrmUse, want_ignore: bool, at=None) -> tuple[bool, str]:
    """the is_resource_modified call compares against the response's own validators (``at``: the CFG node of X at
    which the arguments are read, when the call expression is a translated copy)"""
    wrap = ctx.repo.func(WRAP)
    b = dict(call.args if isinstance(call, IrmUse) else H.bind(call, wrap, bound=False))
    site = X.cfg.node_of(call.site if isinstance(call, IrmUse) else call) or at
    look = _bound_at(X, site)

    def behind(e: ast.AST | None) -> ast.AST | None:
        """an argument that is a local of the using function bound once (`etag = self.headers.get("etag")` before the
        call) stands for the expression it was bound to; the argument may be a copy (translated through a helper), so
        the binding is looked up by name at the use"""
        for _ in range(3):
            v = look(e) if isinstance(e, ast.Name) else None
            if v is None:
                break
            e = v
        return e

    for p in ("etag", "last_modified", "data", "ignore_if_range"):
        if p in b:
            b[p] = behind(b[p])  # type: ignore[assignment]
    parts = []
    ok = True
    for p, hdr in (("etag", "etag"), ("last_modified", "last-modified")):
        hk = H.header_get_key(b[p], look) if p in b else None
        good = hk is not None and hk[0] == "self.headers" and hk[1].lower() == hdr
        ok = ok and good
        parts.append(f"{p}={norm(b[p]) if p in b else 'absent'}")
    d = b.get("data")
    ok = ok and (d is None or astq.is_none(d))
    ig = b.get("ignore_if_range", H.param_default(wrap, "ignore_if_range"))
    good = isinstance(ig, ast.Constant) and ig.value is want_ignore
    ok = ok and good
    parts.append(f"ignore_if_range={norm(ig) if ig is not None else None}")
    if isinstance(call, IrmUse) and call.via:
        parts.append(f"at the use `{norm(call.site)[:60]}` (through {', '.join(h.name for h in call.via)})")
    return ok, ", ".join(parts)


def _status_code_of(v: ast.AST | None) -> int | None:
    if isinstance(v, ast.Constant) and isinstance(v.value, int) and not isinstance(v.value, bool):
        return v.value
    if isinstance(v, ast.Constant) and isinstance(v.value, str) and v.value[:3].isdigit():
        return int(v.value[:3])
    return None


def _private_callee(A: FA, call: ast.Call) -> tuple[FuncInfo, bool, ast.AST | None] | None:
    """(helper, called bound, receiver) for `self.h(...)` (plain or static method of the same class) or `h(...)` (plain
    function of the package); None for anything else"""
    repo = A.repo
    f = call.func
    if isinstance(f, ast.Attribute) and isinstance(f.value, ast.Name) and A.fi.cls is not None and A.fi.params and f.value.id == A.fi.params[0]:
        _o, m = repo.lookup(A.fi.cls, f.attr)
        if isinstance(m, FuncInfo) and m.fq != A.fi.fq:
            if not m.decorators:
                return m, True, f.value
            if m.decorators == ["staticmethod"]:
                return m, False, None
    elif isinstance(f, ast.Name):
        h = A.callee(call)
        if h is not None and h.cls is None and not h.decorators and h.fq != A.fi.fq:
            return h, False, None
    return None


def _status_helper_arms(A: FA, call: ast.Call) -> list[tuple[int, list[tuple[ast.AST, str]]]] | None:
    """`self.status_code = self._pick_status(environ)`: the status chosen by a private helper all of whose returns are
    constant status codes -> one (code, condition literals) per return, the literals being the helper's own dominating
    conditions (flags expanded) written in the caller's terms (parameters replaced by the arguments of this call).
    None when the callee is not such a helper."""
    pc = _private_callee(A, call)
    if pc is None:
        return None
    helper, bound, recv = pc
    try:
        b = H.bind(call, helper, bound=bound)
    except AnalysisError:
        return None
    HX = FA(A.repo, helper)
    env: dict[str, ast.AST] = {}
    for p_ in H.call_params(helper, bound) + [x.arg for x in helper.node.args.kwonlyargs]:  # type: ignore[attr-defined]
        v = b.get(p_, H.param_default(helper, p_))
        if v is None:
            return None
        env[p_] = v
    if bound and recv is not None and helper.params:
        env[helper.params[0]] = recv
    for p_ in env:
        if any(d.kind != "param" for n_ in HX.def_nodes_of(p_) for d in HX.rd.gen[n_.id] if d.name == p_):
            return None  # a parameter rebound in the helper no longer stands for the argument
    arms: list[tuple[int, list[tuple[ast.AST, str]]]] = []
    rets = H.expand_returns(helper.node)
    if not rets:
        return None
    for r, v, extra in rets:
        code = _status_code_of(v)
        if code is None:
            return None
        lits = H.guard_literals(HX, r, extra)
        arms.append((code, [(ast.fix_missing_locations(_Subst(env).visit(copy.deepcopy(e_))), l) for e_, l in lits]))
    return arms


def _status_stores_c(fn: ast.AST, A: FA | None = None) -> list[tuple[ast.Assign, int, list[tuple[ast.AST, str]]]]:
    """(statement, status code, extra condition atoms) for `self.status_code = <const>` and for each arm of
    `self.status_code = <const> if c else <const>` (or of a two-entry table of constants indexed by a truth value;
    the stored value may also come through a local bound once)."""

    def lookup(n: ast.Name) -> ast.AST | None:
        if A is None:
            return None
        try:
            v = A.single_value(n)
        except AnalysisError:
            v = None
        if v is None and not A.defs_at(A.node(n), n.id):
            try:
                c = Folder(A.repo).name(A.fi.module, n.id)
            except AnalysisError:
                return None
            if isinstance(c, (dict, tuple, list)) and len(c) == 2:
                try:
                    return ast.parse(repr(c), mode="eval").body
                except (SyntaxError, ValueError):
                    return None
        return v

    out = []
    for s in walk_no_nested(fn):
        if isinstance(s, ast.Assign) and len(s.targets) == 1 and (astq.is_self_attr(s.targets[0], "status_code") or astq.is_self_attr(s.targets[0], "status")):
            val = s.value
            if isinstance(val, ast.Name) and A is not None:  # code = 412 if if_match else 304; self.status_code = code
                try:
                    sv = A.single_value(val)
                    ds = A.defs(val)
                except AnalysisError:
                    sv, ds = None, frozenset()
                if sv is not None:
                    val = sv
                elif len(ds) > 1 and all(d.kind == "assign" and d.index is None and d.value is not None and d.node is not None for d in ds):
                    # `status = 412` / `status = 304` chosen by branches, stored once afterwards: each binding that
                    # reaches the store is a store of its value under the conditions of the binding as well
                    for d in sorted(ds, key=lambda d: d.node.id):
                        for v, conds in H.split_ifexp(d.value, (), lookup):
                            code = _status_code_of(v)
                            if code is not None:
                                atoms = [x for c, l in conds for x in H.cond_atoms(c, l)]
                                out.append((s, code, atoms + H.guard_literals(A, d.node)))
                    continue
            for v, conds in H.split_ifexp(val, (), lookup):
                code = _status_code_of(v)
                atoms: list[tuple[ast.AST, str]] = []
                for c, l in conds:
                    atoms += H.cond_atoms(c, l)
                if code is not None:
                    out.append((s, code, atoms))
                elif isinstance(v, ast.Call) and A is not None:  # the status is picked by a private helper
                    for code, lits in _status_helper_arms(A, v) or []:
                        out.append((s, code, atoms + lits))
    out.sort(key=lambda p: p[0].lineno)
    return out


def _status_stores(fn: ast.AST) -> list[tuple[ast.Assign, int]]:
    return [(s, code) for s, code, _ in _status_stores_c(fn)]


def rule_4(ctx: Ctx) -> None:
    R = "R11.4"
    repo = ctx.repo
    resp = repo.cls(RESP)
    mc = _method(ctx, resp, "make_conditional")
    M = FA(repo, mc)
    folder = Folder(repo)

    def gate_lit(e_: ast.AST, l: str):
        """(text of environ, collection, positive?) when the literal is a membership test on environ['REQUEST_METHOD']"""
        p = astq.cmp_parts(e_)
        if p and isinstance(p[1], (ast.In, ast.NotIn)):
            subj = p[0]
            if isinstance(subj, ast.Name):  # method = environ["REQUEST_METHOD"]
                subj = M.single_value(subj) or subj
            hk = H.header_get_key(subj)
            if hk and hk[1] == "REQUEST_METHOD":
                return hk[0], p[2], isinstance(p[1], ast.In) == (l == "T")
        return None

    # the method gate: the test edge that means "REQUEST_METHOD in <collection>" (the test itself, or a flag holding it)
    gate = None
    for t_ in M.cfg.tests():
        if t_.kind != "test" or t_.ast is None:
            continue
        for GL_ in ("T", "F"):
            for e_, l in H.expand_literal(M, t_.ast, GL_):
                g_ = gate_lit(e_, l)
                if g_ is not None and g_[2]:
                    gate = (t_, GL_, g_[0], g_[1])
    if gate is None:
        raise AnalysisError(f"{mc.fq}: no membership test on environ['REQUEST_METHOD']")
    G, GL, env_name, coll = gate
    try:
        methods = set(folder.expr(mc.module, coll))
    except AnalysisError as e:
        raise AnalysisError(f"{mc.fq}: cannot fold the method collection `{norm(coll)}`: {e}")
    ctx.ob(R, "conditional processing applies to exactly GET and HEAD", methods == {"GET", "HEAD"}, f"`{norm(G.ast)}`: {sorted(methods)}", mc, G.ast, "method set")

    prc = [c for c in M.method_calls("_process_range_request") if astq.is_name(c.func.value, "self")]  # type: ignore[attr-defined]
    if not prc:
        raise AnalysisError(f"{mc.fq}: no call of self._process_range_request")
    for c in prc:
        ctx.ob(R, "range processing only for GET/HEAD", M.dominated_by(c, G, GL), f"`{norm(c)[:60]}` {'is' if M.dominated_by(c, G, GL) else 'is NOT'} dominated by `{norm(G.ast)}`", mc, c, "range call gated")
        pr = _method(ctx, resp, "_process_range_request")
        b = H.bind(c, pr, bound=True)
        cl = b.get("complete_length")
        ok = isinstance(cl, ast.Name) and cl.id == "complete_length" and _only_param_def(M, cl, "complete_length")
        ctx.ob(R, "make_conditional hands its complete_length to range processing", ok, f"complete_length={norm(cl) if cl is not None else 'absent'}", mc, c, "range call complete_length")
        e = b.get("environ")
        ctx.ob(R, "range processing reads the same environ as the method test", e is not None and norm(e) == env_name, f"environ={norm(e) if e is not None else 'absent'}, method test reads `{env_name}`", mc, c, "range call environ")

    # conditions are read as *literals*: every dominating test edge (and every arm condition of a conditional
    # expression / two-entry table choosing the status) expanded to what it tests - a flag local stands for its
    # defining expression wherever it was bound, bool(X) for X, `not` flips the side, a true conjunction gives each
    # member (H.expand_literal).  A literal is then recognised by what it is, not by where it is written.
    uses: dict[int, IrmUse | None] = {}

    def irm_use(e_: ast.AST) -> IrmUse | None:
        """the literal as a use of is_resource_modified (the call, or a helper that returns its verdict)"""
        if id(e_) not in uses:
            uses[id(e_)] = _irm_use(ctx, M, e_)
        return uses[id(e_)]

    def is_irm(e_: ast.AST) -> bool:
        return irm_use(e_) is not None

    def says_unmodified(e_: ast.AST, l: str) -> bool:
        u = irm_use(e_)
        return u is not None and l == ("F" if u.neg % 2 == 0 else "T")

    is206 = {d.name for ds in M.rd.gen.values() for d in ds if d.value is not None and any(d.value is c for c in prc)}

    def is_prc(e_: ast.AST) -> bool:
        """the result of range processing (the call, or a local that holds it on some path: "not already 206")"""
        return any(e_ is c for c in prc) or (isinstance(e_, ast.Name) and e_.id in is206)

    def im_header(e_: ast.AST | None) -> tuple[str, str] | None:
        """(environ text, key) when the literal is parse_etags(<environ>.get(<key>)) - its truth: that header has tags"""
        if not (isinstance(e_, ast.Call) and M.resolve(e_.func) == "werkzeug.http.parse_etags" and len(e_.args) == 1 and not e_.keywords):
            return None
        a0 = e_.args[0]
        if isinstance(a0, ast.Name) and M.cfg.node_of(a0) is not None:  # raw = environ.get("HTTP_IF_MATCH"); parse_etags(raw)
            a0 = M.single_value(a0) or a0
        return H.header_get_key(a0)

    def im_expr(e_: ast.AST | None) -> bool:
        return im_header(e_) == (env_name, "HTTP_IF_MATCH")

    def about_if_match(x: ast.AST) -> bool:
        return (isinstance(x, ast.Constant) and x.value == "HTTP_IF_MATCH") or (isinstance(x, ast.Call) and M.resolve(x.func) == "werkzeug.http.parse_etags")

    # the 304/412 decision moved into a private method of the response (`self._apply_preconditions(environ)`): its
    # stores are stores of make_conditional under the conditions of the call *and* the helper's own conditions, the
    # latter written in make_conditional's terms (parameters -> arguments, helper locals -> what they were bound to)
    helper_ctx: list[tuple[FA, dict[str, ast.AST], ast.Call, list]] = []
    for c in sorted(astq.calls(mc.node, nested=False), key=lambda c: (c.lineno, c.col_offset)):
        pc = _private_callee(M, c)
        if pc is None or not pc[1]:
            continue
        helper, _bound, recv = pc
        HX = FA(repo, helper)
        hs = [(s, code, extra) for s, code, extra in _status_stores_c(helper.node, HX) if code in (304, 412)]
        if not hs:
            continue
        hb = H.bind(c, helper, bound=True)
        env: dict[str, ast.AST] = {}
        for p_ in H.call_params(helper, True) + [x.arg for x in helper.node.args.kwonlyargs]:  # type: ignore[attr-defined]
            v = hb.get(p_, H.param_default(helper, p_))
            if v is None:
                raise AnalysisError(f"{mc.fq}: `{norm(c)}` does not pass `{p_}` to {helper.fq}")
            env[p_] = v
        env[helper.params[0]] = recv  # type: ignore[assignment]
        for p_ in env:
            if any(d.kind != "param" for n_ in HX.def_nodes_of(p_) for d in HX.rd.gen[n_.id] if d.name == p_):
                raise AnalysisError(f"{helper.fq}: rebinds its parameter `{p_}`; the status decision in it is not followed")
        ctx.saw(helper)
        helper_ctx.append((HX, env, c, hs))

    irm_uses = [(u, mc, None) for c in sorted(astq.calls(mc.node, nested=False), key=lambda c: (c.lineno, c.col_offset)) for u in [irm_use(c)] if u is not None]
    for HX, env, c, _hs in helper_ctx:
        for hc in sorted(astq.calls(HX.fi.node, nested=False), key=lambda c: (c.lineno, c.col_offset)):
            if _irm_use(ctx, HX, hc) is not None:
                u = irm_use(_to_caller(HX, hc, env))
                if u is None:
                    raise AnalysisError(f"{HX.fi.fq}: `{norm(hc)[:70]}` is not understood in terms of {mc.name}")
                irm_uses.append((u, HX.fi, M.node(c)))
    if not irm_uses:
        raise AnalysisError(f"{mc.fq}: no test on is_resource_modified(...)")
    for u, where, at in irm_uses:
        ok, fact = _irm_args(ctx, M, u, True, at)
        b = u.args
        ok = ok and "environ" in b and norm(b["environ"]) == env_name
        ctx.ob(R, "304/412 are decided against the response's own ETag and Last-Modified, If-Range not considered", ok, fact, where, u.site, "make_conditional is_resource_modified arguments")

    # (statement, code, literals, gated by the method test, where)
    stores: list[tuple[ast.stmt, int, list[tuple[ast.AST, str]], bool, FuncInfo]] = []
    for s, code, extra in _status_stores_c(mc.node, M):
        if code in (304, 412):
            sn = M.node(s)
            stores.append((s, code, H.guard_literals(M, sn, extra), (G, GL) in M.guards(sn), mc))
    for HX, env, c, hs in helper_ctx:
        cn = M.node(c)
        outer = H.guard_literals(M, cn)
        for s, code, extra in hs:
            inner = [(_to_caller(HX, e_, env), l) for e_, l in H.guard_literals(HX, HX.node(s), extra)]
            stores.append((s, code, outer + inner, (G, GL) in M.guards(cn), HX.fi))
    if not any(code == 304 for _, code, _, _, _ in stores):
        raise AnalysisError(f"{mc.fq}: no assignment of status 304")
    ctx.floor(R, "304/412 assignments in make_conditional", len(stores), 2)
    for s, code, lits, gated, where_s in stores:
        ctx.ob(R, f"status {code} only for GET/HEAD", gated, f"`{norm(s)}`{'' if where_s is mc else ' (in ' + where_s.name + ')'} {'is' if gated else 'is NOT'} dominated by `{norm(G.ast)}`", where_s, s, f"status {code} gated")
        shown = [norm(e_)[:40] + ('' if l == 'T' else ' is false') for e_, l in lits]
        nm = [e_ for e_, l in lits if says_unmodified(e_, l)]
        if not nm:
            # a condition that involves the call in a way that is not read as its truth value: not understood,
            # which is not the same as "not guarded"
            odd = H.misread(M, lits, is_irm)
            if odd is not None:
                raise AnalysisError(f"{mc.fq}: status {code} is under `{norm(odd)[:70]}`, which involves is_resource_modified(...) in a way that is not understood")
        ctx.ob(R, f"status {code} only when is_resource_modified says not modified", bool(nm), f"`{norm(s)}` guards: {shown}", where_s, s, f"status {code} needs not-modified")
        want = "T" if code == 412 else "F"
        hit = [e_ for e_, l in lits if l == want and im_expr(e_)]
        if not hit:
            odd = H.misread(M, lits, lambda x: im_header(x) is not None, about_if_match)  # a parse of another header is understood (and wrong)
            if odd is not None:
                raise AnalysisError(f"{mc.fq}: status {code} is under `{norm(odd)[:70]}`, which involves If-Match in a way that is not understood")
        ctx.ob(R, "status 412 only under a non-empty If-Match" if code == 412 else "status 304 only without If-Match (a failed If-Match is 412)", bool(hit), f"status {code} in `{norm(s)}` {'is' if hit else 'is NOT'} on the {'true' if want == 'T' else 'false'} side of a parse_etags({env_name}.get('HTTP_IF_MATCH')) test", where_s, s, f"status {code} If-Match side")
        if code == 304:
            more = [f"{norm(e_)} is {'true' if l == 'T' else 'false'}" for e_, l in lits if not (gate_lit(e_, l) is not None or is_irm(e_) or im_expr(e_) or is_prc(e_))]
            ctx.ob(R, "304 follows whenever the validators match for GET/HEAD (no further condition)", not more, f"additionally requires: {more}" if more else "guards: method test, not-modified, no If-Match (and not already 206)", where_s, s, "status 304 guards")

    # ---- the 206 path inside _process_range_request
    pr = _method(ctx, resp, "_process_range_request")
    P = FA(repo, pr)

    def is_proc(e_: ast.AST) -> bool:
        return isinstance(e_, ast.Call) and isinstance(e_.func, ast.Attribute) and astq.is_name(e_.func.value, "self") and e_.func.attr == "_is_range_request_processable"

    nproc = len([c for c in P.method_calls("_is_range_request_processable") if is_proc(c)])

    # what "processable" means, decided on values when no dominating `self._is_range_request_processable(...)` test is
    # found (the predicate inlined, split into guard clauses, merged with other conditions): the function is walked
    # under every valuation of R (Range sent), I (If-Range sent), U (is_resource_modified with ignore_if_range=False
    # says modified) that is NOT processable - R false, or I and U both true - every other condition free; a 206 effect
    # that such a walk passes is not gated.
    env_p = "environ" if "environ" in pr.params else None
    sem_uses: list[IrmUse] = []

    def gate_truth(e_: ast.AST, v: dict[str, bool], depth: int = 0) -> bool | None:
        """truth of a condition under the valuation; None: not determined by R, I, U"""
        if depth > 8:
            return None
        e1, k = H.strip_not(e_)
        if k:
            r_ = gate_truth(e1, v, depth + 1)
            return None if r_ is None else (r_ if k % 2 == 0 else not r_)
        if isinstance(e_, ast.BoolOp):
            rs = [gate_truth(x, v, depth + 1) for x in e_.values]
            if isinstance(e_.op, ast.And):
                return False if any(r_ is False for r_ in rs) else True if all(r_ is True for r_ in rs) else None
            return True if any(r_ is True for r_ in rs) else False if all(r_ is False for r_ in rs) else None
        tc = H.truth_core(e_)
        if tc is not None:
            r_ = gate_truth(tc[0], v, depth + 1)
            return None if r_ is None else (r_ == tc[1])
        if isinstance(e_, ast.Name):
            sv = P.single_value(e_) if isinstance(e_.ctx, ast.Load) and P.cfg.node_of(e_) is not None else None
            return gate_truth(sv, v, depth + 1) if sv is not None else None
        p_ = astq.cmp_parts(e_)
        if p_ and isinstance(p_[1], (ast.In, ast.NotIn)) and env_p is not None and astq.is_name(p_[2], env_p):
            key = astq.const_str(p_[0])
            if key in ("HTTP_RANGE", "HTTP_IF_RANGE"):
                return v["R" if key == "HTTP_RANGE" else "I"] == isinstance(p_[1], ast.In)
            return None
        if is_proc(e_):
            # true only for a processable request: what the obligations on the predicate itself (below) establish
            return None if v["R"] and not (v["I"] and v["U"]) else False
        u_ = _irm_use(ctx, P, e_)
        if u_ is not None:
            ok_, _f = _irm_args(ctx, P, u_, False)
            if ok_ and "environ" in u_.args and env_p is not None and astq.is_name(u_.args["environ"], env_p):
                if not any(u_.site is x.site for x in sem_uses):
                    sem_uses.append(u_)
                return v["U"] == (u_.neg % 2 == 0)
        return None

    key_ast: dict[str, tuple[ast.AST, bool]] = {}
    for t_ in P.cfg.tests():
        if t_.kind == "test" and t_.ast is not None:
            k_, pos_ = canon(t_.ast)
            key_ast.setdefault(k_, (t_.ast, pos_))

    def gated_by_meaning(a: ast.AST) -> tuple[bool, str]:
        mn = P.node(a)
        for R_, I_, U_ in itertools.product((False, True), repeat=3):
            if R_ and not (I_ and U_):
                continue
            v = {"R": R_, "I": I_, "U": U_}

            def val(k: str, v=v) -> bool | None:
                if k not in key_ast:
                    return None
                r_ = gate_truth(key_ast[k][0], v)
                return None if r_ is None else (r_ == key_ast[k][1])

            for o in simulate(P.cfg, val):
                if any(x is mn for x in o.passed):
                    return False, f"reached with Range {'sent' if R_ else 'absent'}, If-Range {'sent' if I_ else 'absent'}, resource {'modified' if U_ else 'unmodified'} against If-Range"
        return True, "not reached on any walk with Range absent, or with If-Range sent and the resource modified against it"
    marks: list[tuple[str, ast.AST]] = [("status 206", s) for s, code in _status_stores(pr.node) if code == 206]
    marks += [("range wrap", WrapSite(ctx, P).call)]
    marks += [("Range parse", c) for c in P.calls_to("werkzeug.http.parse_range_header")]
    if len(marks) < 3:
        raise AnalysisError(f"{pr.fq}: expected a 206 assignment, a _wrap_range_response call and a parse_range_header call")
    for what, a in marks:
        lits = H.guard_literals(P, a)
        ok = P.cfg.reachable(P.node(a)) and any(is_proc(e_) and l == "T" for e_, l in lits)
        how = f"dominated by a true `self._is_range_request_processable(...)` test ({nproc} such call(s) in the function)"
        if not ok and P.cfg.reachable(P.node(a)):
            ok, why = gated_by_meaning(a)
            if ok:
                how = f"gated by the conditions of {pr.name} themselves: {why}"
            else:
                how += f"; {why}"
        if not ok:
            odd = H.misread(P, lits, is_proc)
            if odd is not None:
                raise AnalysisError(f"{pr.fq}: {what} is under `{norm(odd)[:70]}`, which involves _is_range_request_processable(...) in a way that is not understood")
        ctx.ob(R, f"{what} only when the range request is processable (Range present, If-Range satisfied)", ok, f"`{norm(a)[:70]}` {'is' if ok else 'is NOT'} {how}", pr, a, f"{what} processable")
    ctx.floor(R, "206-path effects", len(marks), 3)

    _qo, q = repo.lookup(resp, "_is_range_request_processable")
    if not isinstance(q, FuncInfo):
        # the predicate was inlined: its obligations are the ones just decided on the conditions of the function itself
        if nproc:
            raise AnchorMissing(f"{resp.name}._is_range_request_processable not found")
        if not sem_uses:
            raise AnalysisError(f"{pr.fq}: no _is_range_request_processable and no is_resource_modified(..., ignore_if_range=False) test of the response's own validators decides the 206 path")
        return
    Q = FA(repo, q)
    env_q = [p for p in q.params if p != "self"][0]
    paths = [bp for bp in H.bool_paths(q.node, q.fq)]
    if any(bp.result not in (True, False) for bp in paths):
        raise AnalysisError(f"{q.fq}: a path does not return a truth value")
    tp = [bp for bp in paths if bp.result is True]
    if not tp:
        raise AnalysisError(f"{q.fq}: never returns True")

    def key_lit(atom: ast.AST, label: str, key: str) -> str | None:
        """'present' / 'absent' when the edge tells whether environ has key"""
        p = astq.cmp_parts(atom)
        if p and isinstance(p[1], (ast.In, ast.NotIn)) and astq.const_str(p[0]) == key and astq.is_name(p[2], env_q):
            pres = isinstance(p[1], ast.In) == (label == "T")
            return "present" if pres else "absent"
        return None

    range_ok = all(any(key_lit(a, l, "HTTP_RANGE") == "present" for a, l in bp.literals) for bp in tp)
    ctx.ob(R, "a request without Range is never range-processed", range_ok, f"{len(tp)} true path(s) of _is_range_request_processable, each {'requires' if range_ok else 'does NOT require'} 'HTTP_RANGE' in {env_q}", q, q.node, "processable needs Range")
    irm_ok = True
    args_ok = True
    facts = []
    for bp in tp:
        absent = any(key_lit(a, l, "HTTP_IF_RANGE") == "absent" for a, l in bp.literals)
        unmod = []
        calls_ = []
        for a, l in bp.literals:
            nn = 0
            if isinstance(a, ast.Name):  # modified = is_resource_modified(...) ; return not modified
                asg = astq.assigns_to(q.node, a.id)
                if len(asg) != 1 or asg[0][1] is None:
                    continue
                a, nn = H.strip_not(asg[0][1])
            u = _irm_use(ctx, Q, a)
            if u is not None:
                calls_.append(u)
                if l == ("F" if (nn + u.neg) % 2 == 0 else "T"):
                    unmod.append(u)
        irm_ok = irm_ok and (absent or bool(unmod))
        for u in calls_:
            ok, fact = _irm_args(ctx, Q, u, False)
            b = u.args
            ok = ok and "environ" in b and astq.is_name(b["environ"], env_q)
            args_ok = args_ok and ok
            facts.append(fact)
    ctx.ob(R, "a Range with a failed If-Range is ignored (processable only if If-Range is absent or the resource is unmodified)", irm_ok, f"{len(tp)} true path(s)", q, q.node, "processable needs If-Range")
    if not facts:
        raise AnalysisError(f"{q.fq}: no is_resource_modified call on a true path")
    ctx.ob(R, "If-Range is evaluated against the response's own ETag / Last-Modified with ignore_if_range=False", args_ok, "; ".join(sorted(set(facts))), q, q.node, "processable is_resource_modified arguments")


# ---------------------------------------------------------------------
# R11.5 one source for the 206, R11.6 416 on every failure

RNS = "werkzeug.exceptions.RequestedRangeNotSatisfiable"


class RangeSlots:
    """the three fallible results in _process_range_request and the variables holding them"""

    def __init__(self, ctx: Ctx, P: FA):
        pr = P.fi
        self.P = P

        def one(calls: list[ast.Call], what: str) -> tuple[ast.Call, ast.Assign, str]:
            if len(calls) != 1:
                raise AnalysisError(f"{pr.fq}: expected exactly one {what} call, found {len(calls)}")
            par = astq.parent(calls[0])
            if isinstance(par, ast.NamedExpr) and par.value is calls[0] and isinstance(par.target, ast.Name):
                return calls[0], par, par.target.id  # type: ignore[return-value]  # bound by a walrus: the binding "statement" is the walrus
            st = astq.stmt_of(pr, calls[0])
            if not (isinstance(st, ast.Assign) and st.value is calls[0] and len(st.targets) == 1 and isinstance(st.targets[0], ast.Name)):
                raise AnalysisError(f"{pr.fq}: result of {what} is not bound to a local name")
            return calls[0], st, st.targets[0].id

        self.parse, self.parse_st, self.PR = one(P.calls_to("werkzeug.http.parse_range_header"), "parse_range_header")
        self.rfl, self.rfl_st, self.RT = one(P.method_calls("range_for_length"), "range_for_length")
        self.tcr, self.tcr_st, self.CR = one(P.method_calls("to_content_range_header"), "to_content_range_header")

    def is_var(self, e: ast.AST, var: str, st: ast.stmt) -> bool:
        """e is a use of `var` that sees exactly the binding made by st"""
        if not astq.is_name(e, var):
            return False
        if isinstance(st, ast.NamedExpr) and e is st.target:
            return True  # the walrus target itself: `(v := f()) is None` tests this binding
        # a None default that also reaches the use (`v = None` ... `if ok: v = f()`) is not another value of v
        ds = [d for d in self.P.defs(e) if not (d.kind == "assign" and d.index is None and d.value is not None and astq.is_none(d.value))]  # type: ignore[arg-type]
        return len(ds) == 1 and ds[0].stmt is st


class WrapSite:
    """where _process_range_request replaces the body by a _RangeWrapper: through the helper
    ``self._wrap_range_response(start, length)`` or with the construction inlined."""

    def __init__(self, ctx: Ctx, P: FA):
        repo = ctx.repo
        pr = P.fi
        resp = repo.cls(RESP)
        rwc = H.class_of(repo, "werkzeug.wsgi._RangeWrapper")
        init = rwc.methods.get("__init__")
        if init is None or not {"iterable", "start_byte", "byte_range"} <= set(init.params):
            raise AnchorMissing("_RangeWrapper.__init__(iterable, start_byte, byte_range) not found")
        self.init = init
        wcs = [c for c in P.method_calls("_wrap_range_response") if astq.is_name(c.func.value, "self")]  # type: ignore[attr-defined]
        direct = P.calls_to("werkzeug.wsgi._RangeWrapper")
        if len(wcs) + len(direct) != 1:
            raise AnalysisError(f"{pr.fq}: expected one self._wrap_range_response call or one _RangeWrapper construction, found {len(wcs)} + {len(direct)}")
        self.inline = bool(direct)
        if self.inline:
            self.call = self.ctor = direct[0]
            self.W = P
            self.helper = None
            bb = H.bind(direct[0], init, bound=True)
            self.ctor_args = bb
            self.start, self.length = bb.get("start_byte"), bb.get("byte_range")
            self.pnames = ("start_byte", "byte_range")
        else:
            wr = _method(ctx, resp, "_wrap_range_response")
            self.helper = wr
            self.call = wcs[0]
            b = H.bind(wcs[0], wr, bound=True)
            wparams = [p for p in wr.params if p != "self"]
            if len(wparams) != 2:
                raise AnalysisError(f"{wr.fq}: expected (start, length) parameters")
            self.pnames = (wparams[0], wparams[1])
            self.start, self.length = b.get(wparams[0]), b.get(wparams[1])
            self.W = FA(repo, wr)
            rws = self.W.calls_to("werkzeug.wsgi._RangeWrapper")
            if len(rws) != 1:
                raise AnalysisError(f"{wr.fq}: expected one _RangeWrapper construction, found {len(rws)}")
            self.ctor = rws[0]
            self.ctor_args = H.bind(rws[0], init, bound=True)


def _is_206_test(e_: ast.AST | None, l: str) -> bool:
    p = astq.cmp_parts(e_) if e_ is not None else None
    if not p:
        return False
    a, op, b = p
    if isinstance(a, ast.Constant):
        a, b = b, a
    return norm(a) == "self.status_code" and isinstance(b, ast.Constant) and b.value == 206 and ((isinstance(op, ast.Eq) and l == "T") or (isinstance(op, ast.NotEq) and l == "F"))


def _header_store(fn: ast.AST, name: str, X: FA | None = None) -> list[ast.Assign]:
    """`self.headers["Name"] = v` (also through a local bound once to self.headers: `headers = self.headers`) and the
    header-property form `self.name = v` (header_property descriptors of Response)"""
    out = []
    attr = name.replace("-", "_")

    def is_headers(e: ast.AST) -> bool:
        if astq.is_self_attr(e, "headers"):
            return True
        if isinstance(e, ast.Name) and X is not None and X.cfg.node_of(e) is not None:
            v = X.single_value(e)
            return v is not None and astq.is_self_attr(v, "headers")
        return False

    for s in walk_no_nested(fn):
        if isinstance(s, ast.Assign) and len(s.targets) == 1 and isinstance(s.targets[0], ast.Subscript) and is_headers(s.targets[0].value):
            k = astq.const_str(s.targets[0].slice)
            if k is not None and k.lower() == name:
                out.append(s)
        elif isinstance(s, ast.Assign) and len(s.targets) == 1 and astq.is_self_attr(s.targets[0], attr):
            out.append(s)
    return out


def rule_5(ctx: Ctx, P: FA, S: RangeSlots) -> None:
    R = "R11.5"
    repo = ctx.repo
    pr = P.fi
    resp = repo.cls(RESP)
    env_p = [p for p in pr.params if p != "self"][0]
    a0 = S.parse.args[0] if S.parse.args else None
    look = _bound_at(P, P.cfg.node_of(S.parse))
    if isinstance(a0, ast.Name):  # range_header = environ.get("HTTP_RANGE"); parse_range_header(range_header)
        a0 = look(a0) or a0
    hk = H.header_get_key(a0, look) if a0 is not None else None
    ctx.ob(R, "the parsed range is the request's Range header", hk == (env_p, "HTTP_RANGE"), f"`{norm(S.parse)}`", pr, S.parse, "parse source")

    def recv_ok(c: ast.Call) -> bool:
        return S.is_var(c.func.value, S.PR, S.parse_st)  # type: ignore[attr-defined]

    def len_ok(c: ast.Call) -> bool:
        return len(c.args) == 1 and not c.keywords and isinstance(c.args[0], ast.Name) and _only_param_def(P, c.args[0], "complete_length")

    both = recv_ok(S.rfl) and recv_ok(S.tcr) and len_ok(S.rfl) and len_ok(S.tcr)
    ctx.ob(R, "byte window and Content-Range come from the same parsed Range and the same complete length", both, f"`{norm(S.rfl)}` / `{norm(S.tcr)}`", pr, S.rfl, "one range one length")

    def is_rt(e: ast.AST, idx: int, depth: int = 0) -> bool:
        """e is element idx of the range_for_length tuple: `rt[idx]`, a local unpacked from position idx of it, or a
        local bound once to such an element (`start = rt[0]`)"""
        sc = H.subscript_const(e)
        if sc is not None:
            return sc[1] == idx and S.is_var(sc[0], S.RT, S.rfl_st)
        if isinstance(e, ast.Name):
            ds = P.defs(e)
            if len(ds) == 1:
                d = next(iter(ds))
                if d.kind == "assign" and d.index is None and d.value is not None and depth < 3:
                    return is_rt(d.value, idx, depth + 1)
                return d.kind == "unpack" and d.index == idx and isinstance(d.stmt, ast.Assign) and isinstance(d.target, ast.Name) and len(d.stmt.targets) == 1 and isinstance(d.stmt.targets[0], (ast.Tuple, ast.List)) and len(d.stmt.targets[0].elts) == 2 and d.value is not None and S.is_var(d.value, S.RT, S.rfl_st)
        return False

    def is_span(e: ast.AST | None) -> bool:
        return isinstance(e, ast.BinOp) and isinstance(e.op, ast.Sub) and is_rt(e.left, 1) and is_rt(e.right, 0)

    def span_def(e: ast.AST):
        """the binding through which e is `range[1] - range[0]` (or True when e is that difference itself)"""
        if is_span(e):
            return True
        if isinstance(e, ast.Name):
            ds = P.defs(e)
            if len(ds) == 1 and is_span(next(iter(ds)).value) and next(iter(ds)).index is None:
                return next(iter(ds))
        return None

    cls_ = _header_store(pr.node, "content-length", P)
    if len(cls_) != 1:
        raise AnalysisError(f"{pr.fq}: expected one Content-Length store, found {len(cls_)}")
    v = cls_[0].value
    if isinstance(v, ast.Call) and dotted(v.func) == "str" and len(v.args) == 1 and not v.keywords:
        inner = v.args[0]
    elif astq.is_self_attr(cls_[0].targets[0]):
        inner = v  # the content_length header property renders the int itself
    else:
        inner = None
    cl_def = span_def(inner) if inner is not None else None
    ctx.ob(R, "Content-Length is str(stop - start) of the range_for_length tuple", cl_def is not None, f"`{norm(cls_[0])}`" + (f" with `{norm(cl_def.stmt)}`" if cl_def not in (None, True) else ""), pr, cls_[0], "content-length source")

    site = WrapSite(ctx, P)
    wcall = site.call
    s_ok = site.start is not None and is_rt(site.start, 0)
    ld = span_def(site.length) if site.length is not None else None
    l_ok = ld is not None and (ld is True or cl_def is True or ld is cl_def)
    ctx.ob(R, "the body window starts at the tuple's start", s_ok, f"{site.pnames[0]}={norm(site.start) if site.start is not None else 'absent'}", pr, wcall, "wrap start")
    ctx.ob(R, "the body window length is the Content-Length value", l_ok, f"{site.pnames[1]}={norm(site.length) if site.length is not None else 'absent'}", pr, wcall, "wrap length")

    crs = _header_store(pr.node, "content-range", P)
    if len(crs) != 1:
        raise AnalysisError(f"{pr.fq}: expected one Content-Range store, found {len(crs)}")
    ctx.ob(R, "Content-Range is the to_content_range_header result", S.is_var(crs[0].value, S.CR, S.tcr_st), f"`{norm(crs[0])}`", pr, crs[0], "content-range source")

    st206 = [s for s, code in _status_stores(pr.node) if code == 206]
    if len(st206) != 1:
        raise AnalysisError(f"{pr.fq}: expected one status 206 store, found {len(st206)}")
    wn = P.node(wcall)
    if site.inline:
        # the construction is inlined and does not look at the status: the order of the two statements is immaterial
        # (both must precede `return True`, and the wrap must not be under a different condition - see 'wrap iff 206')
        ctx.ob(R, "status 206 is set before the body is wrapped (the wrap is conditional on it)", True, f"`{norm(wcall)[:70]}` is inlined and does not test the status", pr, wcall, "status before wrap")
    else:
        before = P.cfg.node_dominates(P.node(st206[0]), wn)
        ctx.ob(R, "status 206 is set before the body is wrapped (the wrap is conditional on it)", before, f"`{norm(st206[0])}` {'dominates' if before else 'does NOT dominate'} `{norm(wcall)[:70]}`", pr, wcall, "status before wrap")
    effects = [("Content-Length", cls_[0]), ("Content-Range", crs[0]), ("status 206", st206[0]), ("body wrap", wcall)]
    trues = [r for r in astq.returns_of(pr.node) if isinstance(r.value, ast.Constant) and r.value.value is True]
    if not trues:
        raise AnalysisError(f"{pr.fq}: no `return True`")
    for r in trues:
        rn = P.node(r)
        missing = [w for w, a in effects if not P.cfg.node_dominates(P.node(a), rn)]
        ctx.ob(R, "a fulfilled range request has set Content-Length, Content-Range, status 206 and wrapped the body", not missing, f"not on every path to `return True`: {missing}" if missing else "all four dominate `return True`", pr, r, "206 effects complete")
    falses = [r for r in astq.returns_of(pr.node) if not (isinstance(r.value, ast.Constant) and r.value.value is True)]
    for r in falses:
        rn = P.node(r)
        touched = [w for w, a in effects if rn.id in P.cfg.reach(P.node(a))]
        ctx.ob(R, "an ignored range request leaves headers, status and body alone", not touched, f"`{norm(r)}` reachable after: {touched}" if touched else f"`{norm(r)}` is not reachable from any 206 effect", pr, r, "no partial 206")

    # the _RangeWrapper construction (inside _wrap_range_response, or inlined)
    W = site.W
    rwc_call = site.ctor
    bb = site.ctor_args
    where = site.helper or pr
    if site.inline:
        ok = "iterable" in bb and astq.is_self_attr(bb["iterable"], "response") and "start_byte" in bb and "byte_range" in bb
    else:
        ok = ("iterable" in bb and astq.is_self_attr(bb["iterable"], "response") and "start_byte" in bb and isinstance(bb["start_byte"], ast.Name) and _only_param_def(W, bb["start_byte"], site.pnames[0])
              and "byte_range" in bb and isinstance(bb["byte_range"], ast.Name) and _only_param_def(W, bb["byte_range"], site.pnames[1]))
    ctx.ob(R, "_RangeWrapper gets (self.response, start -> start_byte, length -> byte_range)", ok, f"`{norm(rwc_call)}` binds {{{', '.join(k + ': ' + norm(v) for k, v in bb.items())}}}", where, rwc_call, "wrapper arguments")
    st = astq.stmt_of(where, rwc_call)
    stored = isinstance(st, ast.Assign) and len(st.targets) == 1 and astq.is_self_attr(st.targets[0], "response") and st.value is rwc_call
    gs = H.guard_literals_at(W, rwc_call)  # literals, flags expanded: `partial = self.status_code == 206; if partial:` is the test
    g206 = [(e_, l) for e_, l, _ in gs if _is_206_test(e_, l)]
    rest = [(e_, l, n_) for e_, l, n_ in gs if not _is_206_test(e_, l)]
    if site.inline:
        # no helper: the construction must sit right behind the 206 assignment, under no further condition
        base = {(norm(e_), l, n_.id) for e_, l, n_ in H.guard_literals_at(P, st206[0])}
        mine = {(norm(e_), l, n_.id) for e_, l, n_ in rest}
        iff = stored and mine == base
    else:
        iff = stored and len(g206) >= 1 and not rest
    ctx.ob(R, "the wrapper replaces self.response exactly when the status is 206", iff, f"`{norm(st)}` under {[norm(e_) + ('' if l == 'T' else ' is false') for e_, l, _ in gs]}" + (" (inlined; the 206 assignment is under the same conditions)" if site.inline and iff else ""), where, rwc_call, "wrap iff 206")

    # Range.to_content_range_header
    rng = H.class_of(repo, "werkzeug.datastructures.range.Range")
    tc = _method(ctx, rng, "to_content_range_header")
    T = FA(repo, tc)
    lp = [p for p in tc.params if p != "self"][0]
    n = 0

    def from_rfl(e: ast.AST) -> bool:
        if not isinstance(e, ast.Name):
            return False
        v = T.single_value(e)
        return isinstance(v, ast.Call) and isinstance(v.func, ast.Attribute) and astq.is_name(v.func.value, "self") and v.func.attr == "range_for_length" and len(v.args) == 1 and isinstance(v.args[0], ast.Name) and _only_param_def(T, v.args[0], lp)

    def elem(e: ast.AST, idx: int) -> bool:
        """element idx of the range_for_length(length) tuple (subscript, or a local unpacked from that position)"""
        sc = H.subscript_const(e)
        if sc is not None:
            return sc[1] == idx and from_rfl(sc[0])
        if isinstance(e, ast.Name):
            ds = T.defs(e)
            if len(ds) == 1:
                d = next(iter(ds))
                return d.kind == "unpack" and d.index == idx and isinstance(d.stmt, ast.Assign) and len(d.stmt.targets) == 1 and isinstance(d.stmt.targets[0], (ast.Tuple, ast.List)) and len(d.stmt.targets[0].elts) == 2 and d.value is not None and from_rfl(d.value)
        return False

    for r, js, _conds in H.expand_returns(tc.node):
        if js is None or astq.is_none(js):
            continue
        n += 1
        if not isinstance(js, ast.JoinedStr):
            raise AnalysisError(f"{tc.fq}: `{norm(r)}` is not an f-string")
        consts = [x.value for x in js.values if isinstance(x, ast.Constant)]
        exprs = [x.value for x in js.values if isinstance(x, ast.FormattedValue)]
        shape = consts == [" ", "-", "/"] and len(exprs) == 4 and isinstance(js.values[0], ast.FormattedValue)
        if not shape:
            raise AnalysisError(f"{tc.fq}: `{norm(r)}` is not `<unit> <first>-<last>/<length>`")
        first_ok = elem(exprs[1], 0)
        e2 = exprs[2]
        last_ok = isinstance(e2, ast.BinOp) and isinstance(e2.op, ast.Sub) and isinstance(e2.right, ast.Constant) and e2.right.value == 1 and type(e2.right.value) is int and elem(e2.left, 1)
        tot_ok = isinstance(exprs[3], ast.Name) and _only_param_def(T, exprs[3], lp)
        unit_ok = astq.is_self_attr(exprs[0], "units")
        ctx.ob(R, "Content-Range declares first = start of range_for_length(length)", first_ok, f"`{norm(exprs[1])}`", tc, r, "content-range first")
        ctx.ob(R, "Content-Range declares last = stop - 1 of range_for_length(length)", last_ok, f"`{norm(e2)}`", tc, r, "content-range last")
        ctx.ob(R, "Content-Range declares the complete length and the range's unit", tot_ok and unit_ok, f"`{norm(exprs[0])}` ... `/{norm(exprs[3])}`", tc, r, "content-range total")
    ctx.floor(R, "Content-Range renderings", n, 1)


def _none_tests(X: FA, var: str, is_use) -> list[tuple]:
    """(test, label, expressions read) for every test edge that a None in exactly this binding of ``var`` takes: the
    *other* edge implies - as a literal, flags expanded to what they test (H.expand_literal) - that var is not None.
    So `if v is None`, `if not v`, `missing = v is None or w is None; if missing`, `ok = v is not None; if not ok`
    are the same check."""
    out = []
    for t_ in X.cfg.tests():
        if t_.kind != "test" or t_.ast is None:
            continue
        for l in ("T", "F"):
            for e_, l2 in H.expand_literal(X, t_.ast, H.flip(l), keep=is_use):
                if H.none_proving(e_, H.flip(l2)) == var:
                    nm = e_ if isinstance(e_, ast.Name) else e_.left  # type: ignore[attr-defined]
                    if isinstance(nm, ast.NamedExpr):
                        nm = nm.target
                    if is_use(nm):
                        out.append((t_, l, e_))
    return out


def _reach_knowing_none(X: FA, starts: t.Iterable, none_names: set[str]) -> set[int]:
    """ids of the nodes reachable from ``starts`` on walks consistent with what is known to be None: the names in
    ``none_names`` at the start; along a walk a name bound to the constant None becomes known, a name bound to anything
    else is forgotten, and a test edge that a None in a known name cannot take (`v is not None` true, `v` true) is not
    followed.  With nothing known this is plain reachability."""
    seen: set[tuple[int, frozenset[str]]] = set()
    out: set[int] = set()
    stack = [(n, frozenset(none_names)) for n in starts]
    while stack:
        n, st = stack.pop()
        if (n.id, st) in seen:
            continue
        seen.add((n.id, st))
        out.add(n.id)
        only: str | None = None
        if n.kind == "test" and n.ast is not None:
            for l in ("T", "F"):
                nm = H.none_proving(n.ast, l)
                if nm is not None and nm in st:
                    only = l  # the edge a None takes; the other edge says the name is not None (or truthy)
        st2 = st
        for d in X.rd.gen.get(n.id, ()):
            is_none = d.kind in ("assign", "walrus") and d.index is None and d.value is not None and astq.is_none(d.value)
            st2 = (st2 | {d.name}) if is_none else (st2 - {d.name})
        for s_, l_ in n.succs:
            if only is not None and l_ in ("T", "F") and l_ != only:
                continue
            stack.append((s_, st2))
    return out


def rule_6(ctx: Ctx, P: FA, S: RangeSlots) -> None:
    R = "R11.6"
    pr = P.fi
    n = 0
    for what, var, st in (("parse_range_header", S.PR, S.parse_st), ("range_for_length", S.RT, S.rfl_st), ("to_content_range_header", S.CR, S.tcr_st)):
        def is_use(e, var=var, st=st):
            return S.is_var(e, var, st)

        nts3 = _none_tests(P, var, is_use)
        nts = [(t_, l) for t_, l, _ in nts3]
        n += 1
        if not nts:
            odd = [t_ for t_ in P.cfg.tests() if t_.kind == "test" and t_.ast is not None and H.mentions(P, t_.ast, lambda x: isinstance(x, ast.Name) and is_use(x))]
            if odd:
                # the result does decide a branch, but not by a None / truth test: not understood (not "unchecked")
                raise AnalysisError(f"{pr.fq}: `{var}` ({what}) is tested by `{norm(odd[0].ast)[:70]}`, which is not read as a None check")
            ctx.ob(R, f"a None from {what} is checked", False, f"`{var}` is never tested for None", pr, st, f"{what} none test")
            continue
        in_tests = {id(x) for t_, _, e_ in nts3 for y in (t_.ast, e_) for x in ast.walk(y)}
        bad_exit = []
        wrong_raise = []
        for t_, l in nts:
            # what the None side reaches, knowing that `var` is None there and which other names still hold a None
            # default (`rt = cr = None` ... `if pr is not None: rt = ...` ... `if rt is None or cr is None: raise`)
            known = {var} | {d.name for nm_ in {x.id for x in ast.walk(pr.node) if isinstance(x, ast.Name)} for ds_ in [P.defs_at(t_, nm_)] if ds_ and all(d.kind == "assign" and d.index is None and d.value is not None and astq.is_none(d.value) for d in ds_) for d in ds_}
            r = _reach_knowing_none(P, P.cfg.succ(t_, l), known)
            if P.cfg.exit.id in r:
                bad_exit.append(norm(t_.ast))
            for nd in P.cfg.nodes:
                if nd.id in r and isinstance(nd.ast, ast.Raise):
                    exc = nd.ast.exc.func if isinstance(nd.ast.exc, ast.Call) else nd.ast.exc
                    if exc is None or P.resolve(exc) != RNS:
                        wrong_raise.append(nd.text())
        ctx.ob(R, f"a None from {what} (unparsable / unsatisfiable / multi-range) ends in RequestedRangeNotSatisfiable", not bad_exit and not wrong_raise, (f"normal return reachable after {bad_exit}; " if bad_exit else "") + (f"other raises: {wrong_raise}" if wrong_raise else "") or f"None side of {[norm(t_.ast) for t_, _ in nts]} reaches only `raise RequestedRangeNotSatisfiable(...)`", pr, nts[0][0].ast, f"{what} none is 416")
        uses = [x for x in walk_no_nested(pr.node) if isinstance(x, ast.Name) and isinstance(x.ctx, ast.Load) and x.id == var and id(x) not in in_tests and var in {d.name for d in P.defs(x) if d.stmt is st}]
        if not uses:
            raise AnalysisError(f"{pr.fq}: result of {what} is never used")
        unguarded = [u for u in uses if not any(P.dominated_by(u, t_, H.flip(l)) for t_, l in nts)]
        ctx.ob(R, f"the {what} result is used only after the None check", not unguarded, f"used unchecked in: {[norm(astq.stmt_of(pr, u))[:60] for u in unguarded]}" if unguarded else f"{len(uses)} use(s), all on the not-None side", pr, unguarded[0] if unguarded else st, f"{what} use after check")
    ctx.floor(R, "fallible range results", n, 3)

    # send_file closes what it opened when the range cannot be satisfied
    sf = ctx.repo.func("werkzeug.utils.send_file")
    F = FA(ctx.repo, sf)
    wf = F.calls_to("werkzeug.wsgi.wrap_file")
    if len(wf) != 1:
        raise AnalysisError(f"{sf.fq}: expected one wrap_file call")
    fb = H.bind(wf[0], ctx.repo.func("werkzeug.wsgi.wrap_file"), bound=False)
    if not isinstance(fb.get("file"), ast.Name):
        raise AnalysisError(f"{sf.fq}: wrap_file's file argument is not a local name")
    fvar = fb["file"].id  # type: ignore[union-attr]
    mcs = F.method_calls("make_conditional")
    ctx.floor(R, "make_conditional calls in send_file", len(mcs), 1)
    for c in mcs:
        tr = astq.enclosing(c, (ast.Try,))
        while tr is not None and not any(c is x for s in tr.body for x in ast.walk(s)):  # type: ignore[attr-defined]
            tr = astq.enclosing(tr, (ast.Try,))
        hs = []
        if tr is not None:
            for h in tr.handlers:  # type: ignore[attr-defined]
                tys = [h.type] if h.type is not None and not isinstance(h.type, ast.Tuple) else (list(h.type.elts) if h.type is not None else [None])
                if any(t_ is None or (F.resolve(t_) or "") in (RNS, "werkzeug.exceptions.HTTPException", "builtins.Exception", "builtins.BaseException") for t_ in tys):
                    hs.append(h)
        if not hs:
            ctx.ob(R, "send_file handles RequestedRangeNotSatisfiable from make_conditional", False, "no enclosing handler for it", sf, c, "send_file handler")
            continue
        h = hs[0]
        hn = F.cfg.by_ast[id(h)][0]
        closes = [F.node(m) for m in F.method_calls("close") if astq.is_name(m.func.value, fvar) and any(m is x for s in h.body for x in ast.walk(s))]  # type: ignore[attr-defined]
        none_edges = [(t_, l) for t_ in F.cfg.tests() if t_.kind == "test" and t_.ast is not None for l in ("T", "F") if H.none_proving(t_.ast, l) == fvar]
        r = F.cfg.reach(hn, avoid_nodes=closes, avoid_edges=none_edges)
        leak = F.cfg.raise_exit.id in r or F.cfg.exit.id in r
        ctx.ob(R, "send_file closes the file before the 416 leaves", bool(closes) and not leak, f"handler `except {norm(h.type) if h.type is not None else ''}`: {len(closes)} `{fvar}.close()` call(s); {'a path leaves without closing' if leak or not closes else 'every path with an open file passes one'}", sf, h, "send_file closes on 416")
        swallowed = F.cfg.exit.id in F.cfg.reach(hn)
        ctx.ob(R, "send_file re-raises the 416", not swallowed, "handler can fall through to a normal return" if swallowed else "every path of the handler raises", sf, h, "send_file re-raises")


# ---------------------------------------------------------------------
# R11.7 satisfiability gate of Range.range_for_length


def _predicate_facts(repo, fi: FuncInfo, nonnull: set[str], rename: dict[str, str | None] | None, depth: int = 0) -> tuple[set, int]:
    """order facts that hold on every path of predicate ``fi`` that returns True, given that the parameters in
    ``nonnull`` are not None (facts of a package predicate called on a true edge are included, renamed).
    -> (facts, number of such paths)"""
    paths = [bp for bp in H.bool_paths(fi.node, fi.fq) if bp.result is True]
    kept = []
    for bp in paths:
        if any(H.none_proving(a, l) in nonnull for a, l in bp.literals):
            continue
        kept.append(bp)
    if not kept:
        return set(), 0
    PA = FA(repo, fi) if depth < 2 else None
    per = []
    for bp in kept:
        fs: set = set()
        for a, l in bp.literals:
            fs |= H.order_facts(a, l, rename)
            if PA is not None and l == "T" and isinstance(a, ast.Call):
                sub = PA.callee(a)
                if sub is not None and sub.cls is None and sub is not fi:
                    try:
                        b = H.bind(a, sub, bound=False)
                        rn2: dict[str, str | None] = {}
                        nn2 = set()
                        for p in sub.params:
                            x = b.get(p)
                            k = H._key(x, rename) if x is not None else None
                            rn2[p] = k
                            if isinstance(x, ast.Name) and x.id in nonnull or isinstance(x, ast.Constant) and x.value is not None:
                                nn2.add(p)
                        fs |= _predicate_facts(repo, sub, nn2, rn2, depth + 1)[0]
                    except AnalysisError:
                        pass
        # close under strictness so that intersection keeps a <= b when one path has a < b
        fs |= {(x, "<=", y) for x, rel, y in fs if rel == "<"}
        per.append(fs)
    out = set.intersection(*per)
    return out, len(kept)


def rule_7(ctx: Ctx) -> None:
    R = "R11.7"
    repo = ctx.repo
    rng = H.class_of(repo, "werkzeug.datastructures.range.Range")
    rf = _method(ctx, rng, "range_for_length")
    X = FA(repo, rf)
    Lp = [p for p in rf.params if p != "self"][0]

    # Range.__init__ rejects a None start
    init = _method(ctx, rng, "__init__")
    I = FA(repo, init)
    ctor_ok = False
    for t_ in I.cfg.tests():
        if t_.kind == "test" and t_.ast is not None:
            nm = H.none_proving(t_.ast, "T")
            if nm is not None and isinstance(t_.ast, ast.Compare):
                ds = I.defs(t_.ast.left)  # type: ignore[arg-type]
                if ds and all(d.kind == "for" and d.index == 0 for d in ds):
                    r = I.cfg.reach(I.cfg.succ(t_, "T"))
                    if I.cfg.exit.id not in r and I.cfg.raise_exit.id in r and not any(n.kind == "loop" and n.id in r for n in I.cfg.nodes):
                        ctor_ok = True
    ctx.ob(R, "Range.__init__ rejects a range whose start is None", ctor_ok, "a `start is None` test on the first element of each pair leads only to a raise" if ctor_ok else "no such test found", init, init.node, "ctor rejects None start")

    # the predicate on its own
    pred = repo.func("werkzeug.http.is_byte_range_valid")
    pp = pred.params
    if len(pp) != 3:
        raise AnalysisError(f"{pred.fq}: expected (start, stop, length)")
    pf, npaths = _predicate_facts(repo, pred, set(pp), None)
    ctx.saw(pred)
    if not npaths:
        raise AnalysisError(f"{pred.fq}: no path returns True for non-None arguments")
    ctx.ob(R, "is_byte_range_valid(start, stop, length) with all three given is true only if 0 <= start", H.has_nonneg(pf, pp[0]), f"facts on every true path ({npaths}): {sorted(pf)}", pred, pred.node, "predicate lower bound")
    ctx.ob(R, "is_byte_range_valid(start, stop, length) with all three given is true only if start < stop", H.has_less(pf, pp[0], pp[1], True), f"facts on every true path ({npaths}): {sorted(pf)}", pred, pred.node, "predicate non-empty")
    ctx.ob(R, "is_byte_range_valid(start, stop, length) with all three given is true only if start < length", H.has_less(pf, pp[0], pp[2], True), f"facts on every true path ({npaths}): {sorted(pf)}", pred, pred.node, "predicate inside")

    rets = [(r, v, extra) for r, v, extra in H.expand_returns(rf.node) if v is not None and not astq.is_none(v)]
    ctx.floor(R, "non-None results of range_for_length", len(rets), 1)
    for idx, (r, rv, extra) in enumerate(rets):
        rn = X.node(r)
        if isinstance(rv, ast.Name):
            rv = X.single_value(rv)
        if not (isinstance(rv, ast.Tuple) and len(rv.elts) == 2):
            raise AnalysisError(f"{rf.fq}: `{norm(r)}` does not return a (start, stop) pair")
        Se, Te = rv.elts
        if not isinstance(Se, ast.Name):
            raise AnalysisError(f"{rf.fq}: returned start `{norm(Se)}` is not a local name")
        S = Se.id
        # (condition atom, label, node in which it is evaluated): dominating branch edges and the arms of a
        # conditional expression in the return itself
        # ... each as the literals it implies, a flag local standing for the expression it was bound to and evaluated
        # where it was bound (H.guard_literals_at)
        guards = H.guard_literals_at(X, rn, extra)

        def ver(name: str, at) -> str:
            """a name together with the bindings visible at a node: facts are about values, not about names"""
            if name.startswith("#"):
                return name
            ds = X.rd.reaching(at, name)
            return name + "@" + ",".join(sorted(f"{d.node.id if d.node is not None else 'p'}.{d.index}" for d in ds))

        def show(fs) -> list:
            return sorted((a.split("@")[0], rel, b.split("@")[0]) for a, rel, b in fs)

        def nonnull_at(e: ast.AST, at) -> bool:
            if isinstance(e, ast.Constant):
                return e.value is not None
            if isinstance(e, ast.BinOp) or isinstance(e, ast.UnaryOp) and isinstance(e.op, (ast.USub, ast.UAdd)):
                return True  # arithmetic yields a number or raises
            if isinstance(e, ast.Call) and dotted(e.func) in ("min", "max", "abs", "int", "len") and not e.keywords:
                return True
            if isinstance(e, ast.IfExp):
                return nonnull_at(e.body, at) and nonnull_at(e.orelse, at)
            if not isinstance(e, ast.Name):
                return False
            var = e.id
            nn_edges = H.proving_edges(X, lambda e_, l2, n2: not isinstance(e_, ast.Name) and H.none_proving(e_, H.flip(l2)) == var and (n2.kind == "test" or X.same_defs(var, n2, at)))
            defnodes = X.def_nodes_of(var)
            for d in X.rd.reaching(at, var):
                if d.kind == "aug":
                    continue  # arithmetic result
                if d.kind == "unpack" and d.index == 0 and ctor_ok and isinstance(d.value, ast.Subscript) and astq.is_self_attr(d.value.value, "ranges"):
                    continue  # start of a stored pair
                if d.kind == "assign" and d.value is not None and d.index is None and d.node is not None and nonnull_at(d.value, d.node):
                    continue
                start = d.node if d.node is not None else X.cfg.entry
                reach = X.cfg.reach(start, avoid_nodes=[x for x in defnodes if x is not d.node], avoid_edges=nn_edges)
                if at.id in reach:
                    return False
            return True

        facts: set = set()
        via = []
        for g_ast, l, t_ in guards:
            if g_ast is None:
                continue
            for a_, rel_, b_ in H.order_facts(g_ast, l):
                facts.add((ver(a_, t_), rel_, ver(b_, t_)))
            if isinstance(g_ast, ast.Call) and l == "T":
                fi = X.callee(g_ast)
                if fi is None or fi.cls is not None:
                    continue
                try:
                    b = H.bind(g_ast, fi, bound=False)
                    rename: dict[str, str | None] = {}
                    nonnull = set()
                    for p in fi.params:
                        a = b.get(p)
                        k = H._key(a, None) if a is not None else None
                        rename[p] = ver(k, t_) if k is not None else None
                        if a is not None and nonnull_at(a, t_):
                            nonnull.add(p)
                    fs, cnt = _predicate_facts(repo, fi, nonnull, rename)
                except AnalysisError:
                    continue
                ctx.saw(fi)
                facts |= fs
                via.append(f"{norm(g_ast)} [{cnt} true path(s), non-None: {sorted(nonnull)}]")

        def lt(e: ast.AST, at, depth: int = 0) -> bool:
            """S < e (e evaluated at node `at`) follows from the facts"""
            if depth > 5:
                return False
            if isinstance(e, ast.Name):
                if H.has_less(facts, ver(S, rn), ver(e.id, at), True):
                    return True
                ds = X.rd.reaching(at, e.id)
                return bool(ds) and all(d.kind == "assign" and d.index is None and d.value is not None and lt(d.value, d.node, depth + 1) for d in ds)
            if isinstance(e, ast.Call) and dotted(e.func) == "min" and e.args and not e.keywords:
                return all(lt(a, at, depth + 1) for a in e.args)
            if isinstance(e, ast.IfExp):
                return lt(e.body, at, depth + 1) and lt(e.orelse, at, depth + 1)
            return False

        def le_len(e: ast.AST, at, depth: int = 0) -> bool:
            """e <= length"""
            if depth > 5:
                return False
            if isinstance(e, ast.Name):
                if e.id == Lp and all(d.kind == "param" for d in X.rd.reaching(at, Lp)):
                    return True
                if H.has_less(facts, ver(e.id, at), ver(Lp, rn), False):
                    return True
                ds = X.rd.reaching(at, e.id)
                return bool(ds) and all(d.kind == "assign" and d.index is None and d.value is not None and le_len(d.value, d.node, depth + 1) for d in ds)
            if isinstance(e, ast.Call) and dotted(e.func) == "min" and e.args and not e.keywords:
                return any(le_len(a, at, depth + 1) for a in e.args)
            if isinstance(e, ast.IfExp):
                return le_len(e.body, at, depth + 1) and le_len(e.orelse, at, depth + 1)
            return False

        ev = f"`{norm(r)}`: order facts established by the dominating tests {show(facts)}" + (f" (through {via})" if via else " (inline tests only)")
        tag = f"result {idx}"
        ctx.ob(R, "a satisfiable range starts inside the resource: 0 <= start is tested on the returned start", H.has_nonneg(facts, ver(S, rn)), ev, rf, r, f"{tag} lower bound")
        ctx.ob(R, "a satisfiable range is not empty: start < stop is tested on the returned values", lt(Te, rn), ev, rf, r, f"{tag} non-empty")
        ctx.ob(R, "a satisfiable range ends inside the resource: returned stop is bounded by length", le_len(Te, rn), ev, rf, r, f"{tag} upper bound")

        def g_units(e_, l) -> bool:
            p = astq.cmp_parts(e_) if e_ is not None else None
            if not p:
                return False
            a, op, b2 = p
            if astq.const_str(a) is not None:
                a, b2 = b2, a
            return astq.is_self_attr(a, "units") and astq.const_str(b2) == "bytes" and ((isinstance(op, ast.Eq) and l == "T") or (isinstance(op, ast.NotEq) and l == "F"))

        def g_single(e_, l) -> bool:
            p = astq.cmp_parts(e_) if e_ is not None else None
            if not p:
                return False
            a, op, b2 = p
            if isinstance(a, ast.Constant):
                a, b2 = b2, a
            return isinstance(a, ast.Call) and dotted(a.func) == "len" and len(a.args) == 1 and astq.is_self_attr(a.args[0], "ranges") and isinstance(b2, ast.Constant) and b2.value == 1 and ((isinstance(op, ast.Eq) and l == "T") or (isinstance(op, ast.NotEq) and l == "F"))

        def g_len(e_, l) -> bool:
            return e_ is not None and not isinstance(e_, ast.Name) and H.none_proving(e_, H.flip(l)) == Lp

        for what, fn_, key in (("other units than bytes are not satisfiable", g_units, "units"), ("an unknown length is not satisfiable", g_len, "length known"), ("a multi-range request is not satisfiable", g_single, "single range")):
            ok = any(fn_(e_, l) for e_, l, _ in guards)
            ctx.ob(R, what, ok, f"`{norm(r)}` guards: {[norm(e_) + ('' if l == 'T' else ' is false') for e_, l, _ in guards if e_ is not None]}", rf, r, f"{tag} {key}")


# ---------------------------------------------------------------------
# R11.8 the position counter of _RangeWrapper stays absolute across a seek


def rule_8(ctx: Ctx) -> None:
    """_RangeWrapper ends the window when its position counter reaches ``end = start_byte + byte_range``, an *absolute*
    offset in the body.  The counter advances by what is read; a seek moves the body without reading.  So whenever the
    body is repositioned (``<body>.seek(x)``) the counter must be re-based to the absolute position (``<body>.tell()``,
    the value seek returns, or x itself) before the method returns - otherwise it counts from the seek target while the
    end stays absolute and the window ends late (too many bytes) for every start > 0 on seekable bodies.  Premises
    (checked, otherwise the shape is not modelled -> ANALYSIS-ERROR): the end attribute is bound from
    start_byte + byte_range in __init__ and nowhere else; exactly one attribute is compared with it by an ordering test."""
    R = "R11.8"
    repo = ctx.repo
    rwc = H.class_of(repo, "werkzeug.wsgi._RangeWrapper")
    init = rwc.methods.get("__init__")
    if init is None or not {"start_byte", "byte_range"} <= set(init.params):
        raise AnchorMissing("_RangeWrapper.__init__(iterable, start_byte, byte_range) not found")
    IA = FA(repo, init)

    def is_abs_end(e: ast.AST) -> bool:
        for x in ast.walk(e):
            if isinstance(x, ast.BinOp) and isinstance(x.op, ast.Add) and all(isinstance(y, ast.Name) for y in (x.left, x.right)):
                if {x.left.id, x.right.id} == {"start_byte", "byte_range"} and all(_only_param_def(IA, y, y.id) for y in (x.left, x.right)):  # type: ignore[union-attr,arg-type]
                    return True
        return False

    def holds_abs_end(v: ast.AST) -> bool:
        """start_byte + byte_range, directly or through a local some binding of which is that sum"""
        if isinstance(v, ast.Name) and IA.cfg.node_of(v) is not None:
            return any(d.value is not None and d.index is None and is_abs_end(d.value) for d in IA.defs(v))
        return is_abs_end(v)

    ends = {s.targets[0].attr for s in walk_no_nested(init.node) if isinstance(s, ast.Assign) and len(s.targets) == 1 and astq.is_self_attr(s.targets[0]) and holds_abs_end(s.value)}  # type: ignore[attr-defined]
    if len(ends) != 1:
        raise AnalysisError(f"{init.fq}: expected one attribute bound from start_byte + byte_range, found {sorted(ends)}")
    end = next(iter(ends))
    methods = [m for m in rwc.methods.values() if isinstance(m, FuncInfo)]
    for m in methods:
        if m is not init and H.self_attr_stores(m.node, end):
            raise AnalysisError(f"{m.fq}: rebinds self.{end}; the absolute-end model of R11.8 does not apply")

    def attr_behind(X: FA, e: ast.AST) -> str | None:
        """the attribute of self an expression reads: `self.a`, or a local bound once to `self.a` (`end = self.end_byte`)"""
        for _ in range(3):
            if astq.is_self_attr(e):
                return e.attr  # type: ignore[attr-defined]
            if not (isinstance(e, ast.Name) and isinstance(e.ctx, ast.Load) and X.cfg.node_of(e) is not None):
                return None
            sv = X.single_value(e)
            if sv is None:
                return None
            e = sv
        return None

    counters: set[str] = set()
    cmp_at = None
    for m in methods:
        X = FA(repo, m)
        for x in walk_no_nested(m.node):
            if isinstance(x, ast.Compare) and len(x.ops) == 1 and isinstance(x.ops[0], (ast.Lt, ast.LtE, ast.Gt, ast.GtE)):
                a, b = x.left, x.comparators[0]
                for u, v in ((a, b), (b, a)):
                    va = attr_behind(X, v)
                    if attr_behind(X, u) == end and va is not None and va != end:
                        counters.add(va)
                        cmp_at = (m, x)
    if len(counters) != 1 or cmp_at is None:
        raise AnalysisError(f"{rwc.fq}: expected one attribute compared with self.{end} by an ordering test, found {sorted(counters)}")
    counter = next(iter(counters))

    body_attr = attr_behind

    def rebases(X: FA, st: ast.stmt, recv: str, arg: ast.AST | None) -> bool:
        """st stores the absolute position into the counter"""
        if not (isinstance(st, ast.Assign) and any(astq.is_self_attr(tg, counter) for tg in st.targets)):
            return False

        def good(v: ast.AST, depth: int = 0) -> bool:
            if isinstance(v, ast.Call) and isinstance(v.func, ast.Attribute) and v.func.attr in ("tell", "seek") and body_attr(X, v.func.value) == recv:
                return True
            if arg is not None and norm(v) == norm(arg):
                return True
            if isinstance(v, ast.Name) and depth < 3:
                sv = X.single_value(v)
                return sv is not None and good(sv, depth + 1)
            return False

        return good(st.value)

    def helper_rebases(name: str, recv: str) -> bool:
        """every normal path of method `name` stores <body>.tell() into the counter"""
        h = rwc.methods.get(name)
        if not isinstance(h, FuncInfo):
            return False
        HA = FA(repo, h)
        through = [HA.node(s) for s in H.self_attr_stores(h.node, counter) if rebases(HA, s, recv, None)]
        return bool(through) and HA.cfg.all_paths_pass(HA.cfg.entry, [HA.cfg.exit], through)

    nseek = 0
    for m in methods:
        X = FA(repo, m)
        for c in X.method_calls("seek"):
            recv = body_attr(X, c.func.value)  # type: ignore[attr-defined]
            if recv is None or len(c.args) < 1:
                continue
            whence = c.args[1] if len(c.args) == 2 and not c.keywords else c.keywords[0].value if len(c.args) == 1 and len(c.keywords) == 1 and c.keywords[0].arg == "whence" else None
            from_start = whence is not None and ((isinstance(whence, ast.Constant) and whence.value == 0 and type(whence.value) is int) or (dotted(whence) or "").rsplit(".", 1)[-1] == "SEEK_SET")
            if (len(c.args) > 1 or c.keywords) and not from_start:
                raise AnalysisError(f"{m.fq}: `{norm(c)}` is not an absolute seek; R11.8 does not model it")
            nseek += 1
            sn = X.node(c)
            through = [X.node(s) for s in H.self_attr_stores(m.node, counter) if rebases(X, s, recv, c.args[0])]
            for hc in astq.calls(m.node, nested=False):
                if isinstance(hc.func, ast.Attribute) and astq.is_name(hc.func.value, "self") and not hc.args and not hc.keywords and helper_rebases(hc.func.attr, recv):
                    through.append(X.node(hc))
            # the seek happened: follow its normal successors only (an exceptional edge means the body did not move)
            after = [s_ for s_, l_ in sn.succs if l_ != "exc" and not any(s_ is t_ for t_ in through)]
            ok = any(sn is t_ for t_ in through) or X.cfg.exit.id not in X.cfg.reach(after, avoid_nodes=through)
            stores = [norm(s) for s in H.self_attr_stores(m.node, counter)]
            ctx.ob(R, f"after repositioning the body the position counter self.{counter} (compared with the absolute end self.{end}) is re-based to the absolute position", ok, f"`{norm(c)}` in {m.name}: " + (f"every path to the method's return passes one of {[n.text() for n in through]}" if ok else f"a path reaches the method's return without storing {recv}.tell() / the seek target into self.{counter} (stores of the counter here: {stores})"), m, c, f"counter re-based after seek {norm(c.args[0])}")
    ctx.floor(R, "seeks of the wrapped body in _RangeWrapper", nseek, 1)



# ---------------------------------------------------------------------
# R11.9 which Range headers parse_range_header reads, and as what (evaluated on a finite family)

_SPEC_ALPHABET = "-+01"
_SPEC_MAXLEN = 4


def _spec_oracle(spec: str) -> list[tuple[int, int | None]] | None:
    """RFC 9110 14.1.1 / 14.1.2 for one range-spec over sign, dash and digits: `first-[last]` with last >= first ->
    [(first, last + 1 | None)], `-suffix` -> [(-suffix, None)], anything else is not a range-spec -> None"""
    m = re.fullmatch(r"([0-9]+)-([0-9]*)", spec)
    if m is not None:
        first = int(m.group(1))
        if m.group(2) == "":
            return [(first, None)]
        last = int(m.group(2))
        return [(first, last + 1)] if last >= first else None
    m = re.fullmatch(r"-([0-9]+)", spec)
    if m is not None:
        return [(-int(m.group(1)), None)]
    return None


def rule_9(ctx: Ctx) -> None:
    """parse_range_header as a whole function (splitting, the item loop, the integer helper it calls), evaluated
    statement by statement over constants by the Machine of _c06_helpers on every string of a finite family: what is
    not a range-spec must come back as None (-> 416 by R11.6), what is one as exactly the range it denotes."""
    R = "R11.9"
    repo = ctx.repo
    prh = repo.func("werkzeug.http.parse_range_header")
    ctx.saw(prh)
    rcls = H.class_of(repo, "werkzeug.datastructures.range.Range")
    m = S6.Machine(repo, S6.TableFolder(repo))

    def read(header: str):
        return m.outcome(lambda: m.run(prh, [header]))

    def want(ranges: list[tuple[int, int | None]] | None):
        if ranges is None:
            return None
        try:
            return S6.snapshot(m.run(rcls, ["bytes", [tuple(r) for r in ranges]]))
        except S6.ProgramRaise as r:
            raise AnalysisError(f"Range('bytes', {ranges}) raises {r.kind}: the constructor rejects a member of the value family")

    def short(got) -> str:
        if isinstance(got, tuple) and len(got) == 3 and got[0] == "<instance>":
            return f"{got[1].rsplit('.', 1)[-1]}({', '.join(f'{k}={v!r}' for k, v in got[2])})"
        return repr(got)

    specs = [s_ for s_ in S6.samples(_SPEC_ALPHABET, _SPEC_MAXLEN) if s_]
    bad_specs = [s_ for s_ in specs if _spec_oracle(s_) is None]
    good_specs = [s_ for s_ in specs if _spec_oracle(s_) is not None]

    def check(instance: str, construct: str, family: list[tuple[str, list | None]], what: str) -> int:
        bad = None
        for header, ranges in family:
            got = read(header)
            if got != want(ranges) and bad is None:
                exp = "None (unparsable -> 416)" if ranges is None else f"Range('bytes', {ranges})"
                bad = f"e.g. parse_range_header({header!r}) gives {short(got)}, expected {exp}"
        ctx.ob(R, instance, bad is None, f"{len(family)} headers ({what}); {bad or 'all as expected'}", prh, prh.node, construct)
        return len(family)

    signed_last = [s_ for s_ in bad_specs if re.fullmatch(r"[0-9]+-[-+][0-9]+", s_)]
    bad_specs = [s_ for s_ in bad_specs if s_ not in signed_last]
    n = check(
        "a last position written with a sign is not a position (`first--last`, `first-+last`)",
        "signed last position",
        [("bytes=" + s_, None) for s_ in signed_last],
        "first-last with a '-' or '+' in front of the digits of last",
    )
    n += check(
        "a single spec that is not `first-[last]` (last >= first) or `-suffix` is unparsable",
        "malformed single spec",
        [("bytes=" + s_, None) for s_ in bad_specs],
        f"every string up to length {_SPEC_MAXLEN} over {sorted(_SPEC_ALPHABET)} that is not a range-spec: doubled / trailing / lone dashes, '+' signs, digits without a dash, last < first",
    )
    n += check(
        "a well-formed single spec is read as the range it denotes",
        "well-formed single spec",
        [("bytes=" + s_, _spec_oracle(s_)) for s_ in good_specs],
        f"every range-spec up to length {_SPEC_MAXLEN} over the same alphabet: first-last, first-, -suffix",
    )
    short_bad = [s_ for s_ in bad_specs if len(s_) <= 3]
    n += check(
        "one malformed spec makes the whole header unparsable, wherever it stands",
        "malformed spec in a list",
        [(f"bytes=0-0,{s_}", None) for s_ in short_bad] + [(f"bytes={s_},1-1", None) for s_ in short_bad],
        "a malformed spec after / before a well-formed one",
    )
    ctx.floor(R, "Range headers evaluated", n, 400)


# ---------------------------------------------------------------------
# R11.10 / R11.11 whole-function evaluation of parse_etags and FileWrapper.seekable


_ABSTRACT_BASES = frozenset(
    f"{m}.{n}" for m in ("typing", "collections.abc", "_collections_abc") for n in ("Collection", "Container", "Iterable", "Sized", "Hashable")
)


class _StandInFile:
    """a wrapped file as FileWrapper sees it: nothing but the attributes given (name -> result of calling it)"""

    def __init__(self, what: str, **methods: t.Any):
        self._what = what
        for k, v in methods.items():
            setattr(self, k, (lambda r: lambda *a, **kw: r)(v))

    def __repr__(self) -> str:
        return f"<file: {self._what}>"


class _SentinelClassInfo:
    """stands for `object` as the class of a module-level `object()` sentinel"""

    fq = "builtins.object"
    name = qualname = "object"


_SentinelClass = _SentinelClassInfo()


class _EvalMachine(S6.Machine):
    """the Machine of _c06_helpers plus (a) a class of the package whose only foreign bases are abstract collection
    interfaces (no state, no __init__ of their own) is instantiated as the record its own __init__ fills, (b) a
    stand-in file object answers attribute reads from its own attributes."""

    def instantiate(self, ci: t.Any, args: list, kwargs: dict) -> t.Any:
        mro = self.repo.mro(ci)
        foreign = [k.fq for k in mro if not hasattr(k, "node") and k.fq not in ("builtins.object", "typing.Generic")]
        if not foreign or not all(fq in _ABSTRACT_BASES for fq in foreign):
            return super().instantiate(ci, args, kwargs)
        if ci.node.decorator_list or isinstance(self.class_member(ci, "__new__")[1], FuncInfo):
            raise S6.NotModelled(f"class {ci.fq}: decorated or defines __new__")
        obj = S6.Obj(ci)
        _, init = self.class_member(ci, "__init__")
        if isinstance(init, FuncInfo):
            self.call_fn(init, [obj] + args, kwargs)
        elif args or kwargs:
            self.raise_(TypeError, f"{ci.name}() takes no arguments")
        return obj

    def value_of_fq(self, fq: str) -> t.Any:
        try:
            return super().value_of_fq(fq)
        except S6.NotModelled:
            # a module-level sentinel: bound once to an argument-less instance of a class of the package (`_missing =
            # _Missing()`) or to `object()`; one instance per evaluation, so identity tests against it mean what they say
            mn, _, nm = fq.rpartition(".")
            mod = self.repo.modules.get(mn)
            vals = mod.assigns.get(nm) if mod is not None else None
            if not vals or len(vals) != 1 or not (isinstance(vals[0], ast.Call) and not vals[0].args and not vals[0].keywords):
                raise
            d = dotted(vals[0].func)
            target = self.repo.resolve(mod, d, {}) if d is not None else None
            ci = self.repo.try_cls(target) if target else None
            if ci is not None:
                v = self.instantiate(ci, [], {})
            elif target == "builtins.object":
                v = S6.Obj(_SentinelClass)
            else:
                raise
            self._const[fq] = v
            return v

    def getattr(self, v: t.Any, name: str) -> t.Any:
        if isinstance(v, _StandInFile):
            if name.startswith("_") or name not in vars(v):
                self.raise_(AttributeError, f"file object has no attribute {name!r}")
            return S6.Native(v, name)
        return super().getattr(v, name)


_TAG_SEPARATORS = [",", ", ", " ,", " , ", "\t,\t", ",  ", "  ,"]
_TAG_UNIVERSE = ["a", "b1", "c,d", "zz"]  # "zz" is never sent


def _tag_lists() -> list[tuple[str, set[str], set[str], list[str]]]:
    """(header, strong tags, weak tags, separators used) for RFC 9110 8.8.3 / 5.6.1 lists: entity-tags (opaque-tag, W/ opaque-tag; a
    comma is an etagc) separated by a comma with optional blanks or tabs on either side"""
    members = [('"a"', "a", False), ('W/"a"', "a", True), ('"b1"', "b1", False), ('W/"b1"', "b1", True), ('"c,d"', "c,d", False)]
    out = []

    def add(ms: list, seps: list[str]) -> None:
        h = ms[0][0] + "".join(sp + m_[0] for sp, m_ in zip(seps, ms[1:]))
        out.append((h, {m_[1] for m_ in ms if not m_[2]}, {m_[1] for m_ in ms if m_[2]}, seps))

    for m1 in members:
        add([m1], [])
    for m1, m2, sp in itertools.product(members, members, _TAG_SEPARATORS):
        add([m1, m2], [sp])
    for s1, s2 in itertools.product(_TAG_SEPARATORS, repeat=2):
        add([members[0], members[3], members[4]], [s1, s2])
    return out


_TAG_PREDICATES = [("contains_weak", lambda u, st, wk: u in st or u in wk), ("contains", lambda u, st, wk: u in st), ("is_strong", lambda u, st, wk: u in st)]


class _TagAnswer(t.NamedTuple):
    header: str
    strong: set
    weak: set
    seps: list
    err: str  # parse_etags(header) did not give an ETags: what it did instead
    got: dict  # (predicate, tag) -> bool | text of what happened

    def wrong(self) -> str | None:
        if self.err:
            return f"parse_etags({self.header!r}) {self.err}"
        for u in _TAG_UNIVERSE:
            for name, want in _TAG_PREDICATES:
                if self.got[name, u] != want(u, self.strong, self.weak):
                    return f"parse_etags({self.header!r}).{name}({u!r}) is {self.got[name, u]}, expected {want(u, self.strong, self.weak)} (strong {sorted(self.strong)}, weak {sorted(self.weak)})"
        return None


def _tag_list_answers(model: ETagsModel) -> tuple[list[_TagAnswer], _TagAnswer]:
    """parse_etags evaluated by the Machine on the family of _tag_lists and on '*', each result asked through the
    ETags predicates (evaluated as well) for every tag of the universe.  -> (answers for the lists, answer for '*')"""
    cached = getattr(model, "_tag_answers", None)
    if cached is not None:
        return cached
    repo = model.repo
    pe = repo.func("werkzeug.http.parse_etags")
    m = _EvalMachine(repo, S6.TableFolder(repo))
    for name, _ in _TAG_PREDICATES:
        if not isinstance(repo.lookup(model.cls, name)[1], FuncInfo):
            raise AnchorMissing(f"ETags.{name} missing")

    def ask(obj, name: str, u: str):
        try:
            return bool(m.method(obj, name, [u]))
        except S6.ProgramRaise as r:
            return f"raises {r.kind}"
        except S6.OutOfSteps:
            return "does not finish"

    def answer(h: str, st: set, wk: set, seps: list) -> _TagAnswer:
        try:
            obj = m.run(pe, [h])
        except S6.ProgramRaise as r:
            return _TagAnswer(h, st, wk, seps, f"raises {r.kind}", {})
        except S6.OutOfSteps:
            return _TagAnswer(h, st, wk, seps, "does not finish", {})
        if not (isinstance(obj, S6.Obj) and obj.ci.fq == model.cls.fq):
            return _TagAnswer(h, st, wk, seps, f"returns {S6.snapshot(obj)!r}, not an ETags", {})
        return _TagAnswer(h, st, wk, seps, "", {(name, u): ask(obj, name, u) for u in _TAG_UNIVERSE for name, _ in _TAG_PREDICATES})

    out = [answer(*x) for x in _tag_lists()], answer("*", set(), set(), [])
    model._tag_answers = out  # type: ignore[attr-defined]
    return out


def _star_admits_all(star: _TagAnswer) -> bool:
    return not star.err and all(star.got[name, u] is True for u in _TAG_UNIVERSE for name in ("contains_weak", "contains"))


def rule_10(ctx: Ctx, model: ETagsModel) -> None:
    """parse_etags as a whole function (the tag regex, the member loop, the ETags constructor), evaluated by the
    Machine on a finite family of well-formed entity-tag lists; the result is read through the ETags predicates the
    verdict uses (R11.1 decides which one is applied to which header)."""
    R = "R11.10"
    pe = ctx.repo.func("werkzeug.http.parse_etags")
    ctx.saw(pe)
    answers, star = _tag_list_answers(model)
    by_sep: dict[str, list[_TagAnswer]] = {}
    for a in answers:
        key = "blank before a comma" if any(sp[0] != "," for sp in a.seps) else "blank after a comma" if any(sp[-1] != "," for sp in a.seps) else "bare commas or a single tag"
        by_sep.setdefault(key, []).append(a)
    for key in sorted(by_sep):
        bad = next((w for w in (a.wrong() for a in by_sep[key]) if w is not None), None)
        ctx.ob(R, f"a well-formed entity-tag list ({key}) is read as the tags it lists", bad is None, f"{len(by_sep[key])} headers of 1-3 strong / weak tags, separators {_TAG_SEPARATORS!r}; {('e.g. ' + bad) if bad else 'every ETags predicate answers as the list says'}", pe, pe.node, f"tag list, {key}")
    ok = _star_admits_all(star)
    ctx.ob(R, "'*' is read as the tag set that admits every tag", ok, f"parse_etags('*') {star.err or ('admits ' + ('every' if ok else 'not every') + ' tag of ' + repr(_TAG_UNIVERSE))}", pe, pe.node, "tag list, star")
    ctx.floor(R, "entity-tag headers evaluated", len(answers) + 1, 200)


def _parse_etags_wiring_evaluated(ctx: Ctx, model: ETagsModel) -> None:
    """third reading of the wiring obligations of R11.1, for a parse_etags whose text neither the path walk nor the
    symbolic summary follows: the function is evaluated on the tag lists of R11.10 and the obligations are read off
    the results - a tag sent with W/ is admitted by weak comparison only, one sent without by strong comparison, and
    only '*' gives the set that admits a tag nobody sent."""
    R = "R11.1"
    pe = ctx.repo.func("werkzeug.http.parse_etags")
    answers, star = _tag_list_answers(model)
    broken = next((a for a in answers if a.err), None)
    if broken is not None:
        raise AnalysisError(f"parse_etags({broken.header!r}) {broken.err}")

    def first(pred) -> str | None:
        return next((f"parse_etags({a.header!r}): {name}({u!r}) is {a.got[name, u]}" for a in answers for u in _TAG_UNIVERSE for name, _ in _TAG_PREDICATES if pred(a, name, u)), None)

    never = _TAG_UNIVERSE[-1]
    bad = first(lambda a, name, u: u == never and a.got[name, u] is not False)
    ctx.ob(R, "parse_etags: star_tag is set only for a '*' member", bad is None and _star_admits_all(star), f"evaluated on {len(answers)} tag lists and '*': " + (bad or star.err or "only '*' admits a tag that was not sent"), pe, pe.node, "parse_etags star")
    bad = first(lambda a, name, u: u in a.weak and u not in a.strong and a.got[name, u] is not (name == "contains_weak"))
    ctx.ob(R, "parse_etags: the list passed as weak_etags collects the weak tags", bad is None, f"evaluated on {len(answers)} tag lists: " + (bad or "a tag sent with W/ (and not also without) is admitted by contains_weak only"), pe, pe.node, "parse_etags weak_etags append")
    bad = first(lambda a, name, u: u in a.strong and a.got[name, u] is not True)
    ctx.ob(R, "parse_etags: the list passed as strong_etags collects the strong tags", bad is None, f"evaluated on {len(answers)} tag lists: " + (bad or "a tag sent without W/ is admitted by contains, contains_weak and is_strong"), pe, pe.node, "parse_etags strong_etags append")
    ctx.floor(R, "parse_etags list wiring", 3, 3)


def rule_11(ctx: Ctx) -> None:
    """FileWrapper.seekable, evaluated by the Machine on stand-in files: _RangeWrapper trusts the answer to seek() to
    the start of the range instead of reading up to it, so a wrapped file that says it is not seekable must not be
    reported seekable, whatever other attributes it has (every io.IOBase object has seek and tell)."""
    R = "R11.11"
    repo = ctx.repo
    fw = H.class_of(repo, "werkzeug.wsgi.FileWrapper")
    sk = _method(ctx, fw, "seekable")
    m = _EvalMachine(repo, S6.TableFolder(repo))
    files = [
        _StandInFile("seekable() is False; has read, seek, tell, close (a pipe, a socket file, a raw stream)", seekable=False, read=b"", seek=0, tell=0, close=None),
        _StandInFile("seekable() is False; has read and seek", seekable=False, read=b"", seek=0),
        _StandInFile("seekable() is False; has read only", seekable=False, read=b""),
    ]
    n = 0
    for f in files:
        try:
            w = m.run(fw, [f])
            got = m.outcome(lambda: m.method(w, "seekable"))
        except S6.ProgramRaise as r:
            got = ("<raises>", r.kind)
        n += 1
        ctx.ob(R, "a wrapped file that answers seekable() with False is not reported seekable", not isinstance(got, tuple) and not got, f"FileWrapper({f!r}).seekable() gives {got!r}", sk, sk.node, f"FileWrapper.seekable: {f._what.split(';')[1].strip()}")
    ctx.floor(R, "stand-in files evaluated", n, 3)


RULES = {
    "R11.1": "each validator header reaches its own parameter; the ETags predicate applied to If-None-Match is weak|strong|star, to If-Match admits strong and '*', to the If-Range tag admits strong - each on the unquoted response ETag and entering the verdict with the right polarity; parse_etags files weak / strong / star members under the constructor parameter of that name",
    "R11.2": "truth table of sansio is_resource_modified (its CFG executed with every condition as an abstract boolean, the verdict carried as a value per path): whenever the response has an ETag and an ETag validator is evaluated - the If-Range tag when If-Range is in force, else If-Match, else If-None-Match (RFC 9110 13.2.2) - the answer is that comparison alone: 'not modified' iff the If-Range tag / If-None-Match matches, 'modified' iff If-Match admits; no date verdict or earlier verdict survives, whatever the other conditions",
    "R11.3": "every non-None Last-Modified reaching the date comparison went through _dt_as_utc and a replace() that clears the microseconds and nothing else; the comparison is 'not later than'; its verdict depends only on the two dates; _dt_as_utc relabels only naive values and converts aware ones",
    "R11.4": "in make_conditional range processing and the 304/412 assignments are dominated by REQUEST_METHOD in {GET, HEAD}; 304/412 by not-modified against the response's own validators; 412 by a non-empty If-Match, 304 by its absence; the 206 path by _is_range_request_processable, which is true only with a Range header and an absent or satisfied If-Range (ignore_if_range=False)",
    "R11.5": "Content-Length, Content-Range, the _RangeWrapper window and status 206 derive from one range_for_length / to_content_range_header pair on one parsed Range and one complete length; status is set before the conditional wrap; all four precede `return True` and none precedes `return False`; Content-Range renders start-(stop-1)/length of the same range_for_length",
    "R11.6": "each None from parse_range_header, range_for_length, to_content_range_header leads only to RequestedRangeNotSatisfiable and the value is used only after that check; send_file closes its file and re-raises on that path",
    "R11.7": "every non-None (start, stop) returned by Range.range_for_length is dominated by branch facts 0 <= start, start < stop, stop <= length on the returned values (inline or through a predicate whose true paths are enumerated) and by the bytes-unit, known-length and single-range tests; is_byte_range_valid for non-None arguments implies 0 <= start < stop and start < length",
    "R11.8": "_RangeWrapper: the attribute compared with the absolute end (start_byte + byte_range) is re-based to the body's absolute position (tell(), the seek result or the seek target) on every path from a seek of the body to the method's return",
    "R11.10": "parse_etags, evaluated as a whole function (tag regex, member loop, ETags constructor) on every list of one or two tags (and some of three) out of strong / weak entity-tags separated by a comma with optional blanks or tabs on either side, and on '*': the ETags predicates the verdict uses (contains_weak, contains, is_strong) admit exactly the tags the list names, weak ones only under weak comparison; '*' admits every tag",
    "R11.11": "FileWrapper.seekable(), evaluated on stand-in files whose own seekable() answers False (with and without seek / tell attributes): the answer is false, so _RangeWrapper reads up to the start of the range instead of seeking a body that cannot seek",
    "R11.9": "parse_range_header, evaluated as a whole function on every string up to length 4 over {'-', '+', '0', '1'} as the single range-spec of a bytes header (and on the malformed ones next to a well-formed spec): returns None for everything that is not `first-[last]` with last >= first or `-suffix` (so R11.6 turns it into 416), and exactly Range('bytes', [(first, last + 1 | None)]) / [(-suffix, None)] for what is",
}


def run(ctx: Ctx) -> None:
    repo = ctx.repo
    for rid, text in RULES.items():
        ctx.rule(rid, text)
    san = repo.func(SAN)
    for p in VALIDATOR_PARAMS + PASS_PARAMS:
        if p not in san.params:
            raise AnchorMissing(f"{SAN} has no parameter {p}")
    # a piece of the function moved into a private helper of the module is analysed where it was (one level, inlined)
    A = FA(repo, H.inline_private_helpers(repo, san, ctx.saw))
    V, p_r, direct = _verdict(A)
    model = ETagsModel(ctx)
    T = H.VerdictTable(A)
    rule_1(ctx, A, V, p_r, direct, model, T)
    rule_2(ctx, A, T)
    rule_3(ctx, A, V, p_r)
    rule_4(ctx)
    resp = repo.cls(RESP)
    P = FA(repo, _method(ctx, resp, "_process_range_request"))
    S = RangeSlots(ctx, P)
    rule_5(ctx, P, S)
    rule_6(ctx, P, S)
    rule_7(ctx)
    rule_8(ctx)
    rule_9(ctx)
    rule_10(ctx, model)
    rule_11(ctx)
