"""C12 - router redirects stay on the bound host and keep the query (structural clauses).

The deciding machinery is a small abstract interpreter over the routing
package's syntax trees.  Starting in ``MapAdapter.match`` with the request
path and the query arguments as the only *request-path data*, it evaluates
the argument of every ``raise RequestRedirect(...)``, inlining calls to the
adapter's own methods (flow-sensitive through reaching definitions, context
sensitive through parameter bindings, constant-pruned for boolean flags).
The result is a set of *URL shapes* - one per place where a URL is put
together position by position (``urlunsplit((scheme, host, path, query,
fragment))`` or an f-string ``{scheme}//{host}...``) - whose positions hold
the labels of the request data that can flow there.  The rules are
statements about those shapes; nothing is keyed on statement text.

R12.8 re-runs the functions that assemble those URLs with a small executor
over Python constants (``_c12_helpers.ConstExec``): the adapter's bound scheme
is set to each of http/https/ws/wss, the parameters are what the calls on the
way from ``match`` pass, everything else is unknown and forks the path.
R12.9 does the same for the host position, with the adapter's server name,
subdomain and the map's host-matching flag set to each configuration.  R12.10
and R12.11 run the executor on *symbolic rules* (``_c12_helpers.Obj``): the
rule-pair predicate behind the defaults redirect and the sort key of the
per-endpoint rule lists are evaluated as tables over small rule pairs.
"""

from __future__ import annotations

import ast
import typing as t

from .. import astq
from ..cfg import CFG, Node, cfg_of
from ..dataflow import Def, ReachingDefs, bound_in_enclosing_comp
from ..fold import Folder
from ..loader import AnalysisError, FuncInfo, const_str, dotted, is_self_attr, norm, walk_no_nested
from ..report import Ctx
from ._c12_helpers import UNKNOWN, BudgetExceeded, ConstExec, alias_values_rule, build_order_rule, composed_parts, defaults_provider_rule, matcher_rules

LEVEL_TEXT = (
    "Static decision of structural clauses of C12 on /repo's current source, by abstract interpretation of MapAdapter.match "
    "and every adapter method it reaches (labels = request path / query data; positions = scheme, host, path, query of each "
    "URL that is assembled): (R12.1) every router-made RequestRedirect carries a URL assembled position by position, whose "
    "scheme and host positions receive no data derived from the request path, the query arguments or a matcher exception, "
    "and whose path position is <bound prefix containing the script root> + '/' + <request data with its leading slashes "
    "stripped>; the path position is judged for the URL shapes that are the value of a router redirect (a scheme://host prefix that is extended further, or the redirect_to base, is noted only); urljoin never sees request data outside the application-supplied redirect_to branch; (R12.2) the path "
    "handed to the matcher is '/' + the request path with leading slashes stripped (also when a helper method of the adapter puts it together and returns it, alone or in a tuple); (R12.3) the query position of each of "
    "those URLs receives the query_args of this match() call, either unchanged or through the mapping encoder; (R12.4) "
    "encode_query_args returns a str argument itself; (R12.5) in the state machine matcher a slash redirect is proposed "
    "only for a rule that admits the request method and websocket flag (decided by walking the loop iteration's CFG under "
    "every valuation of the admission facts, so independent of how the conditions are spelled), and a merged-slash redirect "
    "only after the merged path matched (a target chosen in a local per branch and raised once is judged where it is assigned); (R12.6) where the matcher turns the missing-slash signal of a walk of path P into a "
    "redirect, the target is that same P + '/' (same expression, same reaching definitions - in the handler a name the handler does not rebind has the definitions that reach the walk call whose signal entered it); (R12.7) the values the "
    "matcher raises with the alias-redirect signal (from which the adapter builds the canonical URL) have received "
    "everything the values of the match result (the pairs match() returns itself or through a helper of the matcher whose result it returns as it is) receive - converter values and the rule's defaults: may-flow into the "
    "mapping over the CFG, counting only writes that can precede the raise under consistent guards; a necessary condition "
    "of 'the target denotes the same arguments'; (R12.8) scheme clause of 'points at the scheme the adapter was bound to': "
    "for an adapter bound to http, https, ws or wss the scheme position of every redirect URL, evaluated by a "
    "path-sensitive constant executor in the calling context of the redirect (arguments and defaults of the calls leading "
    "to the assembly, the bound-scheme fallback, the secure/websocket case split, whatever their order and spelling), is a "
    "scheme of the same security class (https/wss vs http/ws); (R12.9) host clause of 'points at the host the adapter was bound to': "
    "for an adapter with host matching on (no subdomain), and with host matching off and an empty or a non-empty bound subdomain, the host "
    "position of every redirect URL, evaluated by the same executor in the calling context of the redirect (the slash and merged-slash "
    "redirects hand the host computation no domain part; a domain part that comes from a rule's build() is taken to be the adapter's own - "
    "the matched rule's - domain), is <subdomain>.<server name> when host matching is off and the subdomain is non-empty, else the server "
    "name; contexts in which the position does not evaluate to constants are noted, not judged; (R12.10) the rule-pair predicate the adapter "
    "consults to pick the defaults-canonical form of the matched rule (a Rule method taking another rule, evaluated on symbolic rule pairs "
    "whose argument sets are equal, a proper superset, a proper subset, overlapping and disjoint, with and without defaults on the matched "
    "rule) is false whenever the argument sets differ - otherwise the defaults redirect denotes other arguments than the request - and "
    "false for a build-only candidate (its URL matches nothing); (R12.11) convergence premise of the alias and defaults redirects: the sort "
    "key of the per-endpoint rule lists (the sort may sit in a helper the Map hands the list to), evaluated on symbolic (non-alias, alias) rule pairs with 0..2 arguments and every number of "
    "defaults, places the alias rule strictly after the non-alias rule with the same number of arguments - otherwise build() answers an "
    "alias redirect with the alias rule's own URL, and the canonical URL is defaults-redirected to the alias; (R12.12) table rule on the safe sets of the "
    "urllib quote() calls whose result becomes path text of a router redirect URL - every quote call the interpreter meets on the way to a redirect URL "
    "whose string argument carries request-path data or matcher-exception data (today: the re-quoting of the decoded path in the slash / merged-slash "
    "handler), and every quote call in the rules and converters modules (the converters' to_url, the static text of the Rule's builder: the text build() "
    "puts into alias and defaults redirects): the safe argument (default '/'), folded through locals, module- and class-level constants, concatenations, "
    "conditional expressions, parameter defaults and the arguments of the calling context, contains no '?' and no '#' (a literal one would end the path of "
    "the target) and no '%' (the text is decoded: a literal '%' must be escaped), and keeps '/' where the whole request path is re-quoted; a safe set that "
    "does not fold is ANALYSIS-ERROR; (R12.13) where a rule's build() is called on values that carry the alias-redirect signal's data, its append_unknown "
    "flag - argument or default, evaluated in the calling context of the redirect (keyword / positional / local / forwarded through helper parameters) - is "
    "false: the alias rule's values that the canonical rule does not take must not become a query string the request did not have. Decided on all paths of the "
    "analysed functions. Strings put together by f-string, +, str.join of a literal tuple, str.format with plain positional fields and % with %s are read alike. Values are followed element-wise through tuples, mappings with constant keys, lists / generators / iterators "
    "(yield, next(), for, comprehensions, iter(callable, sentinel)), item stores and mutating calls on locals, * / ** arguments taken from "
    "literal tuples / tables, and through methods (also static / class-level) and module-level functions of the routing package; where request "
    "data reaches a scheme or host position, or an assembled URL, path prefix or slash stripping can only be judged, through a construct that is "
    "not followed (a part taken out of a value flattened by an unmodelled operation, unmatched * / ** arguments, an unknown stripping helper), "
    "the answer is ANALYSIS-ERROR (cannot decide), not a violation. NOT decided: that the redirect target matches without "
    "a further redirect and denotes the same endpoint and arguments beyond R12.7, R12.10 and R12.11 (behavioural: depends on the rule set - "
    "which rule build() selects for the values among the non-alias rules, suitable_for, the order among rules with different numbers of "
    "arguments, an arguments test that is written in the adapter's loop instead of the rule-pair predicate), that values are converted correctly "
    "(to_python/to_url round trip), adapters bound to an empty or other scheme, the host of a redirect built from a rule that declares "
    "another subdomain / host than the one the adapter is bound to, value-level "
    "correctness of quote()/_urlencode beyond the safe-set table of R12.12 (other characters of the safe sets, quoting done by other means than urllib's "
    "quote / quote_plus, a quote call wrapped by functools.partial or made outside the routing package), unknown values appended on the defaults redirect "
    "(excluded there by R12.10: the argument sets are equal), and redirect_to targets (excluded by the property)."
)
TRUSTED = [
    "CPython ast",
    "urllib.parse.urlunsplit places its five elements in the scheme, netloc, path, query and fragment positions and inserts '/' between a netloc and a path that lacks one",
    "str.lstrip('/') returns a string that does not start with '/'",
    "an f-string replacement field without conversion or format spec inserts a str unchanged",
    "Python semantics of containers and iteration: a for loop / next() / comprehension over a generator, list, tuple or set gives the values that were yielded / stored; d[k], d.get(k), **d read what was stored under k",
    "Python semantics of constants: comparison, `in` on set/tuple/frozenset displays, and/or/not, conditional expressions, str concatenation and the str methods lower/upper/strip/startswith/endswith/removeprefix/removesuffix/partition/join",
    "Python semantics of frozenset constants (==, <=, >=, -, &, |, ^, issubset/issuperset/isdisjoint), len(), int(), bool(), unary minus, tuple comparison, and of list.sort / sorted: ascending by key (descending with reverse=True), stable",
    "Python semantics of str.format with plain positional fields and of % with %s (str() of the argument inserted), all() / any() over a sequence, a comprehension / starred element over a constant tuple, a bool used as a tuple index (0 / 1)",
    "an except handler that does not rebind a name sees the value the name had when the protected call raised",
]
ASSUMPTIONS = [
    "Rule.build()'s first element (the domain part) is produced from the rule's declared subdomain/host template, not from the request path",
    "attributes of the adapter other than path_info and query_args (server_name, script_name, subdomain, url_scheme, map) are the data the adapter was bound to",
    "the method, websocket and return_rule arguments of match() are not path data",
    "the attribute MapAdapter.__init__ assigns from its url_scheme parameter holds the scheme the adapter was bound to and is not rebound afterwards",
    "the mapping-typed parameter of RequestAliasRedirect.__init__ and the mapping-typed element of StateMachineMatcher.match's return annotation are the matched values",
    "reading an attribute of the matched rule (rule.defaults, rule.alias) twice within one match() call gives the same value",
    "the attributes MapAdapter.__init__ assigns from its server_name / subdomain / map parameters and Map.__init__ from host_matching hold what the adapter was bound with; the host an adapter is bound to is <subdomain>.<server name> when host matching is off and the subdomain is non-empty, else the server name (Map.bind); a host-matching adapter has no subdomain, any other a str",
    "the domain part Rule.build() returns for the matched rule (and for a same-domain rule of its endpoint) is the domain part the adapter hands the matcher: its subdomain, or its server name under host matching",
    "the attributes Rule.__init__ assigns from its defaults / alias / build_only / endpoint keywords, and the one it derives from the defaults' keys (the argument set, a set of str that contains the defaults' keys), are what the rule predicates read; two different rules of a map compare unequal",
]

MAP = "routing.map"
ADAPTER = "routing.map.MapAdapter"
MATCHER = "routing.matcher.StateMachineMatcher"
URLUNSPLIT = "urllib.parse.urlunsplit"
URLJOIN = "urllib.parse.urljoin"
QUOTE_FNS = ("urllib.parse.quote", "urllib.parse.quote_plus")
REDIRECT_EXC = "werkzeug.routing.exceptions.RequestRedirect"
REQUEST_PARAMS = ("path_info", "query_args")  # public keyword names of MapAdapter.match / __init__
SCHEME_PARAM = "url_scheme"  # public keyword name of MapAdapter.__init__ / Map.bind
SCHEMES = ("http", "https", "ws", "wss")  # the schemes an adapter is bound to (property quantifier)
SECURE = frozenset(["https", "wss"])

Labels = t.FrozenSet[t.Tuple[str, bool]]  # (source, reached the place unchanged)
URL_LOST = "an assembled URL"  # prefix of the note left where a URL shape stops being tracked


# ---------------------------------------------------------------------
# abstract values


class Url:
    """one place where a URL is assembled position by position."""

    __slots__ = ("site", "where", "form", "scheme", "netloc", "path_labs", "path_ok", "path_fact", "query", "weak")

    def __init__(self, site: ast.AST, where: FuncInfo, form: str, scheme: Labels, netloc: Labels, path_labs: Labels, path_ok: bool | None, path_fact: str, query: Labels,
                 weak: t.FrozenSet[t.Tuple[str, str]] = frozenset()):
        self.site, self.where, self.form = site, where, form
        self.scheme, self.netloc, self.path_labs, self.path_ok, self.path_fact, self.query = scheme, netloc, path_labs, path_ok, path_fact, query
        # (position, label name) pairs of the scheme / host positions whose presence the interpreter could not establish
        self.weak = weak

    def _strong(self) -> set[tuple[str, str]]:
        return {(pos, n) for pos, ls in (("scheme", self.scheme), ("host", self.netloc)) for n, _ in ls} - set(self.weak)

    def merged(self, o: "Url") -> "Url":
        weak = frozenset((self.weak | o.weak) - (self._strong() | o._strong()))
        worse = o if (o.path_ok is False and self.path_ok is not False) or (o.path_ok is None and self.path_ok) else self
        return Url(self.site, self.where, self.form, self.scheme | o.scheme, self.netloc | o.netloc, self.path_labs | o.path_labs,
                   worse.path_ok, worse.path_fact, self.query | o.query, weak)

    def with_query(self, q: Labels) -> "Url":
        return Url(self.site, self.where, self.form, self.scheme, self.netloc, self.path_labs, self.path_ok, self.path_fact, self.query | q, self.weak)

    def all_labs(self) -> Labels:
        return self.scheme | self.netloc | self.path_labs | self.query

    def desc(self) -> str:
        return f"{self.form} in {self.where.qualname}"


class Abs:
    """labels of request data that may be in a value; optionally with structure - element-wise (a tuple / a mapping
    with constant keys: ``tup`` + ``keys``), as the element of an iterable (``it``: list, generator, iterator) - and as
    URL shapes.  ``labs`` are labels of the value as a whole; taking a part of a structured value gives the part's own
    abstraction joined with those.

    ``het`` (subset of the names in ``labs``): the label got there by flattening a structure some of whose parts did
    not carry it.  ``weak``: a part was then taken out of such a flattened value (or the value went through a construct
    the interpreter does not model), so whether the label really is in this value is not known: a finding that rests
    on weak labels alone is "cannot decide", not a violation."""

    __slots__ = ("labs", "tup", "keys", "it", "urls", "consts", "plain", "notes", "het", "weak")

    def __init__(self, labs: Labels = frozenset(), tup: tuple["Abs", ...] | None = None, urls: tuple[Url, ...] = (), consts: frozenset | None = None, plain: bool = True, notes: tuple[str, ...] = (),
                 it: "Abs | None" = None, keys: tuple | None = None, het: t.FrozenSet[str] = frozenset(), weak: t.FrozenSet[str] = frozenset()):
        self.labs = labs
        self.tup = tup
        self.keys = keys  # None: positions 0..n-1; else the constant keys of a mapping display
        self.it = it
        self.urls = urls
        self.consts = consts  # set of python constants the value can be; None = unknown
        self.plain = plain  # may be something that is neither an assembled URL nor None
        self.notes = notes
        self.het = het
        self.weak = weak

    def parts(self) -> list["Abs"]:
        return list(self.tup or ()) + ([self.it] if self.it is not None else [])

    def structured(self) -> bool:
        return self.tup is not None or self.it is not None

    def flat(self) -> Labels:
        out = set(self.labs)
        for x in self.parts():
            out |= x.flat()
        for u in self.urls:
            out |= u.all_labs()
        return frozenset(out)

    def strong(self) -> set[str]:
        """names whose presence somewhere in the value is established."""
        out = {n for n, _ in self.labs} - self.weak
        for x in self.parts():
            out |= x.strong()
        for u in self.urls:
            out |= {n for n, _ in u.all_labs()}
        return out

    def hetero(self) -> set[str]:
        """names that belong to some parts of the value only."""
        out = set(self.het)
        ps = self.parts()
        for x in ps:
            out |= x.hetero()
        if len(ps) > 1:
            per = [{n for n, _ in x.flat()} for x in ps]
            out |= set().union(*per) - set.intersection(*per)
        return out - {n for n, _ in self.labs if n not in self.het}

    def nothing(self) -> bool:
        return not self.labs and not self.structured() and not self.urls and not self.plain

    def all_urls(self) -> list[Url]:
        """the URL shapes of the value and of its parts."""
        out = list(self.urls)
        for x in self.parts():
            out += [u for u in x.all_urls() if not any(u is y for y in out)]
        return out

    def cooked(self, note: tuple[str, ...] = (), select: bool = False, vague: bool = False) -> "Abs":
        """the value went through an operation: labels only.  select: a *part* of the value is taken (labels that
        belong to some parts only can then no longer be attributed); vague: a construct the interpreter does not model."""
        nm = {n for n, _ in self.flat()}
        weak = nm if vague else nm - self.strong()
        het = self.hetero() & nm
        if select:
            weak |= het
        lost = tuple(f"{URL_LOST} ({u.desc()}) went through an operation that is not modelled" for u in self.all_urls())
        return Abs(frozenset((n, False) for n in nm), notes=tuple(dict.fromkeys(self.notes + note + lost)), het=frozenset(het - weak), weak=frozenset(weak))


BOTTOM = Abs(consts=frozenset(), plain=False)
BOUND = Abs()


def none_abs() -> Abs:
    return Abs(consts=frozenset([None]), plain=False)


def lab(name: str) -> Abs:
    return Abs(frozenset([(name, True)]))


def _labels_only(v: Abs) -> Abs:
    """the labels of a (cooked) value without any claim about what else the value can be."""
    return Abs(v.labs, consts=frozenset(), plain=False, notes=v.notes, het=v.het, weak=v.weak)


def join(a: Abs, b: Abs) -> Abs:
    extra: list[Abs] = []
    tup, keys = None, None
    if a.tup is not None and b.tup is not None:
        if len(a.tup) == len(b.tup) and a.keys == b.keys:
            tup, keys = tuple(join(x, y) for x, y in zip(a.tup, b.tup)), a.keys
        else:  # two element-wise shapes that do not line up: flattened
            extra = [_labels_only(Abs(tup=x.tup).cooked()) for x in (a, b)]
    elif a.tup is not None:
        tup, keys = a.tup, a.keys  # the other alternative's labels are labels of the whole value (see part())
    elif b.tup is not None:
        tup, keys = b.tup, b.keys
    it = join(a.it, b.it) if a.it is not None and b.it is not None else (a.it if a.it is not None else b.it)
    labs = a.labs | b.labs
    sa, sb = {n for n, _ in a.labs} - a.weak, {n for n, _ in b.labs} - b.weak
    weak = (a.weak | b.weak) - (sa | sb)
    het = (a.het | b.het) - ((sa - a.het) | (sb - b.het)) - weak
    by_site: dict[int, Url] = {}
    for u in a.urls + b.urls:
        by_site[id(u.site)] = by_site[id(u.site)].merged(u) if id(u.site) in by_site else u
    consts = None if a.consts is None or b.consts is None else a.consts | b.consts
    out = Abs(labs, tup, tuple(by_site.values()), consts, a.plain or b.plain, tuple(dict.fromkeys(a.notes + b.notes)), it, keys, frozenset(het), frozenset(weak))
    for x in extra:
        out = join(out, x)
    return out


_ANY = object()


def part(v: Abs, key: t.Any = _ANY) -> Abs:
    """what taking an element out of v gives: the element with that constant index / key, or any element (iteration,
    next(), a computed index)."""
    if not v.structured():
        return v.cooked(select=True)
    outs: list[Abs] = []
    if v.tup is not None:
        keys = v.keys if v.keys is not None else tuple(range(len(v.tup)))
        if key is _ANY:
            outs += list(v.tup)
        else:
            if v.keys is None and isinstance(key, int) and not isinstance(key, bool) and key < 0:
                key += len(v.tup)
            outs += [x for k, x in zip(keys, v.tup) if type(k) is type(key) and k == key]
    if v.it is not None:
        outs.append(v.it)
    if v.labs or v.urls:
        outs.append(_labels_only(Abs(v.labs, urls=v.urls, het=v.het, weak=v.weak).cooked(select=True)))
    return join_all(outs) if outs else BOUND


def join_all(xs: t.Iterable[Abs]) -> Abs:
    out = BOTTOM
    for x in xs:
        out = join(out, x)
    return out


def _ends_with_slash(e: ast.AST, name: str | None = None) -> bool:
    """the string expression ends with a literal '/' (or is `name` on a path where name.endswith('/') holds: IfExp)."""
    if isinstance(e, ast.IfExp) and name is not None:
        t_, flip = e.test, False
        while isinstance(t_, ast.UnaryOp) and isinstance(t_.op, ast.Not):
            t_, flip = t_.operand, not flip
        if _is_endswith_slash(t_, name):
            keep, fix = (e.orelse, e.body) if flip else (e.body, e.orelse)
            return astq.is_name(keep, name) and _ends_with_slash(fix)
    if isinstance(e, ast.BinOp) and isinstance(e.op, ast.Add):
        return _ends_with_slash(e.right)
    if isinstance(e, ast.JoinedStr) and e.values:
        return _ends_with_slash(e.values[-1])
    s = const_str(e)
    return s is not None and s.endswith("/")


def _is_endswith_slash(e: ast.AST, name: str) -> bool:
    return isinstance(e, ast.Call) and isinstance(e.func, ast.Attribute) and e.func.attr == "endswith" and astq.is_name(e.func.value, name) and len(e.args) == 1 and const_str(e.args[0]) == "/"


def _stored_with_trailing_slash(init: ast.AST, attr: str) -> bool:
    """every `self.<attr> = v` of __init__ stores a value that ends with '/'."""
    stores = [st for st in walk_no_nested(init) if isinstance(st, (ast.Assign, ast.AnnAssign)) and st.value is not None
              and any(is_self_attr(tg, attr) for tg in (st.targets if isinstance(st, ast.Assign) else [st.target]))]
    if not stores:
        return False
    for st in stores:
        v = st.value
        if _ends_with_slash(v, v.id if isinstance(v, ast.Name) else None):
            continue
        if not isinstance(v, ast.Name):
            return False
        # `if not v.endswith("/"): v += "/"` earlier in the same block, v not rebound in between
        block = getattr(astq.parent(st), "body", [])
        if st not in block:
            return False
        ok = False
        for prev in reversed(block[:block.index(st)]):
            if isinstance(prev, ast.If) and not prev.orelse and isinstance(prev.test, ast.UnaryOp) and isinstance(prev.test.op, ast.Not) and _is_endswith_slash(prev.test.operand, v.id) \
                    and len(prev.body) == 1 and ((isinstance(prev.body[0], ast.AugAssign) and isinstance(prev.body[0].op, ast.Add) and astq.is_name(prev.body[0].target, v.id) and _ends_with_slash(prev.body[0].value))
                                                 or (isinstance(prev.body[0], ast.Assign) and len(prev.body[0].targets) == 1 and astq.is_name(prev.body[0].targets[0], v.id) and _ends_with_slash(prev.body[0].value))):
                ok = True
                break
            if any(isinstance(n, ast.Name) and n.id == v.id and isinstance(n.ctx, (ast.Store, ast.Del)) for n in ast.walk(prev)):
                break
        if not ok:
            return False
    return True


def _fn_has_params(fn: ast.AST) -> bool:
    a = fn.args  # type: ignore[attr-defined]
    return bool(a.posonlyargs or a.args or a.kwonlyargs or a.vararg or a.kwarg)


def _weak_positions(scheme: Abs, netloc: Abs) -> t.FrozenSet[t.Tuple[str, str]]:
    """(position, label) pairs of a URL's scheme / host positions that are there without being established."""
    return frozenset((pos, n) for pos, v in (("scheme", scheme), ("host", netloc)) for n in {n for n, _ in v.flat()} - v.strong())


def _keep_raw(v: Abs) -> Labels:
    """labels of a value placed as it is: direct labels keep their unchanged-flag, nested ones count as transformed."""
    return v.labs | frozenset((n, False) for n, _ in v.flat() if (n, True) not in v.labs and (n, False) not in v.labs)


def names(labs: Labels) -> list[str]:
    return sorted({n for n, _ in labs})


# ---------------------------------------------------------------------
# the interpreter


class Frame:
    def __init__(self, fi: FuncInfo, bind: dict[str, Abs], stack: tuple[str, ...], parent: "Frame | None" = None, call: ast.Call | None = None):
        self.fi = fi
        self.parent, self.call = parent, call  # the frame and the call expression this frame was entered from
        self.cfg = cfg_of(fi)
        rd = getattr(fi, "_c12_rd", None)
        if rd is None:
            rd = ReachingDefs(self.cfg, fi.params)
            fi._c12_rd = rd  # type: ignore[attr-defined]
        self.rd: ReachingDefs = rd
        self.bind = bind
        self.stack = stack + (fi.fq,)
        self.busy: set[t.Any] = set()
        self._writes: dict[str, list[tuple[str, ast.AST | None, ast.AST]]] | None = None

    def writes(self) -> dict[str, list[tuple[str, ast.AST | None, ast.AST]]]:
        """what the function stores *into* the value of a local (item / attribute stores, mutating method calls):
        name -> [(how, key expression, stored expression)], how in elem / merge / item."""
        if self._writes is None:
            w: dict[str, list[tuple[str, ast.AST | None, ast.AST]]] = {}
            for n in walk_no_nested(self.fi.node):
                if isinstance(n, (ast.Assign, ast.AnnAssign, ast.AugAssign)) and n.value is not None:
                    for tg in (n.targets if isinstance(n, ast.Assign) else [n.target]):
                        for x in (tg.elts if isinstance(tg, (ast.Tuple, ast.List)) else [tg]):
                            x = x.value if isinstance(x, ast.Starred) else x
                            if isinstance(x, (ast.Subscript, ast.Attribute)):
                                root = astq.chain_root(x)
                                if isinstance(root, ast.Name) and root.id != "self":
                                    whole = x is tg and isinstance(x, ast.Subscript) and x.value is root
                                    w.setdefault(root.id, []).append(("item" if whole else "vague", x.slice if isinstance(x, ast.Subscript) else None, n.value))
                elif isinstance(n, ast.Call) and isinstance(n.func, ast.Attribute) and n.func.attr in _MUTATING:
                    root = astq.chain_root(n.func.value)
                    if isinstance(root, ast.Name) and root.id != "self":
                        how = _MUTATING[n.func.attr] if n.func.value is root else "vague"
                        args = [a.value if isinstance(a, ast.Starred) else a for a in n.args] + [k.value for k in n.keywords]
                        if how == "elem" and args and not n.keywords and not any(isinstance(a, ast.Starred) for a in n.args):
                            for a in args[:-1]:
                                w.setdefault(root.id, []).append(("key", None, a))
                            w.setdefault(root.id, []).append(("elem", None, args[-1]))
                        elif how == "setdefault" and len(n.args) == 2 and not n.keywords:
                            w.setdefault(root.id, []).append(("item", n.args[0], n.args[1]))
                        else:
                            for a in args:
                                w.setdefault(root.id, []).append(("merge" if how == "merge" else "vague", None, a))
            self._writes = w
        return self._writes


Piece = t.Tuple[str, t.Any]  # ("c", text) | ("e", expr)

# methods that store their argument(s) into the receiver: as an element (last argument; earlier ones are positions /
# keys), element by element (merge), or key + value
_MUTATING = {"append": "elem", "appendleft": "elem", "add": "elem", "insert": "elem", "__setitem__": "elem", "extend": "merge", "extendleft": "merge", "update": "merge",
             "__ior__": "merge", "setdefault": "setdefault"}
# str methods that do not remove leading slashes
_PLAIN_STR_METHODS = {"lower", "upper", "casefold", "title", "capitalize", "swapcase", "rstrip", "removesuffix", "replace", "format", "encode", "decode", "ljust", "rjust", "center", "zfill",
                      "expandtabs", "translate", "join"}
# builtins whose result has the elements of their (single) iterable argument
_SAME_ELEMENTS = {"iter", "list", "tuple", "sorted", "reversed", "set", "frozenset", "filter"}


class Interp:
    def __init__(self, ctx: Ctx):
        self.ctx = ctx
        self.repo = ctx.repo
        self.adapter = self.repo.cls(ADAPTER)
        init = self.adapter.methods.get("__init__")
        if init is None:
            raise AnalysisError("MapAdapter.__init__ missing")
        # adapter attributes that hold request-path data / the script root, found by role: assigned in __init__ from that parameter
        self.request_attrs: set[str] = set()
        self.root_attrs: set[str] = set()
        self.scheme_attrs: set[str] = set()
        for st in walk_no_nested(init.node):
            if isinstance(st, (ast.Assign, ast.AnnAssign)) and st.value is not None:
                tgs = st.targets if isinstance(st, ast.Assign) else [st.target]
                used = astq.names_in(st.value)
                for tg in tgs:
                    if is_self_attr(tg):
                        if used & set(REQUEST_PARAMS):
                            self.request_attrs.add(tg.attr)
                        if "script_name" in used:
                            self.root_attrs.add(tg.attr)
                        if SCHEME_PARAM in used:
                            self.scheme_attrs.add(tg.attr)
        # root attributes __init__ stores with a trailing '/' (`if not x.endswith("/"): x += "/"` before `self.a = x`,
        # or a value whose last piece is a literal ending in '/')
        self.slashed_root_attrs: set[str] = {a for a in self.root_attrs if _stored_with_trailing_slash(init.node, a)}
        self.vague: list[str] = []  # calls whose argument binding could not be followed (since last reset)
        if len(self.request_attrs) < 2 or not self.root_attrs:
            raise AnalysisError(f"MapAdapter.__init__: request attributes {sorted(self.request_attrs)} / script root attributes {sorted(self.root_attrs)} not found")
        if self.repo.try_func("routing.rules.Rule.build") is None:
            raise AnalysisError("Rule.build missing")
        self.url_sites: dict[int, Url] = {}
        self.urljoins: list[tuple[ast.Call, Frame]] = []
        # (assembly site, frame it was evaluated in, pieces of its scheme position) for R12.8
        self.scheme_sites: list[tuple[ast.AST, Frame, list[Piece]]] = []
        # the same for the host position (R12.9), with the adapter's own functions called there whose result goes into it
        self.host_sites: list[tuple[ast.AST, Frame, list[Piece], list[FuncInfo]]] = []
        self._inlined: tuple[Frame, list[FuncInfo]] | None = None
        # (R12.12) calls of urllib.parse.quote met while evaluating, with the frame and what their string argument carries
        self.quote_calls: dict[tuple[int, tuple[str, ...]], tuple[ast.Call, Frame, Abs]] = {}
        # (R12.13) calls of a rule's build() met while evaluating, with the frame and what their values argument carries
        self.rule_builds: dict[tuple[int, tuple[str, ...]], tuple[ast.Call, Frame, Abs]] = {}

    # -- frames ---------------------------------------------------------
    def call_frame(self, callee: FuncInfo, call: ast.Call, fr: Frame) -> Frame:
        a = callee.node.args  # type: ignore[attr-defined]
        pos = [x.arg for x in a.posonlyargs + a.args]
        is_method = callee.cls is not None and "staticmethod" not in callee.decorators
        via_class = isinstance(call.func, ast.Attribute) and not astq.is_name(call.func.value, "self") and "classmethod" not in callee.decorators
        if is_method and pos and not via_class:  # `Class.method(obj, ...)` passes the instance explicitly
            pos = pos[1:]
        bind: dict[str, Abs] = {}
        defaults = dict(zip(reversed([x.arg for x in a.posonlyargs + a.args]), reversed(a.defaults)))
        for k, d in zip(a.kwonlyargs, a.kw_defaults):
            if d is not None:
                defaults[k.arg] = d
        for name, d in defaults.items():
            bind[name] = Abs(consts=frozenset([d.value]), plain=d.value is not None) if isinstance(d, ast.Constant) else BOUND
        spill: list[Abs] = []
        given: list[Abs] = []  # the positional arguments whose positions are known
        known = True
        for arg in call.args:
            starred = isinstance(arg, ast.Starred)
            v = self.ev(arg.value if starred else arg, fr)
            if known and not starred:
                given.append(v)
            elif known and v.tup is not None and v.keys is None and v.it is None and not v.labs:
                given += list(v.tup)  # *(a, b): element-wise
            else:
                known = False  # positions from here on are not known
                spill.append(part(v) if starred and v.structured() else v)
        for i, g in enumerate(given):
            if i < len(pos):
                bind[pos[i]] = g
            else:
                spill.append(g)
        for kw in call.keywords:
            if kw.arg is not None:
                bind[kw.arg] = self.ev(kw.value, fr)
                continue
            v = self.ev(kw.value, fr)
            if v.structured() and (v.keys is not None or v.tup is None):
                # **{"name": value, ...}: by key; what is stored under computed keys may go to any parameter
                rest = part(Abs(v.labs, it=v.it, het=v.het, weak=v.weak)) if (v.it is not None and not v.it.nothing()) or v.labs else None
                for name in callee.params:
                    if v.keys is not None and name in v.keys:
                        bind[name] = part(v, name)
                    elif rest is not None and name != "self":
                        bind[name] = join(bind.get(name, BOTTOM), rest)
            else:
                spill.append(v)
        if spill:
            # arguments whose parameter is not known: any of them may be in any parameter (not established for a particular one)
            extra = join_all(spill).cooked((f"* / ** arguments of the call of {callee.qualname}",), vague=True)
            self.vague.append(f"the * / ** arguments of `{norm(call)[:70]}` in {fr.fi.qualname} could not be matched with the parameters of {callee.qualname}")
            for name in callee.params:
                bind[name] = join(bind.get(name, BOTTOM), extra)
        return Frame(callee, bind, fr.stack, fr, call)

    def self_callee(self, call: ast.Call, fr: Frame) -> FuncInfo | None:
        """the function of the routing package a call runs: a method through self / type(self) / self.__class__ / the
        class name, or a module-level function."""
        f = call.func
        if isinstance(f, ast.Attribute) and fr.fi.cls is not None:
            v = f.value
            own = astq.is_name(v, "self") or (isinstance(v, ast.Attribute) and v.attr == "__class__" and astq.is_name(v.value, "self")) \
                or (isinstance(v, ast.Call) and astq.is_name(v.func, "type") and len(v.args) == 1 and astq.is_name(v.args[0], "self"))
            if own:
                _, what = self.repo.lookup(fr.fi.cls, f.attr)
                return what if isinstance(what, FuncInfo) else None
        fq = self.resolves_to(fr, f)
        if fq is not None and fq.startswith("werkzeug.routing."):
            what = self.repo.try_func(fq)
            if what is not None and (what.cls is None or isinstance(f, ast.Attribute)):
                return what
        return None

    def feasible(self, ret: ast.AST, fr: Frame) -> bool:
        """a return is dropped when a dominating test on a plain name is decided by the constants bound to it."""
        node = fr.cfg.node_of(ret)
        if node is None:
            return True
        for tnode, label in fr.cfg.guards(node):
            if tnode.kind == "test" and isinstance(tnode.ast, ast.Name):
                v = self.ev(tnode.ast, fr)
                if v.consts is not None and v.consts and not v.labs and not v.structured() and not v.urls:
                    truth = {bool(c) for c in v.consts}
                    if (truth == {True} and label == "F") or (truth == {False} and label == "T"):
                        return False
        return True

    def inline(self, callee: FuncInfo, call: ast.Call, fr: Frame) -> Abs:
        if callee.fq in fr.stack or len(fr.stack) > 10:
            return BOTTOM
        nf = self.call_frame(callee, call, fr)
        self.ctx.saw(callee)
        if self._inlined is not None and self._inlined[0] is fr:
            self._inlined[1].append(callee)
        if isinstance(callee.node, ast.AsyncFunctionDef):  # a coroutine / async generator object: not modelled
            return join_all(nf.bind.values()).cooked((f"{callee.qualname} is async",), vague=True)
        yields = [n for n in walk_no_nested(callee.node) if isinstance(n, (ast.Yield, ast.YieldFrom))]
        if yields:
            # a generator function: the call gives an iterator over what the (feasible) yields produce
            elems = [(self.ev(y.value, nf) if y.value is not None else none_abs()) if isinstance(y, ast.Yield) else part(self.ev(y.value, nf))
                     for y in yields if self.feasible(y, nf)]
            return Abs(it=join_all(elems))
        rets = [r for r in astq.returns_of(callee.node) if self.feasible(r, nf)]
        if not rets:
            return none_abs()
        return join_all(self.ev(r.value, nf) if r.value is not None else none_abs() for r in rets)

    # -- names ----------------------------------------------------------
    def ev_name(self, e: ast.Name, fr: Frame) -> Abs:
        g = bound_in_enclosing_comp(e, fr.fi.node)
        if g is not None:
            comp = getattr(g, "_parent", None)
            if comp is not None and comp.generators[0] is g and any(x is e for x in ast.walk(g.iter)):
                g = None  # the first iterable of a comprehension is evaluated in the enclosing scope
        if g is not None and ("comp", id(g)) in fr.busy:
            return BOTTOM
        if g is not None:
            fr.busy.add(("comp", id(g)))
            try:
                return self._comp_var(e, g, fr)
            finally:
                fr.busy.discard(("comp", id(g)))
        node = fr.cfg.node_of(e)
        defs = fr.rd.reaching(node, e.id) if node is not None else frozenset()
        if not defs:
            return BOUND  # module-level name, builtin
        base = join_all(self.ev_def(d, fr) for d in defs)
        w = self.written(e.id, fr)
        return base if w is None else join(base, w)

    def _comp_var(self, e: ast.Name, g: ast.comprehension, fr: Frame) -> Abs:
        """a comprehension variable: an element of the iterable (by position when the target is a flat tuple)."""
        v = part(self.ev(g.iter, fr))
        if isinstance(g.target, ast.Name):
            return v
        if isinstance(g.target, (ast.Tuple, ast.List)) and not any(isinstance(y, ast.Starred) for y in g.target.elts):
            for i, x in enumerate(g.target.elts):
                if astq.is_name(x, e.id):
                    return part(v, i)
        return v.cooked(select=True)

    def written(self, name: str, fr: Frame) -> Abs | None:
        """what the function stores into the value a local holds (flow-insensitive: any store anywhere in the function)."""
        ws = fr.writes().get(name)
        key = ("written", name)
        if not ws or key in fr.busy:
            return None
        fr.busy.add(key)
        try:
            elems: list[Abs] = []
            whole: list[Abs] = []
            for how, k, v in ws:
                val = self.ev(v, fr)
                if how in ("elem", "item"):
                    elems.append(val)
                    if k is not None:
                        whole.append(self.ev(k, fr).cooked())
                elif how == "merge":
                    elems.append(part(val))
                elif how == "key":
                    whole.append(val.cooked())
                else:
                    whole.append(val.cooked(vague=val.structured()))
            out = _labels_only(join_all(whole)) if whole else BOTTOM
            return join(out, Abs(it=join_all(elems), consts=frozenset(), plain=False)) if elems else out
        finally:
            fr.busy.discard(key)

    def ev_def(self, d: Def, fr: Frame) -> Abs:
        if d.kind == "param":
            return fr.bind.get(d.name, BOUND)
        if id(d) in fr.busy:
            return BOTTOM
        fr.busy.add(id(d))
        try:
            if d.kind in ("assign", "walrus") and d.value is not None:
                return self.ev(d.value, fr)
            starred = isinstance(getattr(d.target, "_parent", None), ast.Starred)
            if d.kind == "unpack" or (d.kind == "assign" and d.value is None):
                if d.value is None or d.index is None or starred:  # nested / starred target
                    return self.ev(getattr(d.stmt, "value", None), fr).cooked(select=True)
                return part(self.ev(d.value, fr), d.index)
            if d.kind == "aug":
                base = join_all(self.ev_def(x, fr) for x in fr.rd.reaching(d.node, d.name)) if d.node is not None else BOTTOM
                tail = self.query_tail(d.value, fr) if isinstance(getattr(d.stmt, "op", None), ast.Add) else None
                if base.urls and not base.plain and tail is not None:
                    return Abs(urls=tuple(u.with_query(tail) for u in base.urls), plain=False)
                return join(base, self.ev(d.value, fr)).cooked()
            if d.kind == "for":
                v = part(self.ev(getattr(d.stmt, "iter", None) if d.value is None else d.value, fr))  # any element of the iterable
                if d.value is None or starred:
                    return v.cooked(select=True)
                return v if d.index is None else part(v, d.index)
            if d.kind == "with":
                if d.value is None:  # nested target
                    return join_all(self.ev(i.context_expr, fr) for i in getattr(d.stmt, "items", ())).cooked(select=True)
                return self.ev(d.value, fr).cooked()
            if d.kind == "except":
                return lab(f"matcher exception `{d.name}`")
            return BOUND  # import, def, del
        finally:
            fr.busy.discard(id(d))

    def query_tail(self, e: ast.AST | None, fr: Frame, depth: int = 0) -> Labels | None:
        """``f"?{q}"`` / ``"?" + q`` -> labels of q (unchanged-flags kept); also held in a local, and as one alternative
        of a conditional expression whose other alternative is the empty string (no query: nothing appended)."""
        if e is None or depth > 4:
            return None
        if isinstance(e, ast.Name):
            r = self.single_value(e, fr)
            return self.query_tail(r, fr, depth + 1) if r is not e else None
        if isinstance(e, ast.IfExp):
            alts = [frozenset() if const_str(x) == "" else self.query_tail(x, fr, depth + 1) for x in (e.body, e.orelse)]
            if any(a is None for a in alts) or not any(alts):
                return None
            return frozenset().union(*alts)  # type: ignore[arg-type]
        return self.query_tail_pieces(self.pieces(e, fr, resolve=False), fr)

    def url_with_tail(self, pieces: list[Piece], fr: Frame) -> Abs | None:
        """<an assembled URL> followed by a query tail -> the URL with that query."""
        if len(pieces) < 2 or pieces[0][0] != "e":
            return None
        first = self.ev(pieces[0][1], fr)
        if not first.urls or first.plain:
            return None
        rest = pieces[1:]
        tail = self.query_tail(rest[0][1], fr) if len(rest) == 1 and rest[0][0] == "e" else self.query_tail_pieces(rest, fr)
        if tail is None:
            return None
        return Abs(urls=tuple(u.with_query(tail) for u in first.urls), plain=False)

    def query_tail_pieces(self, pieces: list[Piece], fr: Frame) -> Labels | None:
        pieces = self._fuse(pieces)
        if len(pieces) >= 2 and pieces[0] == ("c", "?") and all(p[0] == "e" for p in pieces[1:]):
            out: set = set()
            for p in pieces[1:]:
                out |= _keep_raw(self.ev(p[1], fr))
            return frozenset(out)
        return None

    # -- expressions ------------------------------------------------------
    def ev(self, e: ast.AST | None, fr: Frame) -> Abs:
        if e is None:
            return none_abs()
        if isinstance(e, ast.Constant):
            return Abs(consts=frozenset([e.value]), plain=e.value is not None)
        if isinstance(e, ast.Name):
            return self.ev_name(e, fr)
        if isinstance(e, ast.Attribute):
            if astq.is_name(e.value, "self") and fr.fi.cls is not None:
                if e.attr in self.request_attrs:
                    return lab(f"self.{e.attr}")
                return BOUND
            return self.ev(e.value, fr).cooked(select=True)
        if isinstance(e, ast.Call):
            return self.ev_call(e, fr)
        if isinstance(e, (ast.Tuple, ast.List, ast.Set)):
            if any(isinstance(x, ast.Starred) for x in e.elts) or isinstance(e, ast.Set):
                # the elements, position unknown
                return Abs(it=join_all(part(self.ev(x.value, fr)) if isinstance(x, ast.Starred) else self.ev(x, fr) for x in e.elts))
            return Abs(tup=tuple(self.ev(x, fr) for x in e.elts))
        if isinstance(e, ast.Dict):
            ks = [k.value if isinstance(k, ast.Constant) else _ANY for k in e.keys]
            if e.keys and all(k is not _ANY for k in ks) and len({(type(k), k) for k in ks}) == len(ks):
                return Abs(tup=tuple(self.ev(x, fr) for x in e.values), keys=tuple(ks))
            if not e.keys:
                return Abs(it=BOTTOM)  # an empty mapping display: what is stored into it later is joined in by ev_name
            whole = [self.ev(k, fr).cooked() for k in e.keys if k is not None]
            return join(_labels_only(join_all(whole)) if whole else BOTTOM, Abs(it=join_all(self.ev(x, fr) if k is not None else part(self.ev(x, fr)) for k, x in zip(e.keys, e.values))))
        if isinstance(e, (ast.ListComp, ast.SetComp, ast.GeneratorExp)):
            return Abs(it=self.ev(e.elt, fr))
        if isinstance(e, ast.DictComp):
            return join(_labels_only(self.ev(e.key, fr).cooked()), Abs(it=self.ev(e.value, fr)))
        if isinstance(e, ast.Subscript):
            base = self.ev(e.value, fr)
            idx: ast.AST = e.slice
            if isinstance(idx, ast.UnaryOp) and isinstance(idx.op, ast.USub) and isinstance(idx.operand, ast.Constant) and isinstance(idx.operand.value, int):
                idx = ast.Constant(value=-idx.operand.value)
            if isinstance(idx, ast.Constant):
                return part(base, idx.value)
            if isinstance(idx, ast.Slice) and base.structured():
                return join(Abs(it=part(base)), _labels_only(self.ev(idx, fr).cooked()))  # some of the elements, positions shifted
            return join(part(base), _labels_only(self.ev(idx, fr).cooked()))
        if isinstance(e, ast.IfExp):
            return join(self.ev(e.body, fr), self.ev(e.orelse, fr))
        if isinstance(e, ast.BoolOp):
            # `a or b`: b is not evaluated when a is a true constant, a is not the result when it is a false one
            is_or = isinstance(e.op, ast.Or)
            outs: list[Abs] = []
            for i, x in enumerate(e.values):
                v = self.ev(x, fr)
                truth = {bool(c) for c in v.consts} if v.consts and not v.flat() and not v.structured() and not v.urls else None
                if truth == {is_or}:
                    outs.append(v)
                    break
                if truth == {not is_or} and i < len(e.values) - 1:
                    continue
                outs.append(v)
            return join_all(outs)
        if isinstance(e, ast.NamedExpr):
            return self.ev(e.value, fr)
        if isinstance(e, ast.BinOp) and isinstance(e.op, ast.Add):
            chain: list[ast.AST] = []
            cur: ast.AST = e
            while isinstance(cur, ast.BinOp) and isinstance(cur.op, ast.Add):
                chain.insert(0, cur.right)
                cur = cur.left
            first = self.ev(cur, fr)
            if first.urls and not first.plain:  # url + "?" + query, url + <local holding "?" + query>
                got = self.url_with_tail([("e", cur)] + self._fuse([p for x in chain for p in self.pieces(x, fr, resolve=False)]), fr)
                if got is not None:
                    return got
            rest = [self.ev(x, fr) for x in chain]
            if all(x.structured() and x.keys is None and not x.labs and not x.urls for x in [first] + rest):
                return Abs(it=join_all(part(x) for x in [first] + rest))  # sequences concatenated: the elements of all of them
            return join_all([first] + rest).cooked()
        if isinstance(e, ast.BinOp) and isinstance(e.op, ast.Mod) and composed_parts(e) is not None:
            return self.ev_composed(e, fr)  # "%s?%s" % (url, query)
        if isinstance(e, ast.JoinedStr):
            if len(e.values) >= 2 and isinstance(e.values[0], ast.FormattedValue) and e.values[0].conversion == -1 and e.values[0].format_spec is None:
                left = self.ev(e.values[0].value, fr)
                tail = self.query_tail(ast.JoinedStr(values=e.values[1:]), fr)
                if left.urls and not left.plain and tail is not None:  # f"{url}?{query}"
                    return Abs(urls=tuple(u.with_query(tail) for u in left.urls), plain=False)
            return self.ev_fstring(e, fr)
        if isinstance(e, ast.FormattedValue):
            return self.ev(e.value, fr).cooked()
        if isinstance(e, (ast.Lambda, ast.FunctionDef, ast.AsyncFunctionDef)):
            return BOUND
        kids = [self.ev(ch, fr) for ch in ast.iter_child_nodes(e) if isinstance(ch, (ast.expr, ast.comprehension, ast.keyword, ast.Slice))]
        return join_all(kids).cooked() if kids else BOUND

    def resolves_to(self, fr: Frame, func: ast.AST) -> str | None:
        d = dotted(func)
        if d is None:
            return None
        return self.repo.resolve(fr.fi.module, d, fr.fi.module.local_imports(fr.fi.node))

    def is_builtin(self, f: ast.AST, fr: Frame) -> str | None:
        """the name of the builtin a call's function expression denotes (not rebound in the function or the module)."""
        if not isinstance(f, ast.Name) or self.resolves_to(fr, f) != f"builtins.{f.id}":
            return None
        node = fr.cfg.node_of(f)
        if node is not None and fr.rd.reaching(node, f.id):
            return None
        return f.id

    def ev_call(self, c: ast.Call, fr: Frame) -> Abs:
        callee = self.self_callee(c, fr)
        if callee is not None:
            return self.inline(callee, c, fr)
        comp = composed_parts(c)
        if comp is not None:  # "?".join((url, query)), "{}?{}".format(url, query): the same as the f-string
            return self.ev_composed(c, fr)
        if isinstance(c.func, ast.Attribute) and c.func.attr == "join" and const_str(c.func.value) == "?" and len(c.args) == 1 and not c.keywords and not isinstance(c.args[0], ast.Starred):
            # "?".join(parts), parts a list that starts with the assembled URL: what else is (later) put into it is the query
            v = self.ev(c.args[0], fr)
            if v.tup and v.keys is None and not v.labs and v.tup[0].urls and not v.tup[0].plain and not v.tup[0].structured():
                rest = list(v.tup[1:]) + ([v.it] if v.it is not None else [])
                tail: set = set()
                for x in rest:
                    tail |= _keep_raw(x)
                return Abs(urls=tuple(u.with_query(frozenset(tail)) for u in v.tup[0].urls), plain=False)
        fq = self.resolves_to(fr, c.func)
        if fq == URLUNSPLIT:
            return self.ev_urlunsplit(c, fr)
        f = c.func
        simple = not c.keywords and not any(isinstance(a, ast.Starred) for a in c.args)
        b = self.is_builtin(f, fr)
        if b is not None and simple:
            if b == "next" and 1 <= len(c.args) <= 2:
                # an element of the iterator, or the default
                return join(part(self.ev(c.args[0], fr)), self.ev(c.args[1], fr)) if len(c.args) == 2 else part(self.ev(c.args[0], fr))
            if b == "iter" and len(c.args) == 2 and isinstance(c.args[0], ast.Lambda) and not _fn_has_params(c.args[0]):
                return Abs(it=self.ev(c.args[0].body, fr))  # iter(lambda: <expr>, sentinel): the values <expr> takes
            if b in _SAME_ELEMENTS and len(c.args) == (2 if b == "filter" else 1):
                v = self.ev(c.args[-1], fr)
                if v.structured():
                    if b in ("list", "tuple") and v.it is None and v.keys is None:
                        return Abs(v.labs, v.tup, het=v.het, weak=v.weak)  # same elements at the same positions
                    return join(Abs(it=part(v)), _labels_only(self.ev(c.args[0], fr).cooked())) if b == "filter" else Abs(it=part(v))
            if b == "enumerate" and len(c.args) == 1:
                return Abs(it=Abs(tup=(BOUND, part(self.ev(c.args[0], fr)))))
            if b == "zip" and c.args:
                return Abs(it=Abs(tup=tuple(part(self.ev(a, fr)) for a in c.args)))
        if b == "dict" and not c.args and c.keywords and all(k.arg is not None for k in c.keywords):
            return Abs(tup=tuple(self.ev(k.value, fr) for k in c.keywords), keys=tuple(k.arg for k in c.keywords))
        recv = self.ev(f.value, fr) if isinstance(f, ast.Attribute) else None
        if recv is not None and recv.structured() and simple:
            if f.attr == "get" and recv.keys is not None and 1 <= len(c.args) <= 2 and isinstance(c.args[0], ast.Constant):
                return join(part(recv, c.args[0].value), self.ev(c.args[1], fr) if len(c.args) == 2 else none_abs())
            if f.attr in ("values", "copy", "__iter__") and not c.args:
                return Abs(recv.labs, recv.tup if f.attr == "copy" else None, it=part(recv) if f.attr != "copy" else recv.it, keys=recv.keys if f.attr == "copy" else None, het=recv.het, weak=recv.weak)
            if f.attr == "items" and not c.args and recv.keys is None:
                return Abs(it=Abs(tup=(_labels_only(Abs(recv.labs, het=recv.het, weak=recv.weak).cooked(select=True)), part(recv))))
            if f.attr == "__next__" and not c.args:
                return part(recv)
        parts = [self.ev(a.value if isinstance(a, ast.Starred) else a, fr) for a in c.args] + [self.ev(k.value, fr) for k in c.keywords]
        if recv is not None:
            # a method of a value: what it gives may be a part of the value
            parts.append(_labels_only(recv.cooked(select=True)) if recv.structured() or recv.het else recv)
        allv = join_all(parts) if parts else BOUND
        if fq in QUOTE_FNS:
            first = c.args[0] if c.args and not isinstance(c.args[0], ast.Starred) else next((k.value for k in c.keywords if k.arg == "string"), None)
            self.quote_calls.setdefault((id(c), fr.stack), (c, fr, self.ev(first, fr) if first is not None else allv))
        if fq == URLJOIN:
            self.urljoins.append((c, fr))
            r = allv.cooked((f"urljoin at {fr.fi.qualname}",))
            # urljoin is a modelled operation (its own obligation below; its result is not a URL assembled position by
            # position), not a place where the analysis loses track of an assembled URL
            r.notes = tuple(n for n in r.notes if not n.startswith(URL_LOST))
            return r
        if isinstance(f, ast.Attribute) and f.attr == "build" and not astq.is_name(f.value, "self"):
            # Rule.build(values) -> (domain part declared by the rule, path built from the values) | None
            first = c.args[0] if c.args and not isinstance(c.args[0], ast.Starred) else next((k.value for k in c.keywords if k.arg == "values"), None)
            self.rule_builds.setdefault((id(c), fr.stack), (c, fr, self.ev(first, fr) if first is not None else allv))
            return Abs(tup=(BOUND, allv.cooked()))
        return allv.cooked()

    # -- URL assembly sites -------------------------------------------------
    def single_value(self, e: ast.AST, fr: Frame) -> ast.AST:
        """follow a local name that has exactly one reaching plain assignment to the expression assigned."""
        for _ in range(6):
            if not isinstance(e, ast.Name):
                break
            node = fr.cfg.node_of(e)
            defs = list(fr.rd.reaching(node, e.id)) if node is not None else []
            if len(defs) == 1 and defs[0].kind == "assign" and defs[0].value is not None:
                e = defs[0].value
            else:
                break
        return e

    def pieces(self, e: ast.AST, fr: Frame, resolve: bool = True) -> list[Piece]:
        """string composition -> constant text and expression pieces, in order."""
        if resolve:
            r = self.single_value(e, fr)
            if r is not e and isinstance(r, (ast.JoinedStr, ast.BinOp, ast.Call, ast.Constant)):
                return self.pieces(r, fr, resolve)
        s = const_str(e)
        if s is not None:
            return [("c", s)]
        if isinstance(e, ast.JoinedStr):
            out: list[Piece] = []
            for v in e.values:
                if isinstance(v, ast.Constant):
                    out.append(("c", str(v.value)))
                elif isinstance(v, ast.FormattedValue) and v.conversion == -1 and v.format_spec is None:
                    out += self.pieces(v.value, fr, resolve)
                else:
                    out.append(("e", v))
            return out
        if isinstance(e, ast.BinOp) and isinstance(e.op, ast.Add):
            return self.pieces(e.left, fr, resolve) + self.pieces(e.right, fr, resolve)
        comp = composed_parts(e)
        if comp is not None:
            out = []
            for x in comp:
                out += [("c", x.value)] if isinstance(x, ast.Constant) and isinstance(x.value, str) and getattr(x, "lineno", None) is None else self.pieces(x, fr, resolve)
            return out
        return [("e", e)]

    @staticmethod
    def _fuse(pieces: list[Piece]) -> list[Piece]:
        out: list[Piece] = []
        for p in pieces:
            if p[0] == "c" and p[1] == "":
                continue
            if p[0] == "c" and out and out[-1][0] == "c":
                out[-1] = ("c", out[-1][1] + p[1])
            else:
                out.append(p)
        return out

    def names_root(self, e: ast.AST, fr: Frame) -> bool:
        """the expression (locals with one definition replaced by what they were assigned) reads the script root attribute."""
        return any(is_self_attr(n) and n.attr in self.root_attrs for q in self.pieces(e, fr, True) if q[0] == "e" for n in ast.walk(self.single_value(q[1], fr)))

    def _strip_state(self, ex: ast.AST, both_ends: bool = True) -> str:
        """does the expression give its request data with the leading slashes stripped?  yes / no / unknown.
        both_ends: .strip('/') counts too (where trailing slashes do not matter)."""
        if isinstance(ex, ast.IfExp):
            alts = {self._strip_state(ex.body, both_ends), self._strip_state(ex.orelse, both_ends)}
            return "no" if "no" in alts else ("unknown" if "unknown" in alts else "yes")
        if isinstance(ex, ast.Constant):
            return "yes"
        if isinstance(ex, ast.Call) and isinstance(ex.func, ast.Attribute):
            if ex.func.attr in (("lstrip", "strip") if both_ends else ("lstrip",)) and len(ex.args) == 1 and not ex.keywords and "/" in (const_str(ex.args[0]) or ""):
                return "yes"
            if ex.func.attr in _PLAIN_STR_METHODS or ex.func.attr in ("lstrip", "strip"):
                return "no"  # a str method that keeps (some) leading slashes
        if isinstance(ex, ast.Call):
            return "unknown"  # a helper / another way of stripping: not modelled
        return "no"  # the value as it is (name, attribute, subscript, ...)

    def check_path(self, pieces: list[Piece], fr: Frame, prefix: t.Sequence[ast.AST] = ()) -> tuple[bool | None, str, Labels]:
        """path = bound prefix (naming the script root) + '/' + request data stripped of its leading slashes.
        -> (True / False / None = the shape is not understood, fact, labels in the path position)."""
        # locals that hold a part of the path (one reaching definition) are replaced by what they were assigned
        pieces = self._fuse([q for p in pieces for q in (self.pieces(p[1], fr, True) if p[0] == "e" else [p])])
        problems: list[str] = []
        doubts: list[str] = []
        labs: set = set()
        first_taint: int | None = None
        for i, p in enumerate(pieces):
            if p[0] == "c":
                continue
            pl = self.ev(p[1], fr).flat()
            if not pl:
                continue
            labs |= pl
            if first_taint is None:
                first_taint = i
            ex = p[1]
            st = self._strip_state(ex)
            if st == "no":
                problems.append(f"`{norm(ex)}` ({', '.join(names(pl))}) is inserted without .lstrip('/')")
            elif st == "unknown":
                doubts.append(f"cannot tell whether `{norm(ex)}` ({', '.join(names(pl))}) has its leading slashes stripped")
            if i == 0:
                problems.append(f"`{norm(ex)}` stands first in the path position")
            elif pieces[i - 1][0] == "c":
                if not pieces[i - 1][1].endswith("/"):
                    problems.append(f"`{norm(ex)}` is not preceded by a literal '/'")
            elif not (is_self_attr(pieces[i - 1][1]) and pieces[i - 1][1].attr in self.slashed_root_attrs):  # the root attribute itself is stored with a trailing '/'
                doubts.append(f"cannot tell whether `{norm(pieces[i - 1][1])}`, which precedes `{norm(ex)}`, ends with '/'")
        own = [p[1] for p in (pieces if first_taint is None else pieces[:first_taint]) if p[0] == "e"]
        has_root = any(self.names_root(h, fr) for h in list(prefix) + own)
        if not has_root:
            opaque = [h for h in own if any(isinstance(n, ast.Call) or (isinstance(n, ast.Name) and n.id != "self") for n in ast.walk(h))]
            if opaque:
                doubts.append(f"cannot tell whether the bound prefix ({', '.join('`' + norm(h) + '`' for h in opaque)}) contains the script root")
            else:
                problems.append(f"the bound prefix does not contain the script root (self.{'/'.join(sorted(self.root_attrs))})")
        shape = " + ".join(repr(p[1]) if p[0] == "c" else f"`{norm(p[1])}`" for p in pieces)
        verdict: bool | None = False if problems else (None if doubts else True)
        return verdict, (f"path = {shape}" if verdict else f"path = {shape}: " + "; ".join(problems + doubts)), frozenset(labs)

    def _register(self, u: Url) -> Abs:
        k = id(u.site)
        self.url_sites[k] = self.url_sites[k].merged(u) if k in self.url_sites else u
        return Abs(urls=(u,), plain=False)

    def ev_urlunsplit(self, c: ast.Call, fr: Frame) -> Abs:
        arg = self.single_value(c.args[0], fr) if c.args else None
        if not isinstance(arg, ast.Tuple) or len(arg.elts) != 5 or any(isinstance(x, ast.Starred) for x in arg.elts):
            parts = join_all(self.ev(a, fr) for a in c.args) if c.args else BOUND
            return parts.cooked((f"urlunsplit in {fr.fi.qualname} is not given a literal 5-tuple",))
        scheme, netloc, path, query, _frag = arg.elts
        ok, fact, plabs = self.check_path(self.pieces(path, fr), fr)
        q = self.ev(query, fr)
        qlabs = _keep_raw(q)
        self.scheme_sites.append((c, fr, [("e", scheme)]))
        sv = self.ev(scheme, fr)
        nv = self._ev_host([("e", netloc)], c, fr)
        return self._register(Url(c, fr.fi, "urlunsplit((scheme, host, path, query, fragment))", sv.flat(), nv.flat(), plabs, ok, fact, qlabs, _weak_positions(sv, nv)))

    def _ev_host(self, pieces: list[Piece], site: ast.AST, fr: Frame) -> Abs:
        """evaluate the host position of an assembly site, noting which functions of the routing package the assembling
        function calls for it (the host computation)."""
        saved, self._inlined = self._inlined, (fr, [])
        try:
            v = join_all(self.ev(p[1], fr) for p in pieces if p[0] == "e")
            self.host_sites.append((site, fr, pieces, list(self._inlined[1])))
        finally:
            self._inlined = saved
        return v

    def ev_composed(self, e: ast.AST, fr: Frame) -> Abs:
        """a string put together from pieces by str.join / str.format / %: an assembled URL plus a query tail, an
        absolute URL form, or a plain string."""
        got = self.url_with_tail(self._fuse(self.pieces(e, fr, resolve=False)), fr)
        return got if got is not None else self.ev_fstring(e, fr)

    def piece_alternatives(self, raw: list[Piece], fr: Frame) -> tuple[ast.IfExp, list[list[Piece]]] | None:
        """one piece (possibly through a local) is a conditional expression between two string compositions of which one
        holds the `//` of an absolute URL (`netloc = f"{scheme}://{host}" if scheme else f"//{host}"`): the two piece
        lists the whole composition can be, with the condition."""
        for i, p in enumerate(raw):
            if p[0] != "e":
                continue
            v = self.single_value(p[1], fr)
            if not isinstance(v, ast.IfExp):
                continue
            subs = [self.pieces(b, fr, resolve=False) for b in (v.body, v.orelse)]
            if any(q[0] == "c" and "//" in q[1] for sp in subs for q in sp):
                return v, [self._fuse(raw[:i] + sp + raw[i + 1:]) for sp in subs]
        return None

    def _zones(self, raw: list[Piece], fr: Frame) -> dict[str, list[Piece]]:
        zones: dict[str, list[Piece]] = {"scheme": [], "netloc": [], "path": [], "query": []}
        state = "scheme"
        for p in raw:
            if p[0] == "e":
                if state == "netloc" and any(q[0] == "e" for q in zones["netloc"]) and self.names_root(p[1], fr):
                    state = "path"  # the script root follows the host: the path begins here (no literal '/' needed in between)
                zones[state].append(p)
                continue
            s = p[1]
            while s:
                if state == "scheme":
                    if "//" in s:
                        zones["scheme"].append(("c", s.split("//", 1)[0]))
                        s = s.split("//", 1)[1]
                        state = "netloc"
                        continue
                    zones["scheme"].append(("c", s))
                    s = ""
                elif state == "netloc":
                    cut = min([i for i in (s.find("/"), s.find("?")) if i >= 0], default=-1)
                    if cut < 0:
                        zones["netloc"].append(("c", s))
                        s = ""
                    else:
                        zones["netloc"].append(("c", s[:cut]))
                        state = "path" if s[cut] == "/" else "query"
                        s = s[cut:] if state == "path" else s[cut + 1:]
                elif state == "path":
                    if "?" in s:
                        zones["path"].append(("c", s.split("?", 1)[0]))
                        s = s.split("?", 1)[1]
                        state = "query"
                        continue
                    zones["path"].append(("c", s))
                    s = ""
                else:
                    zones["query"].append(("c", s))
                    s = ""
        return zones

    @staticmethod
    def _as_expr(pieces: list[Piece]) -> ast.AST:
        """the pieces as one (synthetic) f-string."""
        return ast.JoinedStr(values=[ast.Constant(value=p[1]) if p[0] == "c" else ast.FormattedValue(value=p[1], conversion=-1, format_spec=None) for p in pieces])

    def _zone_pieces(self, variants: list[dict[str, list[Piece]]], zone: str, cond: ast.IfExp | None) -> list[Piece]:
        """the pieces of one position for the constant executor: the same in every variant, or one synthetic conditional
        expression over the variants (evaluated where the real one is)."""
        per = [self._fuse(z[zone]) for z in variants]
        if len(per) == 1 or cond is None or all([(k, v if k == "c" else norm(v)) for k, v in x] == [(k, v if k == "c" else norm(v)) for k, v in per[0]] for x in per[1:]):
            return per[0]
        synth = ast.IfExp(test=cond.test, body=self._as_expr(per[0]), orelse=self._as_expr(per[1]))
        synth._anchor = cond  # type: ignore[attr-defined]
        return [("e", synth)]

    def ev_fstring(self, e: ast.AST, fr: Frame) -> Abs:
        raw = self._fuse(self.pieces(e, fr, resolve=False))
        alt = self.piece_alternatives(raw, fr)
        variants = alt[1] if alt is not None else [raw]
        if alt is None or not all(any(p[0] == "c" and "//" in p[1] for p in v) for v in variants):
            variants, alt = [raw], None
        if not any(p[0] == "c" and "//" in p[1] for p in variants[0]):
            exprs = [p[1] for p in raw if p[0] == "e"]
            return join_all(self.ev(x, fr) for x in exprs).cooked() if exprs else Abs(plain=True)  # not an absolute URL form: a plain string
        zs = [self._zones(v, fr) for v in variants]
        cond = alt[0] if alt is not None else None
        self.scheme_sites.append((e, fr, self._zone_pieces(zs, "scheme", cond)))
        nv = self._ev_host(self._zone_pieces(zs, "netloc", cond), e, fr)
        out = BOTTOM
        for zones in zs:
            ok, fact, plabs = self.check_path(zones["path"], fr, prefix=[p[1] for p in zones["scheme"] + zones["netloc"] if p[0] == "e"])
            q: set = set()
            for p in zones["query"]:
                if p[0] == "e":
                    q |= _keep_raw(self.ev(p[1], fr))
            sv = join_all(self.ev(p[1], fr) for p in zones["scheme"] if p[0] == "e")
            hv = join_all(self.ev(p[1], fr) for p in zones["netloc"] if p[0] == "e") if len(zs) > 1 else nv
            out = join(out, self._register(Url(e, fr.fi, "f-string {scheme}//{host}{root}/{path}", sv.flat(), hv.flat(), plabs, ok, fact, frozenset(q), _weak_positions(sv, hv))))
        return out


# ---------------------------------------------------------------------
# helpers for the rules


def _is_redirect_exc(ip: Interp, fi: FuncInfo, r: ast.Raise) -> bool:
    e = r.exc.func if isinstance(r.exc, ast.Call) else r.exc
    d = dotted(e) if e is not None else None
    if d is None:
        return False
    return ip.repo.resolve(fi.module, d, fi.module.local_imports(fi.node)) == REDIRECT_EXC


def _excluded(cfg: CFG, node: Node) -> str | None:
    """the application-supplied branch: dominated by `<rule>.redirect_to is not None` (or its truthiness)."""
    for tnode, label in cfg.guards(node):
        a = tnode.ast
        if tnode.kind != "test":
            continue
        if isinstance(a, ast.Attribute) and a.attr == "redirect_to" and label == "T":
            return norm(a)
        cp = astq.cmp_parts(a) if a is not None else None
        if cp and isinstance(cp[0], ast.Attribute) and cp[0].attr == "redirect_to" and astq.is_none(cp[2]):
            if (isinstance(cp[1], ast.IsNot) and label == "T") or (isinstance(cp[1], ast.Is) and label == "F"):
                return norm(a)
    return None


def _site_name(r: ast.Raise) -> str:
    arg = r.exc.args[0] if isinstance(r.exc, ast.Call) and r.exc.args else None
    if isinstance(arg, ast.Call):
        return norm(arg.func) + "(...)"
    return norm(arg) if arg is not None else "?"


# ---------------------------------------------------------------------


def run(ctx: Ctx) -> None:
    repo = ctx.repo
    ctx.rule("R12.1", "every router-made RequestRedirect carries a URL assembled position by position whose scheme/host positions hold bound data only and whose path position is <bound prefix with the script root> + '/' + <request data>.lstrip('/'); urljoin never receives request data outside the redirect_to branch")
    ctx.rule("R12.2", "the path handed to the matcher is '/' + request path with its leading slashes stripped (or empty)")
    ctx.rule("R12.3", "the query position of every router-made redirect URL receives the query_args of this match() call, unchanged or through the mapping encoder")
    ctx.rule("R12.4", "MapAdapter.encode_query_args returns a str argument itself; only non-str arguments are encoded")
    ctx.rule("R12.5", "the matcher proposes a slash redirect only for a rule that admits the request method and websocket flag, and a merged-slash redirect only after the merged path matched")
    ctx.rule("R12.6", "a missing-slash signal raised while walking path P is turned into a redirect to that same P + '/' (not to another path value such as the merged-slash variant)")
    ctx.rule("R12.7", "the values the matcher raises with the alias-redirect signal include everything the values of its match result are made from (converter values and the rule's defaults), on every path to the raise")
    ctx.rule("R12.8", "for an adapter bound to http, https, ws or wss, the scheme position of every router-made redirect URL evaluates - on every path, in the calling context of the redirect - to a scheme of the same security class (https/wss for https/wss, http/ws for http/ws)")

    ctx.rule("R12.9", "the host position of every router-made redirect URL evaluates - on every path, in the calling context of the redirect, with host matching on and off and with and without a bound subdomain - to the host the adapter was bound to: <subdomain>.<server name> in subdomain mode with a non-empty subdomain, else the server name; a domain part the context leaves open is taken to be the bound one")
    ctx.rule("R12.10", "the rule-pair predicate by which the adapter picks a defaults-canonical form for the matched rule is false for every pair of rules whose argument sets differ, and for a build-only candidate")
    ctx.rule("R12.11", "the sort key of the per-endpoint rule lists (the order in which build() and the defaults redirect try rules) places an alias rule strictly after every non-alias rule with the same number of arguments, for all numbers of arguments and defaults")

    ctx.rule("R12.12", "the safe set of every urllib quote() whose result becomes path text of a router redirect URL - the re-quoting of the request path, the converters' to_url, the Rule's builder - folds to a constant without '?', '#' and '%' (and, where the whole request path is re-quoted, with '/')")
    ctx.rule("R12.13", "where a rule's build() is called on the values of the alias-redirect signal, its append_unknown flag evaluates to false in that calling context: values the canonical rule does not take must not become a query string")

    ip = Interp(ctx)
    match = repo.func(f"{ADAPTER}.match")
    for p in REQUEST_PARAMS:
        if p not in match.params:
            raise AnalysisError(f"MapAdapter.match has no parameter `{p}`")
    top = Frame(match, {p: (lab(f"match({p})") if p in REQUEST_PARAMS else BOUND) for p in match.params}, ())
    Q = (f"match({REQUEST_PARAMS[1]})", True)

    # ---------------- R12.1 / R12.3: redirect sites ------------------------
    # match() and the adapter methods it calls (transitively) that raise RequestRedirect themselves, each in the
    # context of its call
    cands = list(ip.adapter.methods.values()) + [f for m in repo.modules.values() if m.name.startswith("werkzeug.routing") for f in m.functions.values()]
    raisers = {fi.fq for fi in cands if any(_is_redirect_exc(ip, fi, r) for r in astq.raises_of(fi.node))}
    grew = True
    while grew:
        grew = False
        for fi in cands:
            if fi.fq in raisers:
                continue
            probe = Frame(fi, {}, ())
            for c in astq.calls(fi.node, nested=False):
                what = ip.self_callee(c, probe)
                if what is not None and what.fq in raisers:
                    raisers.add(fi.fq)
                    grew = True
                    break
    frames: list[Frame] = []

    def visit(fr: Frame) -> None:
        frames.append(fr)
        for c in astq.calls(fr.fi.node, nested=False):
            callee = ip.self_callee(c, fr)
            if callee is not None and callee.fq in raisers and callee.fq not in fr.stack and len(fr.stack) < 6:
                visit(ip.call_frame(callee, c, fr))

    visit(top)
    visited = {fr.fi.fq for fr in frames}
    router: list[tuple[ast.Raise, Frame]] = []
    excluded: list[str] = []
    for fr in frames:
        for r in astq.raises_of(fr.fi.node):
            if not _is_redirect_exc(ip, fr.fi, r):
                continue
            n = fr.cfg.node_of(r)
            ex = _excluded(fr.cfg, n) if n is not None else None
            if ex:
                excluded.append(ex)
            else:
                router.append((r, fr))
    # floor 1: the sites need not stay three separate statements (a refactoring may merge two of them); completeness is
    # the obligation below that no RequestRedirect is constructed outside the analysed call tree
    ctx.floor("R12.1", "router-made RequestRedirect sites reached from MapAdapter.match", len(router), 1)
    ctx.note(f"R12.1: {len(excluded)} RequestRedirect site(s) under the application-supplied redirect_to branch excluded: {excluded}")
    # no RequestRedirect is constructed anywhere else in the routing package
    for m in sorted(repo.modules.values(), key=lambda m: m.name):
        if not m.name.startswith("werkzeug.routing"):
            continue
        fis = list(m.functions.values()) + [f for c in m.classes.values() for f in c.methods.values()]
        for fi in fis:
            if fi.fq in visited:
                continue
            for c in astq.calls(fi.node):
                d = dotted(c.func)
                if d and repo.resolve(fi.module, d, fi.module.local_imports(fi.node)) == REDIRECT_EXC:
                    ctx.ob("R12.1", f"{fi.qualname}: RequestRedirect constructed outside MapAdapter.match's call tree", False, f"`{norm(c)[:80]}` is not covered by the analysis of match()", fi, c, f"RequestRedirect in {fi.qualname}")

    seen_names: dict[str, int] = {}
    router_sites: set[int] = set()
    for r, fr in router:
        nm = _site_name(r)
        seen_names[nm] = seen_names.get(nm, 0) + 1
        sid = nm if seen_names[nm] == 1 else f"{nm} #{seen_names[nm]}"
        arg = r.exc.args[0] if isinstance(r.exc, ast.Call) and r.exc.args else None
        if arg is None:
            raise AnalysisError(f"RequestRedirect raised without a URL argument at {fr.fi.loc(r)}")
        ip.vague = []
        v = ip.ev(arg, fr)
        urls = list(v.urls)
        router_sites |= {id(u.site) for u in urls}
        assembled = bool(urls) and not v.plain
        what = "; ".join(u.desc() for u in urls) or "no positional assembly"
        stray = f"; also a value that is not an assembled URL ({', '.join(v.notes) or 'labels ' + str(names(v.flat()))})" if v.plain else ""
        # reasons why a failing obligation of this site would be "not understood" rather than "violated": a URL that was
        # assembled position by position went through something the interpreter does not model (str(url), a helper
        # outside the routing package), or a call on the way bound its arguments through * / ** it could not match
        unclear = [n for n in v.notes if n.startswith(URL_LOST)] + list(dict.fromkeys(ip.vague))

        def site_ob(rule: str, instance: str, ok: bool, fact: str, key: str, decided: bool = False) -> None:
            if not ok and unclear and not decided:
                ctx.error(f"{rule}: redirect {sid} at {fr.fi.loc(r)}: cannot decide `{instance}` ({fact}): {'; '.join(unclear)}")
            else:
                ctx.ob(rule, f"redirect {sid}: {instance}", ok, fact, fr.fi, r, f"redirect {sid} {key}")

        site_ob("R12.1", "the URL is assembled position by position", assembled, f"value comes from: {what}{stray}", "assembled")
        bad = sorted({f"{pos}<-{n}" for u in urls for pos, n in u._strong()})
        unsure = sorted({f"{pos}<-{n}" for u in urls for pos, n in u.weak})
        if unsure and not bad:
            # the labels got there only through a construct the interpreter cannot follow: not a finding, not a pass
            ctx.error(f"R12.1: redirect {sid} at {fr.fi.loc(r)}: cannot decide whether request data reaches {', '.join(unsure)}: the value passes through a construct the taint analysis does not follow "
                      f"(a part taken out of a value whose parts carry different data after it went through an unmodelled operation, or * / ** arguments){'; ' + '; '.join(v.notes) if v.notes else ''}")
        else:
            site_ob("R12.1", "scheme and host positions hold bound data only", bool(urls) and not bad,
                    "request data in " + ", ".join(bad) if bad else (f"scheme/host labels empty over {len(urls)} URL shape(s) [{what}]" if urls else "no URL shape to inspect"), "scheme/host", decided=bool(bad))
        qok = bool(urls) and all(Q in u.query for u in urls)
        qfact = "; ".join(f"{u.desc()}: query position receives {sorted(n + (' (unchanged)' if raw else ' (transformed)') for n, raw in u.query) or 'nothing'}" for u in urls) or "no URL shape"
        site_ob("R12.3", "query position receives match()'s query_args unchanged or mapping-encoded", qok, qfact, "query")

    # floor 1: every redirect site above already owes a positional assembly; two redirects may share one assembly helper
    ctx.floor("R12.1", "URL assembly sites reached from the redirect sites", len(ip.url_sites), 1)
    for u in sorted(ip.url_sites.values(), key=lambda u: (u.where.fq, getattr(u.site, "lineno", 0))):
        if id(u.site) not in router_sites:
            # a URL form that is not itself the value of a router redirect (the application-supplied redirect_to base, a
            # scheme://host prefix that is extended further): a redirect made from it owes the obligations above
            ctx.note(f"R12.1: {u.where.qualname}: the {u.form.split('(')[0].split(' ')[0]} at {u.where.loc(u.site)} is not the value of a router redirect: path position not judged")
            continue
        if u.path_ok is None:  # shape not understood: neither a pass nor a finding
            ctx.error(f"R12.1: {u.where.qualname}: path position of the {u.form.split('(')[0].split(' ')[0]} at {u.where.loc(u.site)}: {u.path_fact}")
            continue
        ctx.ob("R12.1", f"{u.where.qualname}: path position of {u.form}", u.path_ok, u.path_fact, u.where, u.site, f"{u.where.qualname} path position [{u.form.split('(')[0].split(' ')[0]}]")

    # urljoin: every call in match() and the raising helpers
    # ... and every urljoin call the interpreter met while evaluating the redirect URLs (helpers that build the URL), in
    # each calling context
    uj_sites: dict[int, tuple[ast.Call, list[Frame]]] = {}
    for c, fr in [(c, fr) for fr in frames for c in astq.calls(fr.fi.node)] + list(ip.urljoins):
        d = dotted(c.func)
        if d and repo.resolve(fr.fi.module, d, fr.fi.module.local_imports(fr.fi.node)) == URLJOIN:
            ent = uj_sites.setdefault(id(c), (c, []))
            if not any(f.stack == fr.stack for f in ent[1]):
                ent[1].append(fr)
    n_uj = len(uj_sites)
    for c, frs in uj_sites.values():
        fi = frs[0].fi
        node = frs[0].cfg.node_of(c)
        ex = _excluded(frs[0].cfg, node) if node is not None else None
        if ex:
            ctx.ob("R12.1", f"{fi.qualname}: urljoin only under the redirect_to branch", True, f"dominated by `{ex}`", fi, c, f"urljoin in {fi.qualname}")
            continue
        jv = join_all(ip.ev(a, fr) for fr in frs for a in c.args[1:])
        labs = jv.flat()
        if labs and not jv.strong():
            ctx.error(f"R12.1: {fi.qualname}: cannot decide whether the urljoin at {fi.loc(c)} receives request data ({names(labs)}): the value passes through a construct the taint analysis does not follow")
            continue
        ctx.ob("R12.1", f"{fi.qualname}: urljoin receives no request data", not labs, f"`{norm(c)[:90]}`: joined part carries {names(labs) or 'nothing'}", fi, c, f"urljoin in {fi.qualname}")
    ctx.note(f"R12.1: {n_uj} urljoin call(s) in MapAdapter.match, its raising helpers and the helpers that build the redirect URLs")

    # ---------------- R12.2 ----------------------------------------------------
    _matcher_path(ctx, ip, top)
    # ---------------- R12.4 ----------------------------------------------------
    _encode_query_args(ctx, ip)
    # ---------------- R12.5 / R12.6 / R12.7 (wzsa/rules/_c12_helpers.py) -----------
    matcher_rules(ctx)
    alias_values_rule(ctx)
    # ---------------- R12.8 ----------------------------------------------------
    _scheme_rule(ctx, ip, router_sites)
    # ---------------- R12.9 ----------------------------------------------------
    _host_rule(ctx, ip, router_sites)
    # ---------------- R12.10 / R12.11 (wzsa/rules/_c12_helpers.py) ----------------
    defaults_provider_rule(ctx)
    build_order_rule(ctx)
    # ---------------- R12.12 / R12.13 -------------------------------------------
    _quote_rule(ctx, ip)
    _alias_build_rule(ctx, ip)


# ---------------------------------------------------------------------
# R12.8


def _concrete(a: Abs) -> t.Any:
    """the one Python constant a parameter is bound to in this calling context, if it is one."""
    if a.consts is not None and len(a.consts) == 1 and not a.flat() and not a.structured() and not a.urls:
        return next(iter(a.consts))
    return UNKNOWN


def _context_params(ex: ConstExec, fr: Frame) -> dict[str, t.Any]:
    """constant parameters of a frame: the arguments of the call it was entered from, evaluated by the executor in the
    caller's own context (so `url_scheme=self.url_scheme` or a constant held in a local count), else what the
    interpreter knows about them (constants written at the call, constant defaults)."""
    out = {k: v for k, v in ((k, _concrete(a)) for k, a in fr.bind.items()) if v is not UNKNOWN}
    if fr.parent is None or fr.call is None:
        return out
    a = fr.fi.node.args  # type: ignore[attr-defined]
    pos = [x.arg for x in a.posonlyargs + a.args]
    if fr.fi.cls is not None and "staticmethod" not in fr.fi.decorators and pos:
        pos = pos[1:]
    if any(isinstance(x, ast.Starred) for x in fr.call.args) or any(k.arg is None for k in fr.call.keywords):
        return out
    given = [(pos[i], x) for i, x in enumerate(fr.call.args) if i < len(pos)] + [(k.arg, k.value) for k in fr.call.keywords]
    try:
        _, seen = ex.explore(fr.parent.fi, _context_params(ex, fr.parent), [x for _, x in given])
    except BudgetExceeded:
        return out
    for name, x in given:
        vals = seen[id(x)]
        if name not in out and len(vals) == 1 and vals[0] is not UNKNOWN:
            out[name] = vals[0]  # type: ignore[index]
    return out


def _context_alternatives(ex: ConstExec, fr: Frame, limit: int = 12) -> list[dict[str, t.Any]]:
    """like _context_params, but an argument that takes several constant values on the caller's paths (a scheme
    normalised in the caller and handed to the function that assembles the URL) gives one alternative per value;
    arguments are varied independently (an over-approximation of the caller's paths)."""
    base = _context_params(ex, fr)
    if fr.parent is None or fr.call is None or any(isinstance(x, ast.Starred) for x in fr.call.args) or any(k.arg is None for k in fr.call.keywords):
        return [base]
    a = fr.fi.node.args  # type: ignore[attr-defined]
    pos = [x.arg for x in a.posonlyargs + a.args]
    if fr.fi.cls is not None and "staticmethod" not in fr.fi.decorators and pos:
        pos = pos[1:]
    given = [(pos[i], x) for i, x in enumerate(fr.call.args) if i < len(pos)] + [(k.arg, k.value) for k in fr.call.keywords]
    alts = [base]
    for palt in _context_alternatives(ex, fr.parent, limit):
        try:
            _, seen = ex.explore(fr.parent.fi, palt, [x for _, x in given])
        except BudgetExceeded:
            return [base]
        for name, x in given:
            vals = seen[id(x)]
            if name in base or len(vals) < 2 or any(v is UNKNOWN or not (v is None or isinstance(v, (str, bool, int))) for v in vals):
                continue
            new = [dict(alt, **{name: v}) for alt in alts for v in vals if name not in alt] + [alt for alt in alts if name in alt]
            if len(new) > limit:
                return [base]
            alts = new
    out: list[dict[str, t.Any]] = []
    for alt in alts:
        if alt not in out:
            out.append(alt)
    return out


def _scheme_rule(ctx: Ctx, ip: Interp, router_sites: set[int]) -> None:
    if not ip.scheme_attrs:
        raise AnalysisError(f"MapAdapter.__init__ stores its `{SCHEME_PARAM}` parameter in no attribute")
    by_site: dict[int, dict[str, t.Any]] = {}
    for site, fr, pieces in ip.scheme_sites:
        if id(site) not in router_sites:
            continue
        ckey = fr.stack + tuple(sorted((k, repr(v)) for k, v in ((k, _concrete(a)) for k, a in fr.bind.items()) if v is not UNKNOWN))
        ent = by_site.setdefault(id(site), {"site": site, "fi": fr.fi, "ctxs": {}})
        ent["ctxs"].setdefault(ckey, (fr, pieces))
    ctx.floor("R12.8", "URL assembly sites of router redirects whose scheme position is evaluated", len(by_site), 1)
    execs: dict[str, ConstExec] = {}
    for ent in sorted(by_site.values(), key=lambda x: (x["fi"].fq, getattr(x["site"], "lineno", 0))):
        fi: FuncInfo = ent["fi"]
        site = ent["site"]
        form = "urlunsplit" if isinstance(site, ast.Call) else "f-string"
        bad: list[str] = []
        facts: list[str] = []
        reached = 0
        undecided = False
        for fr, pieces in ent["ctxs"].values():
            exprs = [p[1] for p in pieces if p[0] == "e"]
            via = " <- ".join(x.rsplit(".", 1)[-1] for x in reversed(fr.stack[-3:]))
            row: list[str] = []
            for s in SCHEMES:
                ex = execs.setdefault(s, ConstExec(ctx.repo, {a: s for a in ip.scheme_attrs}))
                alternatives = _context_alternatives(ex, fr)
                ptxt = " | ".join(", ".join(f"{k}={v!r}" for k, v in sorted(params.items())) or "no constant arguments" for params in alternatives)
                texts: list[t.Any] = []
                for params in alternatives:
                    try:
                        _, seen = ex.explore(fr.fi, params, exprs)
                    except BudgetExceeded:
                        raise AnalysisError(f"{fi.qualname}: too many paths to evaluate the scheme position of the {form} at {fi.loc(site)}") from None
                    part_texts: list[t.Any] = [""]
                    for p in pieces:
                        if p[0] == "c":
                            part_texts = [x if x is UNKNOWN else x + p[1] for x in part_texts]
                        else:
                            part_texts = [UNKNOWN if (x is UNKNOWN or v is UNKNOWN or not (v is None or isinstance(v, str))) else x + (v or "") for x in part_texts for v in seen[id(p[1])]]
                    texts += part_texts
                if not texts:
                    continue  # not reached in this context
                reached += 1
                if any(x is UNKNOWN for x in texts):
                    shape = " + ".join(repr(p[1]) if p[0] == "c" else f"`{norm(p[1])}`" for p in pieces)
                    # cannot decide (exit 2 unless another obligation is violated: then that finding is what gets reported)
                    ctx.error(f"R12.8: {fi.qualname} ({via}): the scheme position {shape} of the {form} at {fi.loc(site)} does not evaluate to constants for an adapter bound to {s!r}")
                    undecided = True
                    break
                got = sorted(set(texts))
                row.append(f"{s} -> {got}")
                wrong = [x for x in got if (x[:-1] if x.endswith(":") else x) not in SCHEMES or ((x[:-1] if x.endswith(":") else x) in SECURE) != (s in SECURE)]
                if wrong:
                    bad.append(f"bound to {s!r} it can be {wrong} ({via}; {ptxt})")
            facts.append(f"[{via}] " + ", ".join(row))
        if undecided and not bad:
            continue
        if not reached:
            raise AnalysisError(f"{fi.qualname}: the {form} at {fi.loc(site)} is reached in no evaluated context")
        ctx.ob("R12.8", f"{fi.qualname}: scheme position of the {form} stays in the security class of the bound scheme", not bad,
               ("; ".join(bad) + " | " if bad else "") + "scheme position by bound scheme: " + " ".join(facts), fi, site, f"{fi.qualname} scheme position [{form}]")


# ---------------------------------------------------------------------
# R12.9

BOUND_SERVER = "srv.example:8443"
# (host matching, bound subdomain): Map.bind gives a host-matching adapter no subdomain and every other adapter a str
BOUND_CONFIGS = ((True, None), (False, ""), (False, "sub"))


def _init_attrs(init: FuncInfo, param: str) -> set[str]:
    """the attributes __init__ assigns from its parameter `param`."""
    return {tg.attr for st in walk_no_nested(init.node) if isinstance(st, (ast.Assign, ast.AnnAssign)) and st.value is not None and param in astq.names_in(st.value)
            for tg in (st.targets if isinstance(st, ast.Assign) else [st.target]) if is_self_attr(tg)}


def _host_rule(ctx: Ctx, ip: Interp, router_sites: set[int]) -> None:
    ainit = ip.adapter.methods["__init__"]
    minit = ctx.repo.cls(f"{MAP}.Map").methods.get("__init__")
    roles = {"server_name": _init_attrs(ainit, "server_name"), "subdomain": _init_attrs(ainit, "subdomain"), "map": _init_attrs(ainit, "map"),
             "host_matching": _init_attrs(minit, "host_matching") if minit is not None else set()}
    if any(len(v) != 1 for v in roles.values()):
        raise AnalysisError(f"MapAdapter.__init__ / Map.__init__: the attributes holding the bound server name, subdomain, map and the host-matching flag are not unique: { {k: sorted(v) for k, v in roles.items()} }")
    a_server, a_sub, a_map, a_hm = (next(iter(roles[k])) for k in ("server_name", "subdomain", "map", "host_matching"))
    by_site: dict[int, dict[str, t.Any]] = {}
    for site, fr, pieces, hostfns in ip.host_sites:
        if id(site) not in router_sites:
            continue
        ckey = fr.stack + tuple(sorted((k, repr(v)) for k, v in ((k, _concrete(a)) for k, a in fr.bind.items()) if v is not UNKNOWN))
        ent = by_site.setdefault(id(site), {"site": site, "fi": fr.fi, "ctxs": {}})
        ent["ctxs"].setdefault(ckey, (fr, pieces, hostfns))
    ctx.floor("R12.9", "URL assembly sites of router redirects whose host position is evaluated", len(by_site), 1)
    decided = 0
    for ent in sorted(by_site.values(), key=lambda x: (x["fi"].fq, getattr(x["site"], "lineno", 0))):
        fi: FuncInfo = ent["fi"]
        site = ent["site"]
        form = "urlunsplit" if isinstance(site, ast.Call) else "f-string"
        bad: list[str] = []
        facts: list[str] = []
        for fr, pieces, hostfns in ent["ctxs"].values():
            exprs = [p[1] for p in pieces if p[0] == "e"]
            via = " <- ".join(x.rsplit(".", 1)[-1] for x in reversed(fr.stack[-3:]))
            row: list[str] = []
            open_ctx: list[str] = []
            for hm, sub in BOUND_CONFIGS:
                dom = BOUND_SERVER if hm else sub  # the domain part the matcher is given for this adapter
                want = BOUND_SERVER if hm or not sub else f"{sub}.{BOUND_SERVER}"
                cfg_txt = f"host_matching={hm}, subdomain={sub!r}"
                ex = ConstExec(ctx.repo, {a_server: BOUND_SERVER, a_sub: sub, f"{a_map}.{a_hm}": hm}, fill={f.fq: dom for f in hostfns if f.cls is ip.adapter})
                try:
                    _, seen = ex.explore(fr.fi, _context_params(ex, fr), exprs)
                except BudgetExceeded:
                    open_ctx.append(f"{cfg_txt}: too many paths")
                    continue
                texts: list[t.Any] = [""]
                for p in pieces:
                    if p[0] == "c":
                        texts = [x if x is UNKNOWN else x + p[1] for x in texts]
                    else:
                        texts = [UNKNOWN if (x is UNKNOWN or not isinstance(v, str)) else x + v for x in texts for v in seen[id(p[1])]]
                if not texts:
                    continue  # not reached in this context
                if any(x is UNKNOWN for x in texts):
                    open_ctx.append(f"{cfg_txt}: not constant")
                    continue
                decided += 1
                got = sorted(set(texts))
                row.append(f"({cfg_txt}) -> {got}")
                wrong = [x for x in got if x != want]
                if wrong:
                    bad.append(f"with {cfg_txt} it can be {wrong}, the bound host is {want!r} ({via})")
            if row:
                facts.append(f"[{via}] " + ", ".join(row))
            if open_ctx:
                ctx.note(f"R12.9: {fi.qualname} ({via}): host position of the {form} not decided for {open_ctx}")
        if facts:
            ctx.ob("R12.9", f"{fi.qualname}: host position of the {form} is the bound host", not bad,
                   ("; ".join(bad) + " | " if bad else "") + f"server name {BOUND_SERVER!r}; host position by configuration: " + " ".join(facts), fi, site, f"{fi.qualname} host position [{form}]")
    ctx.floor("R12.9", "(assembly site, calling context, configuration) triples in which the host position evaluates to constants", decided, 1)


# ---------------------------------------------------------------------
# R12.2


def _argument_for(fr: Frame, param: str) -> ast.AST | None:
    """the argument expression the call that entered `fr` passes for `param` (None: default / * / ** / not found)."""
    call = fr.call
    if call is None or any(isinstance(x, ast.Starred) for x in call.args) or any(k.arg is None for k in call.keywords):
        return None
    a = fr.fi.node.args  # type: ignore[attr-defined]
    pos = [x.arg for x in a.posonlyargs + a.args]
    if fr.fi.cls is not None and "staticmethod" not in fr.fi.decorators and pos:
        pos = pos[1:]
    for k in call.keywords:
        if k.arg == param:
            return k.value
    if param in pos and pos.index(param) < len(call.args):
        return call.args[pos.index(param)]
    return None


def _matcher_path(ctx: Ctx, ip: Interp, top: Frame) -> None:
    match = top.fi
    mm = ctx.repo.func(f"{MATCHER}.match")
    mparams = [p for p in mm.params if p != "self"]
    if "path" not in mparams:
        raise AnalysisError("StateMachineMatcher.match has no `path` parameter")
    idx = mparams.index("path")
    # the call to the matcher: a `.match(...)` call on something other than self inside a try that handles RequestPath
    calls = []
    for tr in walk_no_nested(match.node):
        if isinstance(tr, ast.Try) and any((dotted(x) or "").endswith("RequestPath") for h in tr.handlers if h.type is not None
                                           for x in (h.type.elts if isinstance(h.type, ast.Tuple) else [h.type])):
            for st in tr.body:
                for c in astq.calls(st, nested=False):
                    if isinstance(c.func, ast.Attribute) and c.func.attr == "match" and not astq.is_name(c.func.value, "self"):
                        calls.append(c)
    ctx.floor("R12.2", "calls to the matcher in MapAdapter.match", len(calls), 1)
    for c in calls:
        arg = astq.arg_or_kw(c, idx, "path")
        if arg is None:
            raise AnalysisError(f"matcher call at {match.loc(c)} passes no path")
        labs = ip.ev(arg, top).flat()
        alts: list[tuple[ast.AST, Frame]] = []
        opaque: list[str] = []  # alternatives that could not be followed to a string composition

        def returned(call: ast.Call, fr: Frame, index: int | None, depth: int) -> bool:
            """the call runs a function of the routing package: what it returns (element `index` of the returned tuples)."""
            callee = ip.self_callee(call, fr)
            if callee is None or depth > 3 or callee.fq in fr.stack:
                return False
            nf = ip.call_frame(callee, call, fr)
            rets = [r for r in astq.returns_of(callee.node) if r.value is not None and ip.feasible(r, nf)]
            if not rets or (index is not None and not all(isinstance(ip.single_value(r.value, nf), ast.Tuple) and index < len(ip.single_value(r.value, nf).elts) for r in rets)):
                return False
            for r in rets:
                v = ip.single_value(r.value, nf)
                expand(v if index is None else v.elts[index], nf, depth + 1)
            return True

        def expand(e: ast.AST, fr: Frame, depth: int = 0) -> None:
            e = ip.single_value(e, fr)
            if isinstance(e, ast.IfExp):
                expand(e.body, fr, depth)
                expand(e.orelse, fr, depth)
            elif isinstance(e, ast.Name):
                node = fr.cfg.node_of(e)
                ds = [d for d in (fr.rd.reaching(node, e.id) if node is not None else [])]
                if ds and all(d.kind == "assign" and d.value is not None for d in ds):
                    for d in ds:
                        expand(d.value, fr, depth)
                elif ds and all(d.kind == "param" for d in ds) and fr.call is not None and fr.parent is not None and depth <= 3:
                    given = _argument_for(fr, e.id)  # the argument of the call this frame was entered by
                    if given is not None:
                        expand(given, fr.parent, depth + 1)
                    else:
                        alts.append((e, fr))
                elif ds and all(d.kind == "unpack" and d.index is not None and isinstance(d.value, ast.Call) for d in ds) \
                        and all(returned(d.value, fr, d.index, depth) for d in ds):
                    pass  # `a, b = self._helper(...)`: element of the tuples the helper returns
                else:
                    if ds and not all(d.kind == "param" for d in ds):
                        opaque.append(norm(e))
                    alts.append((e, fr))
            elif isinstance(e, ast.Call) and returned(e, fr, None, depth):
                pass
            else:
                alts.append((e, fr))

        expand(arg, top)
        problems: list[str] = []
        doubts: list[str] = [f"cannot tell how `{x}` is put together" for x in dict.fromkeys(opaque)]
        shapes: list[str] = []
        for a, afr in alts:
            ps = ip._fuse(ip.pieces(a, afr))
            shapes.append(" + ".join(repr(p[1]) if p[0] == "c" else f"`{norm(p[1])}`" for p in ps) or "''")
            if not ps:
                continue  # empty path for an empty request path
            if norm(a) in opaque:
                continue  # not followed: a doubt (above), not a finding
            if not (ps[0][0] == "c" and ps[0][1].startswith("/") and not ps[0][1].startswith("//")):
                problems.append(f"`{norm(a)}` does not start with a single literal '/'")
            for i, p in enumerate(ps):
                if p[0] != "e" or not ip.ev(p[1], afr).flat():
                    continue
                ex = p[1]
                st = ip._strip_state(ex, both_ends=False)
                if st == "no":
                    problems.append(f"`{norm(ex)}` keeps its leading slashes")
                elif st == "unknown":
                    doubts.append(f"cannot tell whether `{norm(ex)}` has its leading slashes stripped")
                if i == 0 or not (ps[i - 1][0] == "c" and ps[i - 1][1].endswith("/")):
                    problems.append(f"`{norm(ex)}` is not preceded by a literal '/'")
        derived = any(n.startswith("match(path_info)") for n in names(labs))
        if not derived:
            problems.append("the matcher's path is not derived from match()'s path_info")
        if doubts and not problems:  # a way of stripping that is not modelled: neither a pass nor a finding
            ctx.error(f"R12.2: the path handed to the matcher at {match.loc(c)}: alternatives {shapes}: " + "; ".join(doubts))
            continue
        ctx.ob("R12.2", "path handed to the matcher = '/' + path_info.lstrip('/')", not problems, f"alternatives: {shapes}" + (": " + "; ".join(problems) if problems else ""), match, c, "matcher path normalised")


# ---------------------------------------------------------------------
# R12.4


# ---------------------------------------------------------------------
# R12.12 / R12.13

PATH_ENDERS = "?#"  # a raw '?' / '#' ends the path component of a URL
PATH_LABELS = ("matcher exception", f"match({REQUEST_PARAMS[0]})", f"self.{REQUEST_PARAMS[0]}")
PATH_TEXT_MODULES = ("werkzeug.routing.converters", "werkzeug.routing.rules")
RULE_CLS = "routing.rules.Rule"
UNKNOWN_FLAG = "append_unknown"  # public keyword of Rule.build / MapAdapter.build


def _param_default(fi: FuncInfo, name: str) -> ast.AST | None:
    a = fi.node.args  # type: ignore[attr-defined]
    allp = a.posonlyargs + a.args
    for x, d in zip(reversed(allp), reversed(a.defaults)):
        if x.arg == name:
            return d
    for x, d in zip(a.kwonlyargs, a.kw_defaults):
        if x.arg == name:
            return d
    return None


def _const_values(ip: Interp, e: ast.AST, fr: Frame, depth: int = 0) -> list[t.Any] | None:
    """the Python constants an expression can be where it stands: what the interpreter knows (literals, locals,
    conditional expressions, arguments / constant defaults of the calling context), else folded - a module-level or
    class-level constant, a concatenation / f-string of such, the default of a parameter the calling context leaves
    open, the argument the caller passes.  None: not a constant the analysis can follow."""
    if depth > 6:
        return None
    if isinstance(e, ast.Constant):
        return [e.value]
    if fr.cfg.node_of(e) is None and depth == 0 and any(e is x for f in ast.walk(fr.fi.node) if f is not fr.fi.node and isinstance(f, (ast.FunctionDef, ast.AsyncFunctionDef, ast.Lambda)) for x in ast.walk(f)):
        # inside a nested function: only constants of the module
        try:
            return [Folder(ip.repo).expr(fr.fi.module, e)]
        except AnalysisError:
            return None
    v = ip.ev(e, fr)
    if v.consts and not v.flat() and not v.structured() and not v.urls:
        return sorted(v.consts, key=repr)
    e = ip.single_value(e, fr)
    if isinstance(e, ast.IfExp):
        a, b = _const_values(ip, e.body, fr, depth + 1), _const_values(ip, e.orelse, fr, depth + 1)
        return None if a is None or b is None else a + [x for x in b if x not in a]
    if isinstance(e, ast.Name) and e.id in fr.fi.params:
        node = fr.cfg.node_of(e)
        defs = list(fr.rd.reaching(node, e.id)) if node is not None else []
        if defs and all(d.kind == "param" for d in defs):
            arg = _argument_for(fr, e.id)
            if arg is not None and fr.parent is not None:
                return _const_values(ip, arg, fr.parent, depth + 1)
            if fr.call is not None and (any(isinstance(x, ast.Starred) for x in fr.call.args) or any(k.arg is None for k in fr.call.keywords)):
                return None
            d = _param_default(fr.fi, e.id)
            if d is None:
                return None
            try:
                return [Folder(ip.repo).expr(fr.fi.module, d)]
            except AnalysisError:
                return None
    if isinstance(e, ast.Attribute) and fr.fi.cls is not None:
        own = astq.is_name(e.value, "self") or astq.is_name(e.value, "cls") or astq.is_name(e.value, fr.fi.cls.name) \
            or (isinstance(e.value, ast.Call) and astq.is_name(e.value.func, "type") and len(e.value.args) == 1 and astq.is_name(e.value.args[0], "self"))
        if own:
            found = ip.repo.lookup(fr.fi.cls, e.attr)
            what = found[1] if found else None
            if isinstance(what, ast.AST):
                try:
                    return [Folder(ip.repo).expr(found[0].module if hasattr(found[0], "module") else fr.fi.module, what)]
                except AnalysisError:
                    return None
            return None
    try:
        return [Folder(ip.repo).expr(fr.fi.module, e)]
    except AnalysisError:
        return None


def _quote_safe_expr(c: ast.Call) -> tuple[bool, ast.AST | None]:
    """(binding understood, the expression given for quote()'s `safe` parameter or None for its default '/')."""
    if any(isinstance(a, ast.Starred) for a in c.args) or any(k.arg is None for k in c.keywords):
        return False, None
    for k in c.keywords:
        if k.arg == "safe":
            return True, k.value
    return True, (c.args[1] if len(c.args) > 1 else None)


def _judge_safe(ctx: Ctx, ip: Interp, c: ast.Call, fr: Frame, role: str, whole_path: bool, key: str) -> bool:
    fi = fr.fi
    # a second quote call of the same function gets its own finding key (by order of appearance)
    used = ctx.__dict__.setdefault("_c12_quote_keys", {})
    used[key] = used.get(key, 0) + 1
    if used[key] > 1:
        key = f"{key} #{used[key]}"
    okb, sx = _quote_safe_expr(c)
    vals: list[t.Any] | None = ["/"] if okb and sx is None else (_const_values(ip, sx, fr) if okb and sx is not None else None)
    if vals is None or not vals or not all(isinstance(x, (str, bytes)) for x in vals):
        ctx.error(f"R12.12: {fi.qualname}: the safe set `{norm(sx)[:60] if sx is not None else norm(c)[:60]}` of the quote call at {fi.loc(c)} ({role}) does not fold to a constant")
        return False
    bad: list[str] = []
    for sv in vals:
        text = sv.decode("latin-1") if isinstance(sv, bytes) else sv
        ends = sorted(ch for ch in set(text) if ch in PATH_ENDERS)
        if ends:
            bad.append(f"safe set {text!r} leaves {ends} unquoted: a literal one in the quoted text ends the path of the URL")
        if "%" in text:
            bad.append(f"safe set {text!r} leaves '%' unquoted: a literal '%' of the decoded text starts an escape in the URL")
        if whole_path and "/" not in text:
            bad.append(f"safe set {text!r} quotes '/': the separators of the re-quoted request path are lost")
    ctx.ob("R12.12", f"{fi.qualname}: safe set of the quote call ({role})", not bad,
           "; ".join(bad) if bad else f"safe set(s) {sorted(map(str, vals))}: no '?', '#', '%'" + (", keeps '/'" if whole_path else ""), fi, c, key)
    return True


def _quote_rule(ctx: Ctx, ip: Interp) -> None:
    repo = ctx.repo
    # (a) quote calls the interpreter met on the way to a router redirect URL whose text is request-path data
    seen: set[int] = set()
    n_flow = 0
    for (_cid, _stack), (c, fr, arg) in sorted(ip.quote_calls.items(), key=lambda kv: (kv[1][1].fi.fq, getattr(kv[1][0], "lineno", 0), kv[0][1])):
        if id(c) in seen:
            continue
        carried = sorted({n for n, _ in arg.flat() if n.startswith(PATH_LABELS)})
        if not carried:
            continue
        seen.add(id(c))
        n_flow += 1
        _judge_safe(ctx, ip, c, fr, f"re-quotes request path data {carried} for a redirect URL", True, f"quote safe set in {fr.fi.qualname} [request path]")
    ctx.floor("R12.12", "quote calls on request-path data on the way to a router redirect URL", n_flow, 1)
    # (b) the quote calls that make the text Rule.build() puts into the path: everything the rules and converters
    # modules quote (the converters' to_url, the static text of the Rule's builder, helpers of either) is path text -
    # query strings are made by _urlencode
    n_tab = 0
    for mname in PATH_TEXT_MODULES:
        m = repo.module(mname)
        fis = sorted(list(m.functions.values()) + [f for k in m.classes.values() for f in k.methods.values()], key=lambda f: f.fq)
        for f in fis:
            probe = Frame(f, {}, ())
            for c in astq.calls(f.node):
                d = dotted(c.func)
                if d and repo.resolve(f.module, d, f.module.local_imports(f.node)) in QUOTE_FNS and id(c) not in seen:
                    seen.add(id(c))
                    n_tab += 1
                    _judge_safe(ctx, ip, c, probe, "path text of built URLs", False, f"quote safe set in {f.qualname}")
    ctx.floor("R12.12", "quote calls in the rules and converters modules", n_tab, 1)


def _alias_build_rule(ctx: Ctx, ip: Interp) -> None:
    rb = ctx.repo.func(f"{RULE_CLS}.build")
    if UNKNOWN_FLAG not in rb.params:
        raise AnalysisError(f"Rule.build has no parameter `{UNKNOWN_FLAG}`")
    pos = [p for p in rb.params if p != "self"]
    n = 0
    done: set[tuple[int, str]] = set()
    for (_cid, _stack), (c, fr, values) in sorted(ip.rule_builds.items(), key=lambda kv: (kv[1][1].fi.fq, getattr(kv[1][0], "lineno", 0), kv[0][1])):
        carried = sorted({nm for nm, _ in values.flat() if nm.startswith("matcher exception")})
        if not carried:
            continue
        via = " <- ".join(x.rsplit(".", 1)[-1] for x in reversed(fr.stack[-4:]))
        if any(isinstance(a, ast.Starred) for a in c.args) or any(k.arg is None for k in c.keywords):
            ctx.error(f"R12.13: {fr.fi.qualname} ({via}): the arguments of `{norm(c)[:60]}` at {fr.fi.loc(c)} are passed through * / **: `{UNKNOWN_FLAG}` not evaluated")
            continue
        fx = next((k.value for k in c.keywords if k.arg == UNKNOWN_FLAG), None)
        if fx is None and pos.index(UNKNOWN_FLAG) < len(c.args):
            fx = c.args[pos.index(UNKNOWN_FLAG)]
        if fx is None:
            fx = _param_default(rb, UNKNOWN_FLAG)
            vals = _const_values(ip, fx, Frame(rb, {}, ())) if fx is not None else None
            shown = f"default `{norm(fx)}`" if fx is not None else "no argument, no default"
        else:
            vals = _const_values(ip, fx, fr)
            shown = f"`{norm(fx)[:40]}`"
        if (id(c), via) in done:
            continue
        done.add((id(c), via))
        n += 1
        if vals is None or (any(bool(x) for x in vals) and not all(bool(x) for x in vals)):
            ctx.error(f"R12.13: {fr.fi.qualname} ({via}): `{UNKNOWN_FLAG}` ({shown}) of the build call at {fr.fi.loc(c)} on the alias values {carried} does not evaluate to one truth value ({vals})")
            continue
        ok = not any(bool(x) for x in vals)
        ctx.ob("R12.13", f"{fr.fi.qualname} [{via}]: the rule's build() on the alias-redirect values drops unknown values", ok,
               f"`{norm(c)[:70]}`: {UNKNOWN_FLAG} = {shown} -> {vals} in this calling context" + ("" if ok else ": values of the alias rule the canonical rule does not take become a query string the request did not have (and the request's own query is appended after it)"),
               fr.fi, c, f"alias build {UNKNOWN_FLAG} in {fr.fi.qualname} [{via}]")
    ctx.floor("R12.13", "build() calls of a rule on the values of the alias-redirect signal", n, 1)


def _is_str_test(e: ast.AST, param: str) -> bool:
    if isinstance(e, ast.Call) and astq.is_name(e.func, "isinstance") and len(e.args) == 2 and astq.is_name(e.args[0], param):
        k = e.args[1]
        ks = k.elts if isinstance(k, ast.Tuple) else [k]
        return len(ks) == 1 and astq.is_name(ks[0], "str")
    return False


def _encode_query_args(ctx: Ctx, ip: Interp) -> None:
    fi = ctx.repo.func(f"{ADAPTER}.encode_query_args")
    ps = [p for p in fi.params if p != "self"]
    if len(ps) != 1:
        raise AnalysisError(f"encode_query_args: expected one parameter, found {ps}")
    param = ps[0]
    fr = Frame(fi, {param: lab(param)}, ())
    cfg = fr.cfg
    tests = [tn for tn in cfg.tests() if tn.kind == "test" and tn.ast is not None and _is_str_test(tn.ast, param)]
    n_str = 0

    def leaves(e: ast.AST | None, is_str: bool | None) -> list[tuple[ast.AST | None, bool | None]]:
        if isinstance(e, ast.IfExp):
            tst, flip = e.test, False
            while isinstance(tst, ast.UnaryOp) and isinstance(tst.op, ast.Not):
                tst, flip = tst.operand, not flip
            if _is_str_test(tst, param):
                return leaves(e.body, not flip) + leaves(e.orelse, flip)
            return leaves(e.body, is_str) + leaves(e.orelse, is_str)
        return [(e, is_str)]

    for r in astq.returns_of(fi.node):
        node = cfg.node_of(r)
        dom: bool | None = None
        for tn in tests:
            if node is not None and cfg.edge_dominates(tn, "T", node):
                dom = True
            elif node is not None and cfg.edge_dominates(tn, "F", node):
                dom = False
        for e, is_str in leaves(r.value, dom):
            if is_str is not True:
                continue
            n_str += 1
            v = ip.ev(e, fr) if e is not None else none_abs()
            same = v.flat() == frozenset([(param, True)]) and not v.structured() and not v.urls
            ctx.ob("R12.4", "encode_query_args: a str argument is returned itself", same,
                   f"under isinstance({param}, str) the function returns `{norm(e) if e is not None else 'None'}`" + ("" if same else " - not the argument unchanged: an already encoded query string would be altered"),
                   fi, r, "str query returned unchanged")
    if not tests and n_str == 0:
        # no isinstance test at all: every return must pass a str through
        raise AnalysisError("encode_query_args: no isinstance(<arg>, str) test found (expected shape absent)")
    ctx.floor("R12.4", "returns of encode_query_args on the str branch", n_str, 1)
