"""C12 - router redirects stay on the bound host and keep the query (structural clauses).

The deciding machinery is a small abstract interpreter over the routing
package's syntax trees.  Starting in ``MapAdapter.match`` with the request
path and the query arguments as the only *request-path data*, it evaluates
the argument of every ``raise RequestRedirect(...)``, inlining calls to the
adapter's own methods (flow-sensitive through reaching definitions, context
sensitive through parameter bindings, constant-pruned for boolean flags).
The result is a set of *URL shapes* - one per place where a URL is put
together position by position (``urlunsplit((scheme, host, path, query,
fragment))`` or an f-string ``{scheme}//{host}...``) - whose positions hold
the labels of the request data that can flow there.  The rules are
statements about those shapes; nothing is keyed on statement text.

R12.8 re-runs the functions that assemble those URLs with a small executor
over Python constants (``_c12_helpers.ConstExec``): the adapter's bound scheme
is set to each of http/https/ws/wss, the parameters are what the calls on the
way from ``match`` pass, everything else is unknown and forks the path.
"""

from __future__ import annotations

import ast
import typing as t

from .. import astq
from ..cfg import CFG, Node, cfg_of
from ..dataflow import Def, ReachingDefs, bound_in_enclosing_comp
from ..loader import AnalysisError, FuncInfo, const_str, dotted, is_self_attr, norm, walk_no_nested
from ..report import Ctx
from ._c12_helpers import UNKNOWN, BudgetExceeded, ConstExec, alias_values_rule, matcher_rules

LEVEL_TEXT = (
    "Static decision of structural clauses of C12 on /repo's current source, by abstract interpretation of MapAdapter.match "
    "and every adapter method it reaches (labels = request path / query data; positions = scheme, host, path, query of each "
    "URL that is assembled): (R12.1) every router-made RequestRedirect carries a URL assembled position by position, whose "
    "scheme and host positions receive no data derived from the request path, the query arguments or a matcher exception, "
    "and whose path position is <bound prefix containing the script root> + '/' + <request data with its leading slashes "
    "stripped>; urljoin never sees request data outside the application-supplied redirect_to branch; (R12.2) the path "
    "handed to the matcher is '/' + the request path with leading slashes stripped; (R12.3) the query position of each of "
    "those URLs receives the query_args of this match() call, either unchanged or through the mapping encoder; (R12.4) "
    "encode_query_args returns a str argument itself; (R12.5) in the state machine matcher a slash redirect is proposed "
    "only for a rule that admits the request method and websocket flag (decided by walking the loop iteration's CFG under "
    "every valuation of the admission facts, so independent of how the conditions are spelled), and a merged-slash redirect "
    "only after the merged path matched; (R12.6) where the matcher turns the missing-slash signal of a walk of path P into a "
    "redirect, the target is that same P + '/' (same expression, same reaching definitions); (R12.7) the values the "
    "matcher raises with the alias-redirect signal (from which the adapter builds the canonical URL) have received "
    "everything the values of the match result receive - converter values and the rule's defaults: may-flow into the "
    "mapping over the CFG, counting only writes that can precede the raise under consistent guards; a necessary condition "
    "of 'the target denotes the same arguments'; (R12.8) scheme clause of 'points at the scheme the adapter was bound to': "
    "for an adapter bound to http, https, ws or wss the scheme position of every redirect URL, evaluated by a "
    "path-sensitive constant executor in the calling context of the redirect (arguments and defaults of the calls leading "
    "to the assembly, the bound-scheme fallback, the secure/websocket case split, whatever their order and spelling), is a "
    "scheme of the same security class (https/wss vs http/ws). Decided on all paths of the "
    "analysed functions. NOT decided: that the redirect target matches without "
    "a further redirect and denotes the same endpoint and arguments beyond R12.7 (behavioural: depends on the rule set - "
    "which rule build() selects for the values, provides_defaults_for/suitable_for), that values are converted correctly "
    "(to_python/to_url round trip), adapters bound to an empty or other scheme, value-level "
    "correctness of quote()/_urlencode, and redirect_to targets (excluded by the property)."
)
TRUSTED = [
    "CPython ast",
    "urllib.parse.urlunsplit places its five elements in the scheme, netloc, path, query and fragment positions and inserts '/' between a netloc and a path that lacks one",
    "str.lstrip('/') returns a string that does not start with '/'",
    "an f-string replacement field without conversion or format spec inserts a str unchanged",
    "Python semantics of constants: comparison, `in` on set/tuple/frozenset displays, and/or/not, conditional expressions, str concatenation and the str methods lower/upper/strip/startswith/endswith/removeprefix/removesuffix/partition",
]
ASSUMPTIONS = [
    "Rule.build()'s first element (the domain part) is produced from the rule's declared subdomain/host template, not from the request path",
    "attributes of the adapter other than path_info and query_args (server_name, script_name, subdomain, url_scheme, map) are the data the adapter was bound to",
    "the method, websocket and return_rule arguments of match() are not path data",
    "the attribute MapAdapter.__init__ assigns from its url_scheme parameter holds the scheme the adapter was bound to and is not rebound afterwards",
    "the mapping-typed parameter of RequestAliasRedirect.__init__ and the mapping-typed element of StateMachineMatcher.match's return annotation are the matched values",
    "reading an attribute of the matched rule (rule.defaults, rule.alias) twice within one match() call gives the same value",
]

MAP = "routing.map"
ADAPTER = "routing.map.MapAdapter"
MATCHER = "routing.matcher.StateMachineMatcher"
URLUNSPLIT = "urllib.parse.urlunsplit"
URLJOIN = "urllib.parse.urljoin"
REDIRECT_EXC = "werkzeug.routing.exceptions.RequestRedirect"
REQUEST_PARAMS = ("path_info", "query_args")  # public keyword names of MapAdapter.match / __init__
SCHEME_PARAM = "url_scheme"  # public keyword name of MapAdapter.__init__ / Map.bind
SCHEMES = ("http", "https", "ws", "wss")  # the schemes an adapter is bound to (property quantifier)
SECURE = frozenset(["https", "wss"])

Labels = t.FrozenSet[t.Tuple[str, bool]]  # (source, reached the place unchanged)


# ---------------------------------------------------------------------
# abstract values


class Url:
    """one place where a URL is assembled position by position."""

    __slots__ = ("site", "where", "form", "scheme", "netloc", "path_labs", "path_ok", "path_fact", "query")

    def __init__(self, site: ast.AST, where: FuncInfo, form: str, scheme: Labels, netloc: Labels, path_labs: Labels, path_ok: bool, path_fact: str, query: Labels):
        self.site, self.where, self.form = site, where, form
        self.scheme, self.netloc, self.path_labs, self.path_ok, self.path_fact, self.query = scheme, netloc, path_labs, path_ok, path_fact, query

    def merged(self, o: "Url") -> "Url":
        return Url(self.site, self.where, self.form, self.scheme | o.scheme, self.netloc | o.netloc, self.path_labs | o.path_labs,
                   self.path_ok and o.path_ok, self.path_fact if not self.path_ok or o.path_ok else o.path_fact, self.query | o.query)

    def with_query(self, q: Labels) -> "Url":
        return Url(self.site, self.where, self.form, self.scheme, self.netloc, self.path_labs, self.path_ok, self.path_fact, self.query | q)

    def all_labs(self) -> Labels:
        return self.scheme | self.netloc | self.path_labs | self.query

    def desc(self) -> str:
        return f"{self.form} in {self.where.qualname}"


class Abs:
    """labels of request data that may be in a value; optionally element-wise (tuples) and as URL shapes."""

    __slots__ = ("labs", "tup", "urls", "consts", "plain", "notes")

    def __init__(self, labs: Labels = frozenset(), tup: tuple["Abs", ...] | None = None, urls: tuple[Url, ...] = (), consts: frozenset | None = None, plain: bool = True, notes: tuple[str, ...] = ()):
        self.labs = labs
        self.tup = tup
        self.urls = urls
        self.consts = consts  # set of python constants the value can be; None = unknown
        self.plain = plain  # may be something that is neither an assembled URL nor None
        self.notes = notes

    def flat(self) -> Labels:
        out = set(self.labs)
        if self.tup is not None:
            for x in self.tup:
                out |= x.flat()
        for u in self.urls:
            out |= u.all_labs()
        return frozenset(out)

    def nothing(self) -> bool:
        return not self.labs and self.tup is None and not self.urls and not self.plain

    def cooked(self, note: tuple[str, ...] = ()) -> "Abs":
        return Abs(frozenset((n, False) for n, _ in self.flat()), notes=self.notes + note)


BOTTOM = Abs(consts=frozenset(), plain=False)
BOUND = Abs()


def none_abs() -> Abs:
    return Abs(consts=frozenset([None]), plain=False)


def lab(name: str) -> Abs:
    return Abs(frozenset([(name, True)]))


def join(a: Abs, b: Abs) -> Abs:
    labs = a.labs | b.labs
    if a.tup is not None and b.tup is not None and len(a.tup) == len(b.tup):
        tup: tuple[Abs, ...] | None = tuple(join(x, y) for x, y in zip(a.tup, b.tup))
    elif a.tup is not None and b.nothing():
        tup = a.tup
    elif b.tup is not None and a.nothing():
        tup = b.tup
    else:
        tup = None
        for x in (a, b):
            if x.tup is not None:
                for e in x.tup:
                    labs |= frozenset((n, False) for n, _ in e.flat())
    by_site: dict[int, Url] = {}
    for u in a.urls + b.urls:
        by_site[id(u.site)] = by_site[id(u.site)].merged(u) if id(u.site) in by_site else u
    consts = None if a.consts is None or b.consts is None else a.consts | b.consts
    return Abs(labs, tup, tuple(by_site.values()), consts, a.plain or b.plain, tuple(dict.fromkeys(a.notes + b.notes)))


def join_all(xs: t.Iterable[Abs]) -> Abs:
    out = BOTTOM
    for x in xs:
        out = join(out, x)
    return out


def _keep_raw(v: Abs) -> Labels:
    """labels of a value placed as it is: direct labels keep their unchanged-flag, nested ones count as transformed."""
    return v.labs | frozenset((n, False) for n, _ in v.flat() if (n, True) not in v.labs and (n, False) not in v.labs)


def names(labs: Labels) -> list[str]:
    return sorted({n for n, _ in labs})


# ---------------------------------------------------------------------
# the interpreter


class Frame:
    def __init__(self, fi: FuncInfo, bind: dict[str, Abs], stack: tuple[str, ...], parent: "Frame | None" = None, call: ast.Call | None = None):
        self.fi = fi
        self.parent, self.call = parent, call  # the frame and the call expression this frame was entered from
        self.cfg = cfg_of(fi)
        rd = getattr(fi, "_c12_rd", None)
        if rd is None:
            rd = ReachingDefs(self.cfg, fi.params)
            fi._c12_rd = rd  # type: ignore[attr-defined]
        self.rd: ReachingDefs = rd
        self.bind = bind
        self.stack = stack + (fi.fq,)
        self.busy: set[int] = set()


Piece = t.Tuple[str, t.Any]  # ("c", text) | ("e", expr)


class Interp:
    def __init__(self, ctx: Ctx):
        self.ctx = ctx
        self.repo = ctx.repo
        self.adapter = self.repo.cls(ADAPTER)
        init = self.adapter.methods.get("__init__")
        if init is None:
            raise AnalysisError("MapAdapter.__init__ missing")
        # adapter attributes that hold request-path data / the script root, found by role: assigned in __init__ from that parameter
        self.request_attrs: set[str] = set()
        self.root_attrs: set[str] = set()
        self.scheme_attrs: set[str] = set()
        for st in walk_no_nested(init.node):
            if isinstance(st, (ast.Assign, ast.AnnAssign)) and st.value is not None:
                tgs = st.targets if isinstance(st, ast.Assign) else [st.target]
                used = astq.names_in(st.value)
                for tg in tgs:
                    if is_self_attr(tg):
                        if used & set(REQUEST_PARAMS):
                            self.request_attrs.add(tg.attr)
                        if "script_name" in used:
                            self.root_attrs.add(tg.attr)
                        if SCHEME_PARAM in used:
                            self.scheme_attrs.add(tg.attr)
        if len(self.request_attrs) < 2 or not self.root_attrs:
            raise AnalysisError(f"MapAdapter.__init__: request attributes {sorted(self.request_attrs)} / script root attributes {sorted(self.root_attrs)} not found")
        if self.repo.try_func("routing.rules.Rule.build") is None:
            raise AnalysisError("Rule.build missing")
        self.url_sites: dict[int, Url] = {}
        self.urljoins: list[tuple[ast.Call, Frame]] = []
        # (assembly site, frame it was evaluated in, pieces of its scheme position) for R12.8
        self.scheme_sites: list[tuple[ast.AST, Frame, list[Piece]]] = []

    # -- frames ---------------------------------------------------------
    def call_frame(self, callee: FuncInfo, call: ast.Call, fr: Frame) -> Frame:
        a = callee.node.args  # type: ignore[attr-defined]
        pos = [x.arg for x in a.posonlyargs + a.args]
        is_method = callee.cls is not None and "staticmethod" not in callee.decorators
        if is_method and pos:
            pos = pos[1:]
        bind: dict[str, Abs] = {}
        defaults = dict(zip(reversed([x.arg for x in a.posonlyargs + a.args]), reversed(a.defaults)))
        for k, d in zip(a.kwonlyargs, a.kw_defaults):
            if d is not None:
                defaults[k.arg] = d
        for name, d in defaults.items():
            bind[name] = Abs(consts=frozenset([d.value]), plain=d.value is not None) if isinstance(d, ast.Constant) else BOUND
        spill: list[Abs] = []
        for i, arg in enumerate(call.args):
            if isinstance(arg, ast.Starred):
                spill.append(self.ev(arg.value, fr))
            elif i < len(pos):
                bind[pos[i]] = self.ev(arg, fr)
            else:
                spill.append(self.ev(arg, fr))
        for kw in call.keywords:
            if kw.arg is None:
                spill.append(self.ev(kw.value, fr))
            else:
                bind[kw.arg] = self.ev(kw.value, fr)
        if spill:
            extra = join_all(spill).cooked()
            for name in callee.params:
                bind[name] = join(bind.get(name, BOTTOM), extra)
        return Frame(callee, bind, fr.stack, fr, call)

    def self_callee(self, call: ast.Call, fr: Frame) -> FuncInfo | None:
        f = call.func
        if isinstance(f, ast.Attribute) and astq.is_name(f.value, "self") and fr.fi.cls is not None:
            _, what = self.repo.lookup(fr.fi.cls, f.attr)
            if isinstance(what, FuncInfo):
                return what
        return None

    def feasible(self, ret: ast.AST, fr: Frame) -> bool:
        """a return is dropped when a dominating test on a plain name is decided by the constants bound to it."""
        node = fr.cfg.node_of(ret)
        if node is None:
            return True
        for tnode, label in fr.cfg.guards(node):
            if tnode.kind == "test" and isinstance(tnode.ast, ast.Name):
                v = self.ev(tnode.ast, fr)
                if v.consts is not None and v.consts and not v.labs and v.tup is None and not v.urls:
                    truth = {bool(c) for c in v.consts}
                    if (truth == {True} and label == "F") or (truth == {False} and label == "T"):
                        return False
        return True

    def inline(self, callee: FuncInfo, call: ast.Call, fr: Frame) -> Abs:
        if callee.fq in fr.stack or len(fr.stack) > 10:
            return BOTTOM
        nf = self.call_frame(callee, call, fr)
        self.ctx.saw(callee)
        if any(isinstance(n, (ast.Yield, ast.YieldFrom)) for n in walk_no_nested(callee.node)):
            return join_all(nf.bind.values()).cooked()
        rets = [r for r in astq.returns_of(callee.node) if self.feasible(r, nf)]
        if not rets:
            return none_abs()
        return join_all(self.ev(r.value, nf) if r.value is not None else none_abs() for r in rets)

    # -- names ----------------------------------------------------------
    def ev_name(self, e: ast.Name, fr: Frame) -> Abs:
        node = fr.cfg.node_of(e)
        defs = fr.rd.reaching(node, e.id) if node is not None else frozenset()
        if not defs:
            g = bound_in_enclosing_comp(e, fr.fi.node)
            if g is not None:
                return self.ev(g.iter, fr).cooked()
            return BOUND  # module-level name, builtin
        return join_all(self.ev_def(d, fr) for d in defs)

    def ev_def(self, d: Def, fr: Frame) -> Abs:
        if d.kind == "param":
            return fr.bind.get(d.name, BOUND)
        if id(d) in fr.busy:
            return BOTTOM
        fr.busy.add(id(d))
        try:
            if d.kind in ("assign", "walrus"):
                return self.ev(d.value, fr)
            if d.kind == "unpack":
                v = self.ev(d.value, fr)
                if v.tup is not None and d.index is not None and d.index < len(v.tup):
                    return v.tup[d.index]
                return v.cooked()
            if d.kind == "aug":
                base = join_all(self.ev_def(x, fr) for x in fr.rd.reaching(d.node, d.name)) if d.node is not None else BOTTOM
                tail = self.query_tail(d.value, fr) if isinstance(getattr(d.stmt, "op", None), ast.Add) else None
                if base.urls and not base.plain and tail is not None:
                    return Abs(urls=tuple(u.with_query(tail) for u in base.urls), plain=False)
                return join(base, self.ev(d.value, fr)).cooked()
            if d.kind in ("for", "with"):
                return self.ev(d.value, fr).cooked()
            if d.kind == "except":
                return lab(f"matcher exception `{d.name}`")
            return BOUND  # import, def, del
        finally:
            fr.busy.discard(id(d))

    def query_tail(self, e: ast.AST | None, fr: Frame) -> Labels | None:
        """``f"?{q}"`` / ``"?" + q`` -> labels of q (unchanged-flags kept)."""
        return self.query_tail_pieces(self.pieces(e, fr, resolve=False), fr) if e is not None else None

    def query_tail_pieces(self, pieces: list[Piece], fr: Frame) -> Labels | None:
        pieces = self._fuse(pieces)
        if len(pieces) >= 2 and pieces[0] == ("c", "?") and all(p[0] == "e" for p in pieces[1:]):
            out: set = set()
            for p in pieces[1:]:
                out |= _keep_raw(self.ev(p[1], fr))
            return frozenset(out)
        return None

    # -- expressions ------------------------------------------------------
    def ev(self, e: ast.AST | None, fr: Frame) -> Abs:
        if e is None:
            return none_abs()
        if isinstance(e, ast.Constant):
            return Abs(consts=frozenset([e.value]), plain=e.value is not None)
        if isinstance(e, ast.Name):
            return self.ev_name(e, fr)
        if isinstance(e, ast.Attribute):
            if astq.is_name(e.value, "self") and fr.fi.cls is not None:
                if e.attr in self.request_attrs:
                    return lab(f"self.{e.attr}")
                return BOUND
            return self.ev(e.value, fr).cooked()
        if isinstance(e, ast.Call):
            return self.ev_call(e, fr)
        if isinstance(e, (ast.Tuple, ast.List)):
            if any(isinstance(x, ast.Starred) for x in e.elts):
                return join_all(self.ev(x.value if isinstance(x, ast.Starred) else x, fr) for x in e.elts).cooked()
            return Abs(tup=tuple(self.ev(x, fr) for x in e.elts))
        if isinstance(e, ast.Subscript):
            base = self.ev(e.value, fr)
            if base.tup is not None and isinstance(e.slice, ast.Constant) and isinstance(e.slice.value, int) and 0 <= e.slice.value < len(base.tup):
                return base.tup[e.slice.value]
            return join(base, self.ev(e.slice, fr)).cooked()
        if isinstance(e, ast.IfExp):
            return join(self.ev(e.body, fr), self.ev(e.orelse, fr))
        if isinstance(e, ast.BoolOp):
            return join_all(self.ev(v, fr) for v in e.values)
        if isinstance(e, ast.NamedExpr):
            return self.ev(e.value, fr)
        if isinstance(e, ast.BinOp) and isinstance(e.op, ast.Add):
            chain: list[ast.AST] = []
            cur: ast.AST = e
            while isinstance(cur, ast.BinOp) and isinstance(cur.op, ast.Add):
                chain.insert(0, cur.right)
                cur = cur.left
            first = self.ev(cur, fr)
            if first.urls and not first.plain:  # url + "?" + query
                tail = self.query_tail_pieces([p for x in chain for p in self.pieces(x, fr, resolve=False)], fr)
                if tail is not None:
                    return Abs(urls=tuple(u.with_query(tail) for u in first.urls), plain=False)
            return join_all([first] + [self.ev(x, fr) for x in chain]).cooked()
        if isinstance(e, ast.JoinedStr):
            if len(e.values) >= 2 and isinstance(e.values[0], ast.FormattedValue) and e.values[0].conversion == -1 and e.values[0].format_spec is None:
                left = self.ev(e.values[0].value, fr)
                tail = self.query_tail(ast.JoinedStr(values=e.values[1:]), fr)
                if left.urls and not left.plain and tail is not None:  # f"{url}?{query}"
                    return Abs(urls=tuple(u.with_query(tail) for u in left.urls), plain=False)
            return self.ev_fstring(e, fr)
        if isinstance(e, ast.FormattedValue):
            return self.ev(e.value, fr).cooked()
        if isinstance(e, (ast.Lambda, ast.FunctionDef, ast.AsyncFunctionDef)):
            return BOUND
        kids = [self.ev(ch, fr) for ch in ast.iter_child_nodes(e) if isinstance(ch, (ast.expr, ast.comprehension, ast.keyword, ast.Slice))]
        return join_all(kids).cooked() if kids else BOUND

    def resolves_to(self, fr: Frame, func: ast.AST) -> str | None:
        d = dotted(func)
        if d is None:
            return None
        return self.repo.resolve(fr.fi.module, d, fr.fi.module.local_imports(fr.fi.node))

    def ev_call(self, c: ast.Call, fr: Frame) -> Abs:
        callee = self.self_callee(c, fr)
        if callee is not None:
            return self.inline(callee, c, fr)
        fq = self.resolves_to(fr, c.func)
        if fq == URLUNSPLIT:
            return self.ev_urlunsplit(c, fr)
        parts = [self.ev(a.value if isinstance(a, ast.Starred) else a, fr) for a in c.args] + [self.ev(k.value, fr) for k in c.keywords]
        if isinstance(c.func, ast.Attribute):
            parts.append(self.ev(c.func.value, fr))
        allv = join_all(parts) if parts else BOUND
        if fq == URLJOIN:
            self.urljoins.append((c, fr))
            return allv.cooked((f"urljoin at {fr.fi.qualname}",))
        f = c.func
        if isinstance(f, ast.Attribute) and f.attr == "build" and not astq.is_name(f.value, "self"):
            # Rule.build(values) -> (domain part declared by the rule, path built from the values) | None
            return Abs(tup=(BOUND, allv.cooked()))
        return allv.cooked()

    # -- URL assembly sites -------------------------------------------------
    def single_value(self, e: ast.AST, fr: Frame) -> ast.AST:
        """follow a local name that has exactly one reaching plain assignment to the expression assigned."""
        for _ in range(6):
            if not isinstance(e, ast.Name):
                break
            node = fr.cfg.node_of(e)
            defs = list(fr.rd.reaching(node, e.id)) if node is not None else []
            if len(defs) == 1 and defs[0].kind == "assign" and defs[0].value is not None:
                e = defs[0].value
            else:
                break
        return e

    def pieces(self, e: ast.AST, fr: Frame, resolve: bool = True) -> list[Piece]:
        """string composition -> constant text and expression pieces, in order."""
        if resolve:
            r = self.single_value(e, fr)
            if r is not e and isinstance(r, (ast.JoinedStr, ast.BinOp, ast.Call, ast.Constant)):
                return self.pieces(r, fr, resolve)
        s = const_str(e)
        if s is not None:
            return [("c", s)]
        if isinstance(e, ast.JoinedStr):
            out: list[Piece] = []
            for v in e.values:
                if isinstance(v, ast.Constant):
                    out.append(("c", str(v.value)))
                elif isinstance(v, ast.FormattedValue) and v.conversion == -1 and v.format_spec is None:
                    out += self.pieces(v.value, fr, resolve)
                else:
                    out.append(("e", v))
            return out
        if isinstance(e, ast.BinOp) and isinstance(e.op, ast.Add):
            return self.pieces(e.left, fr, resolve) + self.pieces(e.right, fr, resolve)
        if isinstance(e, ast.Call) and isinstance(e.func, ast.Attribute) and e.func.attr == "join" and const_str(e.func.value) is not None and len(e.args) == 1 and isinstance(e.args[0], (ast.Tuple, ast.List)) and not any(isinstance(x, ast.Starred) for x in e.args[0].elts):
            sep = const_str(e.func.value)
            out = []
            for i, x in enumerate(e.args[0].elts):
                if i and sep:
                    out.append(("c", sep))
                out += self.pieces(x, fr, resolve)
            return out
        return [("e", e)]

    @staticmethod
    def _fuse(pieces: list[Piece]) -> list[Piece]:
        out: list[Piece] = []
        for p in pieces:
            if p[0] == "c" and p[1] == "":
                continue
            if p[0] == "c" and out and out[-1][0] == "c":
                out[-1] = ("c", out[-1][1] + p[1])
            else:
                out.append(p)
        return out

    def check_path(self, pieces: list[Piece], fr: Frame, prefix: t.Sequence[ast.AST] = ()) -> tuple[bool, str, Labels]:
        """path = bound prefix (naming the script root) + '/' + request data stripped of its leading slashes."""
        pieces = self._fuse(pieces)
        problems: list[str] = []
        labs: set = set()
        first_taint: int | None = None
        for i, p in enumerate(pieces):
            if p[0] == "c":
                continue
            pl = self.ev(p[1], fr).flat()
            if not pl:
                continue
            labs |= pl
            if first_taint is None:
                first_taint = i
            ex = p[1]
            stripped = isinstance(ex, ast.Call) and isinstance(ex.func, ast.Attribute) and ex.func.attr in ("lstrip", "strip") and len(ex.args) == 1 and "/" in (const_str(ex.args[0]) or "")
            if not stripped:
                problems.append(f"`{norm(ex)}` ({', '.join(names(pl))}) is inserted without .lstrip('/')")
            if i == 0:
                problems.append(f"`{norm(ex)}` stands first in the path position")
            elif not (pieces[i - 1][0] == "c" and pieces[i - 1][1].endswith("/")):
                problems.append(f"`{norm(ex)}` is not preceded by a literal '/'")
        head = list(prefix) + [p[1] for p in (pieces if first_taint is None else pieces[:first_taint]) if p[0] == "e"]
        has_root = any(is_self_attr(n) and n.attr in self.root_attrs for h in head for n in ast.walk(h))
        if not has_root:
            problems.append(f"the bound prefix does not contain the script root (self.{'/'.join(sorted(self.root_attrs))})")
        shape = " + ".join(repr(p[1]) if p[0] == "c" else f"`{norm(p[1])}`" for p in pieces)
        return not problems, (f"path = {shape}" if not problems else f"path = {shape}: " + "; ".join(problems)), frozenset(labs)

    def _register(self, u: Url) -> Abs:
        k = id(u.site)
        self.url_sites[k] = self.url_sites[k].merged(u) if k in self.url_sites else u
        return Abs(urls=(u,), plain=False)

    def ev_urlunsplit(self, c: ast.Call, fr: Frame) -> Abs:
        arg = self.single_value(c.args[0], fr) if c.args else None
        if not isinstance(arg, ast.Tuple) or len(arg.elts) != 5 or any(isinstance(x, ast.Starred) for x in arg.elts):
            parts = join_all(self.ev(a, fr) for a in c.args) if c.args else BOUND
            return parts.cooked((f"urlunsplit in {fr.fi.qualname} is not given a literal 5-tuple",))
        scheme, netloc, path, query, _frag = arg.elts
        ok, fact, plabs = self.check_path(self.pieces(path, fr), fr)
        q = self.ev(query, fr)
        qlabs = _keep_raw(q)
        self.scheme_sites.append((c, fr, [("e", scheme)]))
        return self._register(Url(c, fr.fi, "urlunsplit((scheme, host, path, query, fragment))", self.ev(scheme, fr).flat(), self.ev(netloc, fr).flat(), plabs, ok, fact, qlabs))

    def ev_fstring(self, e: ast.JoinedStr, fr: Frame) -> Abs:
        raw = self._fuse(self.pieces(e, fr, resolve=False))
        texts = [p[1] for p in raw if p[0] == "c"]
        exprs = [p[1] for p in raw if p[0] == "e"]
        flat_all = join_all(self.ev(x, fr) for x in exprs).cooked() if exprs else Abs(plain=True)
        if not any("//" in s for s in texts):
            return flat_all  # not an absolute URL form: a plain string
        zones: dict[str, list[Piece]] = {"scheme": [], "netloc": [], "path": [], "query": []}
        state = "scheme"
        for p in raw:
            if p[0] == "e":
                zones[state].append(p)
                continue
            s = p[1]
            while s:
                if state == "scheme":
                    if "//" in s:
                        zones["scheme"].append(("c", s.split("//", 1)[0]))
                        s = s.split("//", 1)[1]
                        state = "netloc"
                        continue
                    zones["scheme"].append(("c", s))
                    s = ""
                elif state == "netloc":
                    cut = min([i for i in (s.find("/"), s.find("?")) if i >= 0], default=-1)
                    if cut < 0:
                        zones["netloc"].append(("c", s))
                        s = ""
                    else:
                        zones["netloc"].append(("c", s[:cut]))
                        state = "path" if s[cut] == "/" else "query"
                        s = s[cut:] if state == "path" else s[cut + 1:]
                elif state == "path":
                    if "?" in s:
                        zones["path"].append(("c", s.split("?", 1)[0]))
                        s = s.split("?", 1)[1]
                        state = "query"
                        continue
                    zones["path"].append(("c", s))
                    s = ""
                else:
                    zones["query"].append(("c", s))
                    s = ""

        def zl(z: str) -> Labels:
            return join_all(self.ev(p[1], fr) for p in zones[z] if p[0] == "e").flat() if any(p[0] == "e" for p in zones[z]) else frozenset()

        ok, fact, plabs = self.check_path(zones["path"], fr, prefix=[p[1] for p in zones["scheme"] + zones["netloc"] if p[0] == "e"])
        q: set = set()
        for p in zones["query"]:
            if p[0] == "e":
                q |= _keep_raw(self.ev(p[1], fr))
        self.scheme_sites.append((e, fr, self._fuse(zones["scheme"])))
        return self._register(Url(e, fr.fi, "f-string {scheme}//{host}{root}/{path}", zl("scheme"), zl("netloc"), plabs, ok, fact, frozenset(q)))


# ---------------------------------------------------------------------
# helpers for the rules


def _is_redirect_exc(ip: Interp, fi: FuncInfo, r: ast.Raise) -> bool:
    e = r.exc.func if isinstance(r.exc, ast.Call) else r.exc
    d = dotted(e) if e is not None else None
    if d is None:
        return False
    return ip.repo.resolve(fi.module, d, fi.module.local_imports(fi.node)) == REDIRECT_EXC


def _excluded(cfg: CFG, node: Node) -> str | None:
    """the application-supplied branch: dominated by `<rule>.redirect_to is not None` (or its truthiness)."""
    for tnode, label in cfg.guards(node):
        a = tnode.ast
        if tnode.kind != "test":
            continue
        if isinstance(a, ast.Attribute) and a.attr == "redirect_to" and label == "T":
            return norm(a)
        cp = astq.cmp_parts(a) if a is not None else None
        if cp and isinstance(cp[0], ast.Attribute) and cp[0].attr == "redirect_to" and astq.is_none(cp[2]):
            if (isinstance(cp[1], ast.IsNot) and label == "T") or (isinstance(cp[1], ast.Is) and label == "F"):
                return norm(a)
    return None


def _site_name(r: ast.Raise) -> str:
    arg = r.exc.args[0] if isinstance(r.exc, ast.Call) and r.exc.args else None
    if isinstance(arg, ast.Call):
        return norm(arg.func) + "(...)"
    return norm(arg) if arg is not None else "?"


# ---------------------------------------------------------------------


def run(ctx: Ctx) -> None:
    repo = ctx.repo
    ctx.rule("R12.1", "every router-made RequestRedirect carries a URL assembled position by position whose scheme/host positions hold bound data only and whose path position is <bound prefix with the script root> + '/' + <request data>.lstrip('/'); urljoin never receives request data outside the redirect_to branch")
    ctx.rule("R12.2", "the path handed to the matcher is '/' + request path with its leading slashes stripped (or empty)")
    ctx.rule("R12.3", "the query position of every router-made redirect URL receives the query_args of this match() call, unchanged or through the mapping encoder")
    ctx.rule("R12.4", "MapAdapter.encode_query_args returns a str argument itself; only non-str arguments are encoded")
    ctx.rule("R12.5", "the matcher proposes a slash redirect only for a rule that admits the request method and websocket flag, and a merged-slash redirect only after the merged path matched")
    ctx.rule("R12.6", "a missing-slash signal raised while walking path P is turned into a redirect to that same P + '/' (not to another path value such as the merged-slash variant)")
    ctx.rule("R12.7", "the values the matcher raises with the alias-redirect signal include everything the values of its match result are made from (converter values and the rule's defaults), on every path to the raise")
    ctx.rule("R12.8", "for an adapter bound to http, https, ws or wss, the scheme position of every router-made redirect URL evaluates - on every path, in the calling context of the redirect - to a scheme of the same security class (https/wss for https/wss, http/ws for http/ws)")

    ip = Interp(ctx)
    match = repo.func(f"{ADAPTER}.match")
    for p in REQUEST_PARAMS:
        if p not in match.params:
            raise AnalysisError(f"MapAdapter.match has no parameter `{p}`")
    top = Frame(match, {p: (lab(f"match({p})") if p in REQUEST_PARAMS else BOUND) for p in match.params}, ())
    Q = (f"match({REQUEST_PARAMS[1]})", True)

    # ---------------- R12.1 / R12.3: redirect sites ------------------------
    # match() and the adapter methods it calls (transitively) that raise RequestRedirect themselves, each in the
    # context of its call
    raisers = {fi.fq for fi in ip.adapter.methods.values() if any(_is_redirect_exc(ip, fi, r) for r in astq.raises_of(fi.node))}
    grew = True
    while grew:
        grew = False
        for fi in ip.adapter.methods.values():
            if fi.fq in raisers:
                continue
            for c in astq.calls(fi.node, nested=False):
                f = c.func
                if isinstance(f, ast.Attribute) and astq.is_name(f.value, "self"):
                    _, what = repo.lookup(ip.adapter, f.attr)
                    if isinstance(what, FuncInfo) and what.fq in raisers:
                        raisers.add(fi.fq)
                        grew = True
                        break
    frames: list[Frame] = []

    def visit(fr: Frame) -> None:
        frames.append(fr)
        for c in astq.calls(fr.fi.node, nested=False):
            callee = ip.self_callee(c, fr)
            if callee is not None and callee.fq in raisers and callee.fq not in fr.stack and len(fr.stack) < 6:
                visit(ip.call_frame(callee, c, fr))

    visit(top)
    visited = {fr.fi.fq for fr in frames}
    router: list[tuple[ast.Raise, Frame]] = []
    excluded: list[str] = []
    for fr in frames:
        for r in astq.raises_of(fr.fi.node):
            if not _is_redirect_exc(ip, fr.fi, r):
                continue
            n = fr.cfg.node_of(r)
            ex = _excluded(fr.cfg, n) if n is not None else None
            if ex:
                excluded.append(ex)
            else:
                router.append((r, fr))
    # floor 1: the sites need not stay three separate statements (a refactoring may merge two of them); completeness is
    # the obligation below that no RequestRedirect is constructed outside the analysed call tree
    ctx.floor("R12.1", "router-made RequestRedirect sites reached from MapAdapter.match", len(router), 1)
    ctx.note(f"R12.1: {len(excluded)} RequestRedirect site(s) under the application-supplied redirect_to branch excluded: {excluded}")
    # no RequestRedirect is constructed anywhere else in the routing package
    for m in sorted(repo.modules.values(), key=lambda m: m.name):
        if not m.name.startswith("werkzeug.routing"):
            continue
        fis = list(m.functions.values()) + [f for c in m.classes.values() for f in c.methods.values()]
        for fi in fis:
            if fi.fq in visited:
                continue
            for c in astq.calls(fi.node):
                d = dotted(c.func)
                if d and repo.resolve(fi.module, d, fi.module.local_imports(fi.node)) == REDIRECT_EXC:
                    ctx.ob("R12.1", f"{fi.qualname}: RequestRedirect constructed outside MapAdapter.match's call tree", False, f"`{norm(c)[:80]}` is not covered by the analysis of match()", fi, c, f"RequestRedirect in {fi.qualname}")

    seen_names: dict[str, int] = {}
    router_sites: set[int] = set()
    for r, fr in router:
        nm = _site_name(r)
        seen_names[nm] = seen_names.get(nm, 0) + 1
        sid = nm if seen_names[nm] == 1 else f"{nm} #{seen_names[nm]}"
        arg = r.exc.args[0] if isinstance(r.exc, ast.Call) and r.exc.args else None
        if arg is None:
            raise AnalysisError(f"RequestRedirect raised without a URL argument at {fr.fi.loc(r)}")
        v = ip.ev(arg, fr)
        urls = list(v.urls)
        router_sites |= {id(u.site) for u in urls}
        assembled = bool(urls) and not v.plain
        what = "; ".join(u.desc() for u in urls) or "no positional assembly"
        stray = f"; also a value that is not an assembled URL ({', '.join(v.notes) or 'labels ' + str(names(v.flat()))})" if v.plain else ""
        ctx.ob("R12.1", f"redirect {sid}: the URL is assembled position by position", assembled, f"value comes from: {what}{stray}", fr.fi, r, f"redirect {sid} assembled")
        bad = sorted({f"{pos}<-{n}" for u in urls for pos, ls in (("scheme", u.scheme), ("host", u.netloc)) for n in names(ls)})
        ctx.ob("R12.1", f"redirect {sid}: scheme and host positions hold bound data only", bool(urls) and not bad,
               "request data in " + ", ".join(bad) if bad else (f"scheme/host labels empty over {len(urls)} URL shape(s) [{what}]" if urls else "no URL shape to inspect"), fr.fi, r, f"redirect {sid} scheme/host")
        qok = bool(urls) and all(Q in u.query for u in urls)
        qfact = "; ".join(f"{u.desc()}: query position receives {sorted(n + (' (unchanged)' if raw else ' (transformed)') for n, raw in u.query) or 'nothing'}" for u in urls) or "no URL shape"
        ctx.ob("R12.3", f"redirect {sid}: query position receives match()'s query_args unchanged or mapping-encoded", qok, qfact, fr.fi, r, f"redirect {sid} query")

    # floor 1: every redirect site above already owes a positional assembly; two redirects may share one assembly helper
    ctx.floor("R12.1", "URL assembly sites reached from the redirect sites", len(ip.url_sites), 1)
    for u in sorted(ip.url_sites.values(), key=lambda u: (u.where.fq, getattr(u.site, "lineno", 0))):
        ctx.ob("R12.1", f"{u.where.qualname}: path position of {u.form}", u.path_ok, u.path_fact, u.where, u.site, f"{u.where.qualname} path position [{u.form.split('(')[0].split(' ')[0]}]")

    # urljoin: every call in match() and the raising helpers
    n_uj = 0
    done: set[int] = set()
    for fr in frames:
        fi = fr.fi
        for c in astq.calls(fi.node):
            d = dotted(c.func)
            if id(c) in done or not d or repo.resolve(fi.module, d, fi.module.local_imports(fi.node)) != URLJOIN:
                continue
            done.add(id(c))
            n_uj += 1
            node = fr.cfg.node_of(c)
            ex = _excluded(fr.cfg, node) if node is not None else None
            if ex:
                ctx.ob("R12.1", f"{fi.qualname}: urljoin only under the redirect_to branch", True, f"dominated by `{ex}`", fi, c, f"urljoin in {fi.qualname}")
                continue
            labs = join_all(ip.ev(a, fr) for a in c.args[1:]).flat() if len(c.args) > 1 else frozenset()
            ctx.ob("R12.1", f"{fi.qualname}: urljoin receives no request data", not labs, f"`{norm(c)[:90]}`: joined part carries {names(labs) or 'nothing'}", fi, c, f"urljoin in {fi.qualname}")
    ctx.note(f"R12.1: {n_uj} urljoin call(s) in MapAdapter.match and its raising helpers")

    # ---------------- R12.2 ----------------------------------------------------
    _matcher_path(ctx, ip, top)
    # ---------------- R12.4 ----------------------------------------------------
    _encode_query_args(ctx, ip)
    # ---------------- R12.5 / R12.6 / R12.7 (wzsa/rules/_c12_helpers.py) -----------
    matcher_rules(ctx)
    alias_values_rule(ctx)
    # ---------------- R12.8 ----------------------------------------------------
    _scheme_rule(ctx, ip, router_sites)


# ---------------------------------------------------------------------
# R12.8


def _concrete(a: Abs) -> t.Any:
    """the one Python constant a parameter is bound to in this calling context, if it is one."""
    if a.consts is not None and len(a.consts) == 1 and not a.flat() and a.tup is None and not a.urls:
        return next(iter(a.consts))
    return UNKNOWN


def _context_params(ex: ConstExec, fr: Frame) -> dict[str, t.Any]:
    """constant parameters of a frame: the arguments of the call it was entered from, evaluated by the executor in the
    caller's own context (so `url_scheme=self.url_scheme` or a constant held in a local count), else what the
    interpreter knows about them (constants written at the call, constant defaults)."""
    out = {k: v for k, v in ((k, _concrete(a)) for k, a in fr.bind.items()) if v is not UNKNOWN}
    if fr.parent is None or fr.call is None:
        return out
    a = fr.fi.node.args  # type: ignore[attr-defined]
    pos = [x.arg for x in a.posonlyargs + a.args]
    if fr.fi.cls is not None and "staticmethod" not in fr.fi.decorators and pos:
        pos = pos[1:]
    if any(isinstance(x, ast.Starred) for x in fr.call.args) or any(k.arg is None for k in fr.call.keywords):
        return out
    given = [(pos[i], x) for i, x in enumerate(fr.call.args) if i < len(pos)] + [(k.arg, k.value) for k in fr.call.keywords]
    try:
        _, seen = ex.explore(fr.parent.fi, _context_params(ex, fr.parent), [x for _, x in given])
    except BudgetExceeded:
        return out
    for name, x in given:
        vals = seen[id(x)]
        if name not in out and len(vals) == 1 and vals[0] is not UNKNOWN:
            out[name] = vals[0]  # type: ignore[index]
    return out


def _scheme_rule(ctx: Ctx, ip: Interp, router_sites: set[int]) -> None:
    if not ip.scheme_attrs:
        raise AnalysisError(f"MapAdapter.__init__ stores its `{SCHEME_PARAM}` parameter in no attribute")
    by_site: dict[int, dict[str, t.Any]] = {}
    for site, fr, pieces in ip.scheme_sites:
        if id(site) not in router_sites:
            continue
        ckey = fr.stack + tuple(sorted((k, repr(v)) for k, v in ((k, _concrete(a)) for k, a in fr.bind.items()) if v is not UNKNOWN))
        ent = by_site.setdefault(id(site), {"site": site, "fi": fr.fi, "ctxs": {}})
        ent["ctxs"].setdefault(ckey, (fr, pieces))
    ctx.floor("R12.8", "URL assembly sites of router redirects whose scheme position is evaluated", len(by_site), 1)
    execs: dict[str, ConstExec] = {}
    for ent in sorted(by_site.values(), key=lambda x: (x["fi"].fq, getattr(x["site"], "lineno", 0))):
        fi: FuncInfo = ent["fi"]
        site = ent["site"]
        form = "urlunsplit" if isinstance(site, ast.Call) else "f-string"
        bad: list[str] = []
        facts: list[str] = []
        reached = 0
        for fr, pieces in ent["ctxs"].values():
            exprs = [p[1] for p in pieces if p[0] == "e"]
            via = " <- ".join(x.rsplit(".", 1)[-1] for x in reversed(fr.stack[-3:]))
            row: list[str] = []
            for s in SCHEMES:
                ex = execs.setdefault(s, ConstExec(ctx.repo, {a: s for a in ip.scheme_attrs}))
                params = _context_params(ex, fr)
                ptxt = ", ".join(f"{k}={v!r}" for k, v in sorted(params.items())) or "no constant arguments"
                try:
                    _, seen = ex.explore(fr.fi, params, exprs)
                except BudgetExceeded:
                    raise AnalysisError(f"{fi.qualname}: too many paths to evaluate the scheme position of the {form} at {fi.loc(site)}") from None
                texts: list[t.Any] = [""]
                for p in pieces:
                    if p[0] == "c":
                        texts = [x if x is UNKNOWN else x + p[1] for x in texts]
                    else:
                        texts = [UNKNOWN if (x is UNKNOWN or v is UNKNOWN or not (v is None or isinstance(v, str))) else x + (v or "") for x in texts for v in seen[id(p[1])]]
                if not texts:
                    continue  # not reached in this context
                reached += 1
                if any(x is UNKNOWN for x in texts):
                    shape = " + ".join(repr(p[1]) if p[0] == "c" else f"`{norm(p[1])}`" for p in pieces)
                    raise AnalysisError(f"{fi.qualname} ({via}): the scheme position {shape} of the {form} at {fi.loc(site)} does not evaluate to constants for an adapter bound to {s!r}")
                got = sorted(set(texts))
                row.append(f"{s} -> {got}")
                wrong = [x for x in got if (x[:-1] if x.endswith(":") else x) not in SCHEMES or ((x[:-1] if x.endswith(":") else x) in SECURE) != (s in SECURE)]
                if wrong:
                    bad.append(f"bound to {s!r} it can be {wrong} ({via}; {ptxt})")
            facts.append(f"[{via}] " + ", ".join(row))
        if not reached:
            raise AnalysisError(f"{fi.qualname}: the {form} at {fi.loc(site)} is reached in no evaluated context")
        ctx.ob("R12.8", f"{fi.qualname}: scheme position of the {form} stays in the security class of the bound scheme", not bad,
               ("; ".join(bad) + " | " if bad else "") + "scheme position by bound scheme: " + " ".join(facts), fi, site, f"{fi.qualname} scheme position [{form}]")


# ---------------------------------------------------------------------
# R12.2


def _matcher_path(ctx: Ctx, ip: Interp, top: Frame) -> None:
    match = top.fi
    mm = ctx.repo.func(f"{MATCHER}.match")
    mparams = [p for p in mm.params if p != "self"]
    if "path" not in mparams:
        raise AnalysisError("StateMachineMatcher.match has no `path` parameter")
    idx = mparams.index("path")
    # the call to the matcher: a `.match(...)` call on something other than self inside a try that handles RequestPath
    calls = []
    for tr in walk_no_nested(match.node):
        if isinstance(tr, ast.Try) and any((dotted(h.type) or "").endswith("RequestPath") for h in tr.handlers if h.type is not None):
            for st in tr.body:
                for c in astq.calls(st, nested=False):
                    if isinstance(c.func, ast.Attribute) and c.func.attr == "match" and not astq.is_name(c.func.value, "self"):
                        calls.append(c)
    ctx.floor("R12.2", "calls to the matcher in MapAdapter.match", len(calls), 1)
    for c in calls:
        arg = astq.arg_or_kw(c, idx, "path")
        if arg is None:
            raise AnalysisError(f"matcher call at {match.loc(c)} passes no path")
        labs = ip.ev(arg, top).flat()
        alts: list[ast.AST] = []

        def expand(e: ast.AST) -> None:
            e = ip.single_value(e, top)
            if isinstance(e, ast.IfExp):
                expand(e.body)
                expand(e.orelse)
            elif isinstance(e, ast.Name):
                node = top.cfg.node_of(e)
                ds = [d for d in (top.rd.reaching(node, e.id) if node is not None else [])]
                if ds and all(d.kind == "assign" and d.value is not None for d in ds):
                    for d in ds:
                        expand(d.value)
                else:
                    alts.append(e)
            else:
                alts.append(e)

        expand(arg)
        problems: list[str] = []
        shapes: list[str] = []
        for a in alts:
            ps = ip._fuse(ip.pieces(a, top))
            shapes.append(" + ".join(repr(p[1]) if p[0] == "c" else f"`{norm(p[1])}`" for p in ps) or "''")
            if not ps:
                continue  # empty path for an empty request path
            if not (ps[0][0] == "c" and ps[0][1].startswith("/") and not ps[0][1].startswith("//")):
                problems.append(f"`{norm(a)}` does not start with a single literal '/'")
            for i, p in enumerate(ps):
                if p[0] != "e" or not ip.ev(p[1], top).flat():
                    continue
                ex = p[1]
                stripped = isinstance(ex, ast.Call) and isinstance(ex.func, ast.Attribute) and ex.func.attr == "lstrip" and len(ex.args) == 1 and "/" in (const_str(ex.args[0]) or "")
                if not stripped:
                    problems.append(f"`{norm(ex)}` keeps its leading slashes")
                if i == 0 or not (ps[i - 1][0] == "c" and ps[i - 1][1].endswith("/")):
                    problems.append(f"`{norm(ex)}` is not preceded by a literal '/'")
        derived = any(n.startswith("match(path_info)") for n in names(labs))
        if not derived:
            problems.append("the matcher's path is not derived from match()'s path_info")
        ctx.ob("R12.2", "path handed to the matcher = '/' + path_info.lstrip('/')", not problems, f"alternatives: {shapes}" + (": " + "; ".join(problems) if problems else ""), match, c, "matcher path normalised")


# ---------------------------------------------------------------------
# R12.4


def _is_str_test(e: ast.AST, param: str) -> bool:
    if isinstance(e, ast.Call) and astq.is_name(e.func, "isinstance") and len(e.args) == 2 and astq.is_name(e.args[0], param):
        k = e.args[1]
        ks = k.elts if isinstance(k, ast.Tuple) else [k]
        return len(ks) == 1 and astq.is_name(ks[0], "str")
    return False


def _encode_query_args(ctx: Ctx, ip: Interp) -> None:
    fi = ctx.repo.func(f"{ADAPTER}.encode_query_args")
    ps = [p for p in fi.params if p != "self"]
    if len(ps) != 1:
        raise AnalysisError(f"encode_query_args: expected one parameter, found {ps}")
    param = ps[0]
    fr = Frame(fi, {param: lab(param)}, ())
    cfg = fr.cfg
    tests = [tn for tn in cfg.tests() if tn.kind == "test" and tn.ast is not None and _is_str_test(tn.ast, param)]
    n_str = 0

    def leaves(e: ast.AST | None, is_str: bool | None) -> list[tuple[ast.AST | None, bool | None]]:
        if isinstance(e, ast.IfExp):
            tst, flip = e.test, False
            while isinstance(tst, ast.UnaryOp) and isinstance(tst.op, ast.Not):
                tst, flip = tst.operand, not flip
            if _is_str_test(tst, param):
                return leaves(e.body, not flip) + leaves(e.orelse, flip)
            return leaves(e.body, is_str) + leaves(e.orelse, is_str)
        return [(e, is_str)]

    for r in astq.returns_of(fi.node):
        node = cfg.node_of(r)
        dom: bool | None = None
        for tn in tests:
            if node is not None and cfg.edge_dominates(tn, "T", node):
                dom = True
            elif node is not None and cfg.edge_dominates(tn, "F", node):
                dom = False
        for e, is_str in leaves(r.value, dom):
            if is_str is not True:
                continue
            n_str += 1
            v = ip.ev(e, fr) if e is not None else none_abs()
            same = v.flat() == frozenset([(param, True)]) and v.tup is None and not v.urls
            ctx.ob("R12.4", "encode_query_args: a str argument is returned itself", same,
                   f"under isinstance({param}, str) the function returns `{norm(e) if e is not None else 'None'}`" + ("" if same else " - not the argument unchanged: an already encoded query string would be altered"),
                   fi, r, "str query returned unchanged")
    if not tests and n_str == 0:
        # no isinstance test at all: every return must pass a str through
        raise AnalysisError("encode_query_args: no isinstance(<arg>, str) test found (expected shape absent)")
    ctx.floor("R12.4", "returns of encode_query_args on the str branch", n_str, 1)
