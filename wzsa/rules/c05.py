"""C05 - responses are well-formed WSGI output (structural clauses)."""

from __future__ import annotations

import ast

from .. import astq
from ..fold import Folder, RegexConst, Unfoldable, single_class
from ..loader import AnalysisError, ClassInfo, FuncInfo, dotted, is_self_attr, norm, walk_no_nested
from ..report import Ctx
from ._c05_helpers import (
    Fn,
    GuardEval,
    Sigma,
    bindings,
    const_key,
    enclosing_function,
    fn_of,
    header_removals,
    header_stores,
    is_empty_literal,
    isinstance_atom,
    method,
    none_test,
    same_binding,
)

LEVEL_TEXT = (
    "Static decision of structural clauses of C05 on /repo's current source: (R5.1) every store into the header list "
    "(`_list`, anywhere in the package) stores pairs whose value is the result of _str_header_value or was bound by "
    "iterating the list itself; inside _str_header_value every return is dominated by the not-found edge of a `search` "
    "with a class containing CR and LF on the very binding that is returned, the found edge cannot complete normally, "
    "and the returned binding is a str; (R5.2) the WSGI header list is Headers.to_wsgi_list() of the object returned by "
    "get_wsgi_headers, which is a Headers copy of self.headers touched only through the Headers interface; (R5.3) for "
    "every status 100..599 and method GET/HEAD/POST the branch structure of get_app_iter yields an empty body exactly for "
    "HEAD/1xx/204/304, and get_wsgi_headers removes Content-Length on every path for 1xx/204 and computes none for "
    "1xx/204/304; (R5.4) every Content-Length the Response classes store is a length measured over encoded bytes "
    "(iter_encoded(), an .encode() result, bytes-typed data, or the range difference that also feeds the range wrapper), "
    "and the body handed to the server is that same encoded stream; (R5.5) Location/Content-Location stored by "
    "get_wsgi_headers come from iri_to_uri (or urljoin of such) under no other condition than presence; (R5.6) every "
    "return of get_app_iter chains Response.close through ClosingIterator, which runs every callback and the wrapped "
    "iterable's own close; Response.close closes the body and runs every registered callback; make_sequence moves the "
    "consumed iterable's close into the callbacks; (R5.7) _clean_status returns (str, int) on every path and is the only "
    "source of the stored status. It decides these clauses on all paths of the named functions; it does not decide that "
    "iri_to_uri emits only ASCII, that _RangeWrapper yields exactly the announced number of bytes, nor exception paths "
    "inside close callbacks."
)
TRUSTED = [
    "CPython ast and re._parser",
    "str(x) returns a str; x.encode() returns bytes; len() of bytes counts bytes",
    "urllib.parse.urljoin of two ASCII strings is ASCII",
    "declared parameter types: a `bytes | str` value that is not a str is bytes",
]
ASSUMPTIONS = [
    "header values reach the list only through code of the package (no outside writes to the private `_list`)",
    "subclasses do not override the named methods",
    "close callbacks do not raise",
]

STORE_METHODS = {"append", "insert", "extend", "__iadd__", "__setitem__"}
NONSTORE_METHODS = {"pop", "clear", "remove", "sort", "reverse", "copy", "index", "count", "__delitem__", "__len__", "__iter__", "__contains__", "__getitem__", "__reversed__"}
READER_WRAPPERS = {"iter", "list", "tuple", "reversed", "sorted"}
SANITISER = "werkzeug.datastructures.headers._str_header_value"


def run(ctx: Ctx) -> None:
    for rid, text in {
        "R5.1": "every store into Headers._list stores pairs whose value is _str_header_value(...) or came from the list itself; in _str_header_value every return is dominated by the CR/LF search on the returned binding, whose found edge raises, and the returned binding is a str",
        "R5.2": "get_wsgi_response returns to_wsgi_list() of get_wsgi_headers(environ), which is a Headers copy of self.headers modified only through the Headers interface; to_wsgi_list lists the storage",
        "R5.3": "for every status 100..599 x GET/HEAD/POST: body empty <=> HEAD or 1xx or 204 or 304; Content-Length removed on every path for 1xx/204; no Content-Length computed for 1xx/204/304",
        "R5.4": "every Content-Length stored by the Response classes is a length measured over encoded bytes, and the body handed to the server is the measured encoded stream",
        "R5.5": "Location / Content-Location stored by get_wsgi_headers have provenance iri_to_uri (or urljoin of such) and are stored whenever the header is present",
        "R5.6": "every return of get_app_iter is ClosingIterator(<iterable>, self.close); ClosingIterator runs every callback and the iterable's own close; Response.close closes the body and runs every _on_close entry; make_sequence keeps the consumed iterable's close",
        "R5.7": "_clean_status returns (str, int) on every path, int-like statuses go through int(); the stored status comes only from _clean_status",
    }.items():
        ctx.rule(rid, text)
    _r51_stores(ctx)
    _r51_sanitiser(ctx)
    _r52(ctx)
    _r53(ctx)
    _r54(ctx)
    _r55(ctx)
    _r56(ctx)
    _r57(ctx)


# =====================================================================
# R5.1 (a): stores into the header list


def _is_list_attr(e: ast.AST | None) -> bool:
    return isinstance(e, ast.Attribute) and e.attr == "_list"


def _denotes_list(F: Fn, at, e: ast.AST, depth: int = 0) -> bool:
    """e is the header list itself (the attribute, or a local alias of it)."""
    if _is_list_attr(e):
        return True
    if isinstance(e, ast.Name) and depth < 4:
        bs = bindings(F, at, e)
        return bool(bs) and all(b.kind == "value" and b.path == () and b.expr is not None and b.node is not None and _denotes_list(F, b.node, b.expr, depth + 1) for b in bs)
    return False


def _elem(it: ast.AST, path: tuple[int, ...]) -> tuple[ast.AST, tuple[int, ...]] | None:
    """`enumerate(S)` yields (index, element): strip the wrapper and the leading 1 of the path."""
    if isinstance(it, ast.Call) and isinstance(it.func, ast.Name) and it.func.id == "enumerate" and it.args:
        if not path or path[0] != 1:
            return None
        return it.args[0], path[1:]
    return it, path


def _existing_src(F: Fn, at, e: ast.AST, depth: int = 0) -> bool:
    """e iterates over pairs that are already in the list."""
    if depth > 6:
        return False
    if _is_list_attr(e):
        return True
    if isinstance(e, ast.Subscript) and isinstance(e.slice, ast.Slice):
        return _existing_src(F, at, e.value, depth + 1)
    if isinstance(e, ast.Call) and isinstance(e.func, ast.Name) and e.func.id in READER_WRAPPERS and len(e.args) >= 1:
        return _existing_src(F, at, e.args[0], depth + 1)
    if isinstance(e, ast.Name):
        bs = bindings(F, at, e)
        return bool(bs) and all(b.kind == "value" and b.path == () and b.expr is not None and b.node is not None and _existing_src(F, b.node, b.expr, depth + 1) for b in bs)
    return False


def _existing_pair(F: Fn, at, e: ast.AST, depth: int = 0) -> bool:
    if depth > 6:
        return False
    if isinstance(e, ast.Name):
        bs = bindings(F, at, e)
        if not bs:
            return False
        for b in bs:
            if b.kind == "iter" and b.expr is not None and b.node is not None:
                ep = _elem(b.expr, b.path)
                if ep is None or ep[1] != () or not _existing_src(F, b.node, ep[0], depth + 1):
                    return False
            elif b.kind == "value" and b.path == () and b.expr is not None and b.node is not None:
                if not _existing_pair(F, b.node, b.expr, depth + 1):
                    return False
            else:
                return False
        return True
    if isinstance(e, ast.Subscript) and not isinstance(e.slice, ast.Slice):
        return _existing_src(F, at, e.value, depth + 1)
    if isinstance(e, ast.Call) and isinstance(e.func, ast.Attribute) and e.func.attr == "pop" and _denotes_list(F, at, e.func.value):
        return True  # a pair taken out of the list
    if isinstance(e, ast.Call) and isinstance(e.func, ast.Name) and e.func.id == "next" and e.args:
        return _existing_src(F, at, e.args[0], depth + 1)
    return False


def _value_ok(F: Fn, at, e: ast.AST, depth: int = 0) -> tuple[bool, str]:
    if depth > 6:
        return False, "provenance chain too deep"
    if isinstance(e, ast.Call) and F.call_fq(e) == SANITISER:
        return True, "SANITISED"
    if isinstance(e, ast.Name):
        bs = bindings(F, at, e)
        if not bs:
            return False, f"`{e.id}` has no local binding"
        tags = set()
        for b in bs:
            if b.kind == "value" and b.path == () and b.expr is not None and b.node is not None:
                ok, why = _value_ok(F, b.node, b.expr, depth + 1)
                if not ok:
                    return False, f"`{e.id}` <- {why}"
                tags.add(why)
            elif b.kind == "iter" and b.expr is not None and b.node is not None:
                ep = _elem(b.expr, b.path)
                if ep is None or ep[1] != (1,) or not _existing_src(F, b.node, ep[0]):
                    return False, f"`{e.id}` is bound by iterating `{norm(b.expr)}`, which is not the list's own pairs (value position)"
                tags.add("EXISTING")
            elif b.kind == "value" and b.path == (1,) and b.expr is not None and b.node is not None and _existing_pair(F, b.node, b.expr):
                tags.add("EXISTING")
            elif b.kind == "param":
                return False, f"`{e.id}` is the raw parameter"
            else:
                return False, f"`{e.id}` is bound to `{norm(b.expr) if b.expr is not None else b.kind}` (raw)"
        return True, "/".join(sorted(tags))
    if isinstance(e, ast.Subscript) and isinstance(e.slice, ast.Constant) and e.slice.value == 1 and _existing_pair(F, at, e.value):
        return True, "EXISTING"
    return False, f"`{norm(e)}` is neither _str_header_value(...) nor a value already in the list"


def _pair_ok(F: Fn, at, e: ast.AST, depth: int = 0) -> tuple[bool, str]:
    if depth > 6:
        return False, "provenance chain too deep"
    if isinstance(e, ast.Tuple) and len(e.elts) == 2:
        return _value_ok(F, at, e.elts[1], depth + 1)
    if _existing_pair(F, at, e):
        return True, "EXISTING"
    if isinstance(e, ast.Name):
        bs = bindings(F, at, e)
        if bs and all(b.kind == "value" and b.path == () and b.expr is not None and b.node is not None for b in bs):
            tags = set()
            for b in bs:
                ok, why = _pair_ok(F, b.node, b.expr, depth + 1)
                if not ok:
                    return False, why
                tags.add(why)
            return True, "/".join(sorted(tags))
    return False, f"`{norm(e)}` is not a (key, value) pair with a sanitised or existing value"


def _list_ok(F: Fn, at, e: ast.AST, depth: int = 0) -> tuple[bool, str]:
    if depth > 6:
        return False, "provenance chain too deep"
    if isinstance(e, (ast.List, ast.Tuple)) and not (isinstance(e, ast.Tuple) and len(e.elts) == 2 and not all(isinstance(x, ast.Tuple) for x in e.elts)):
        tags = {"EMPTY"} if not e.elts else set()
        for x in e.elts:
            if isinstance(x, ast.Starred):
                ok, why = _list_ok(F, at, x.value, depth + 1)
            else:
                ok, why = _pair_ok(F, at, x, depth + 1)
            if not ok:
                return False, why
            tags.add(why)
        return True, "/".join(sorted(tags))
    if _existing_src(F, at, e):
        return True, "EXISTING"
    if isinstance(e, ast.Call) and isinstance(e.func, ast.Name) and e.func.id in READER_WRAPPERS:
        if not e.args:
            return True, "EMPTY"
        return _list_ok(F, at, e.args[0], depth + 1)
    if isinstance(e, (ast.ListComp, ast.GeneratorExp)):
        return _pair_ok(F, at, e.elt, depth + 1)
    if isinstance(e, ast.BinOp) and isinstance(e.op, ast.Add):
        a = _list_ok(F, at, e.left, depth + 1)
        b = _list_ok(F, at, e.right, depth + 1)
        return (a[0] and b[0]), f"{a[1]}+{b[1]}"
    if isinstance(e, ast.Name):
        bs = bindings(F, at, e)
        if not bs:
            return False, f"`{e.id}` has no local binding"
        tags = set()
        for b in bs:
            if not (b.kind == "value" and b.path == () and b.expr is not None and b.node is not None):
                return False, f"`{e.id}` is bound to `{norm(b.expr) if b.expr is not None else b.kind}` (raw)"
            ok, why = _list_ok(F, b.node, b.expr, depth + 1)
            if not ok:
                return False, f"`{e.id}` <- {why}"
            tags.add(why)
        # everything the function puts into that local list must be fine as well
        for c in astq.calls(F.fi.node, nested=False):
            f = c.func
            if isinstance(f, ast.Attribute) and isinstance(f.value, ast.Name) and f.value.id == e.id and f.attr in STORE_METHODS and c.args:
                cn = F.node(c)
                if f.attr in ("append", "insert"):
                    ok, why = _pair_ok(F, cn, c.args[-1], depth + 1)
                else:
                    ok, why = _list_ok(F, cn, c.args[-1], depth + 1)
                if not ok:
                    return False, f"`{norm(c)}`: {why}"
                tags.add(why)
        for n in walk_no_nested(F.fi.node):
            if isinstance(n, ast.AugAssign) and isinstance(n.target, ast.Name) and n.target.id == e.id:
                ok, why = _list_ok(F, F.node(n), n.value, depth + 1)
                if not ok:
                    return False, f"`{norm(n)}`: {why}"
                tags.add(why)
        return True, "/".join(sorted(tags))
    return False, f"`{norm(e)}` is not a list of pairs with sanitised or existing values"


def _r51_stores(ctx: Ctx) -> None:
    repo = ctx.repo
    hcls = repo.cls("datastructures.headers.Headers")
    index = {id(fi.node): fi for fi in repo.all_functions()}
    # every syntactic use of the list: the attribute anywhere in the package, and local aliases of it
    uses: list[tuple[FuncInfo | None, ast.AST]] = []
    for m in repo.modules.values():
        for n in ast.walk(m.tree):
            if _is_list_attr(n):
                uses.append((enclosing_function(repo, n, index), n))
    alias_fns = {id(fi): fi for fi, n in uses if fi is not None and isinstance(astq.parent(n), (ast.Assign, ast.AnnAssign)) and getattr(astq.parent(n), "value", None) is n}
    for fi in alias_fns.values():
        F = fn_of(repo, fi)
        for n in walk_no_nested(fi.node):
            if isinstance(n, ast.Name) and isinstance(n.ctx, (ast.Load, ast.Store, ast.Del)):
                cn = F.cfg.node_of(n)
                if cn is not None and not isinstance(astq.parent(n), (ast.Assign, ast.AnnAssign)) and _denotes_list(F, cn, n):
                    uses.append((fi, n))

    n_in = n_out = 0
    for fi, u in uses:
        p = astq.parent(u)
        kind = None  # pair | list | either | unknown
        rhs: ast.AST | None = None
        site: ast.AST | None = None
        if isinstance(p, ast.Attribute) and p.value is u and isinstance(astq.parent(p), ast.Call) and astq.parent(p).func is p:  # type: ignore[union-attr]
            call = astq.parent(p)
            if p.attr in NONSTORE_METHODS:
                continue
            site = call
            if p.attr in ("append", "insert") and call.args:  # type: ignore[union-attr]
                kind, rhs = "pair", call.args[-1]  # type: ignore[union-attr]
            elif p.attr in ("extend", "__iadd__") and call.args:  # type: ignore[union-attr]
                kind, rhs = "list", call.args[-1]  # type: ignore[union-attr]
            elif p.attr == "__setitem__" and len(call.args) == 2:  # type: ignore[union-attr]
                kind, rhs = "either", call.args[1]  # type: ignore[union-attr]
            else:
                kind = "unknown"
        elif isinstance(p, ast.Subscript) and p.value is u and isinstance(p.ctx, ast.Store):
            st = astq.parent(p)
            while st is not None and not isinstance(st, ast.stmt):
                st = astq.parent(st)
            site = st
            if isinstance(st, ast.Assign) and any(tg is p for tg in st.targets):
                kind, rhs = ("list" if isinstance(p.slice, ast.Slice) else "either"), st.value
            elif isinstance(st, ast.AugAssign):
                kind, rhs = "unknown", st.value
            else:
                kind = "unknown"
        elif isinstance(getattr(u, "ctx", None), ast.Store):
            st = p
            while st is not None and not isinstance(st, ast.stmt):
                st = astq.parent(st)
            site = st
            if isinstance(st, (ast.Assign, ast.AnnAssign)) and st.value is not None and (p is st):
                kind, rhs = "list", st.value
            elif isinstance(st, ast.AugAssign) and st.target is u:
                kind, rhs = "list", st.value
            elif isinstance(st, ast.AnnAssign) and st.value is None:
                continue
            else:
                kind = "unknown"
        elif isinstance(p, ast.AugAssign) and p.target is u:
            site, kind, rhs = p, "list", p.value
        else:
            continue  # a read (iteration, len, subscript load, deletion ...)
        inside = fi is not None and fi.cls is not None and any(k.fq == hcls.fq for k in repo.mro(fi.cls))
        if inside:
            n_in += 1
        else:
            n_out += 1
        where = fi if fi is not None else "module level"
        label = f"{fi.qualname if fi is not None else 'module level'}: store `{norm(site)[:90]}`"
        cons = f"store {norm(site)}"
        if fi is None or kind == "unknown" or rhs is None:
            ctx.ob("R5.1", label, False, "a write into the header list of a shape the rule cannot relate to sanitised values", where, site, cons)
            continue
        F = fn_of(repo, fi)
        at = F.node(site)
        if kind == "pair":
            ok, why = _pair_ok(F, at, rhs)
        elif kind == "list":
            ok, why = _list_ok(F, at, rhs)
        else:
            ok, why = _pair_ok(F, at, rhs)
            if not ok:
                ok2, why2 = _list_ok(F, at, rhs)
                if ok2:
                    ok, why = ok2, why2
        ctx.ob("R5.1", label, ok, f"stored {'pair' if kind == 'pair' else 'pair(s)'} `{norm(rhs)[:80]}`: value provenance {why}" + ("" if inside else " (store outside the Headers class)"), fi, site, cons)
    ctx.floor("R5.1", "stores into Headers._list inside the class", n_in, 9)
    ctx.note(f"R5.1: {n_in} store(s) into _list inside the Headers classes, {n_out} outside; {len(uses)} uses of the list examined")


# =====================================================================
# R5.1 (b): the sanitiser


def _search_atom(F: Fn, folder: Folder, e: ast.AST):
    """atom testing a regex on a value -> (method, regex | None, searched expr, label of the 'found' edge)."""
    found = "T"
    call = e
    if isinstance(e, ast.Compare) and len(e.ops) == 1 and isinstance(e.comparators[0], ast.Constant) and e.comparators[0].value is None:
        if isinstance(e.ops[0], ast.IsNot):
            call, found = e.left, "T"
        elif isinstance(e.ops[0], ast.Is):
            call, found = e.left, "F"
        else:
            return None
    if not (isinstance(call, ast.Call) and isinstance(call.func, ast.Attribute) and call.func.attr in ("search", "match", "fullmatch", "findall", "finditer")):
        return None
    recv = call.func.value
    rx = None
    arg = None
    fq = F.resolve(recv)
    try:
        if fq == "re" and len(call.args) >= 2:  # re.search(pattern, value)
            pat = folder.expr(F.fi.module, call.args[0])
            flags = folder.expr(F.fi.module, call.args[2]) if len(call.args) > 2 else 0
            rx = pat if isinstance(pat, RegexConst) else RegexConst(pat, int(flags))
            arg = call.args[1]
        elif call.args:
            v = folder.expr(F.fi.module, recv)
            if isinstance(v, RegexConst):
                rx = v
            arg = call.args[0]
    except Unfoldable:
        rx = None
    if arg is None:
        return None
    return call.func.attr, rx, arg, found


def _str_typed(F: Fn, at, e: ast.AST | None, depth: int = 0) -> tuple[bool, str]:
    """e is a str on every path: str(..) results, text literals, or a value under the true edge of isinstance(.., str)."""
    if e is None or depth > 6:
        return False, "unknown value"
    if isinstance(e, ast.Call) and isinstance(e.func, ast.Name) and e.func.id == "str":
        return True, "str(..)"
    if isinstance(e, ast.JoinedStr) or (isinstance(e, ast.Constant) and isinstance(e.value, str)):
        return True, "text literal"
    if isinstance(e, ast.IfExp):
        test, yes, no = e.test, e.body, e.orelse
        if isinstance(test, ast.UnaryOp) and isinstance(test.op, ast.Not):
            test, yes, no = test.operand, no, yes
        ia = isinstance_atom(test)
        if ia and ia[1] == {"str"} and norm(ia[0]) == norm(yes):
            b = _str_typed(F, at, no, depth + 1)
            return b[0], f"`{norm(yes)}` where it is a str, else {b[1]}"
        a = _str_typed(F, at, yes, depth + 1)
        b = _str_typed(F, at, no, depth + 1)
        return a[0] and b[0], f"{a[1]} / {b[1]}"
    if isinstance(e, ast.Name):
        ds = F.rd.reaching(at, e.id)
        if not ds:
            return False, f"`{e.id}` has no local binding"
        conv = [d.node for d in ds if d.node is not None and d.kind != "param"]
        whys = []
        for d in ds:
            if d.kind == "param":
                safe = []
                for t in F.cfg.tests():
                    ia = isinstance_atom(t.ast) if t.kind == "test" else None
                    if ia and astq.is_name(ia[0], e.id) and ia[1] == {"str"}:
                        safe.append((t, "T"))
                if at.id in F.cfg.reach(avoid_nodes=conv, avoid_edges=safe):
                    return False, f"the unconverted parameter `{e.id}` reaches this point without passing isinstance(.., str)"
                whys.append("parameter under isinstance(.., str)")
            elif d.kind in ("assign", "walrus") and d.node is not None:
                ok, why = _str_typed(F, d.node, d.value, depth + 1)
                if not ok:
                    return False, f"`{e.id}` <- {why}"
                whys.append(why)
            else:
                return False, f"`{e.id}` is bound by `{d.kind}`"
        return True, f"bindings of `{e.id}`: " + " | ".join(sorted(set(whys)))
    return False, f"`{norm(e)[:50]}` is not a str by construction"


def _r51_sanitiser(ctx: Ctx) -> None:
    repo = ctx.repo
    san = repo.func(SANITISER)
    ctx.saw(san)
    F = fn_of(repo, san)
    cfg = F.cfg
    folder = Folder(repo)
    tests = []
    for t in cfg.tests():
        if t.kind != "test":
            continue
        a = _search_atom(F, folder, t.ast)
        if a is not None:
            tests.append((t, *a))
    if not tests:
        raise AnalysisError("_str_header_value: no regular-expression test found (slot)")
    good = []  # tests that are a sound refusal of CR/LF
    for t, meth, rx, arg, found in tests:
        cls: set[int] = set()
        shape = "unfoldable pattern"
        if rx is not None:
            try:
                cls, (lo, hi) = single_class(rx, 256)
                shape = f"class of {len(cls)} code point(s), repeat {lo}..{'inf' if hi >= 10**9 else hi}"
                if lo != 1:
                    cls = set() if lo > 1 else cls
            except Unfoldable as e:
                shape = f"not a single character class ({e})"
        has = {13, 10} <= cls
        ctx.ob("R5.1", "the sanitiser's pattern finds CR and LF", has, f"pattern {rx.pattern if rx is not None else None!r}: {shape}; contains CR: {13 in cls}, LF: {10 in cls}", san, t.ast, f"newline class of `{norm(t.ast)}`")
        srch = meth == "search"
        ctx.ob("R5.1", "the pattern is applied with search (anywhere in the value)", srch, f"`{norm(t.ast)}` uses .{meth}()", san, t.ast, f"search method in `{norm(arg)}` test")
        fs = cfg.succ(t, found)
        r = cfg.reach(fs) if fs else set()
        refuses = bool(fs) and cfg.exit.id not in r
        raised = sorted({astq.raised_name(n.ast) or "?" for n in cfg.nodes if n.id in r and isinstance(n.ast, ast.Raise)})
        ctx.ob("R5.1", "a found CR/LF refuses the value (no normal completion)", refuses, f"found edge `{found}` of `{norm(t.ast)}` reaches the normal exit: {not refuses}; raises {raised}", san, t.ast, "found edge raises")
        if has and srch and refuses:
            good.append((t, arg, "F" if found == "T" else "T"))
    rets = astq.returns_of(san.node)
    ctx.floor("R5.1", "returns of _str_header_value", len(rets), 1)
    for r_ in rets:
        rn = F.node(r_)
        v = r_.value
        cons = f"sanitiser return {norm(v) if v is not None else None}"
        if not isinstance(v, ast.Name):
            ctx.ob("R5.1", f"`{norm(r_)}` returns a checked value", False, "the returned expression is not a local that passed the CR/LF search (computed at the return, never searched)", san, r_, cons + " checked")
            continue
        dom = [(t, arg, nf) for t, arg, nf in good if isinstance(arg, ast.Name) and arg.id == v.id and cfg.edge_dominates(t, nf, rn) and same_binding(F, t, rn, v.id)]
        fact = f"dominated by the not-found edge of a CR/LF search on the same binding of `{v.id}`: {bool(dom)}"
        if not dom:
            cand = [t for t, arg, nf in good if isinstance(arg, ast.Name) and arg.id == v.id]
            if cand:
                t0 = cand[0]
                nf0 = [nf for t, arg, nf in good if t is t0][0]
                if not cfg.edge_dominates(t0, nf0, rn):
                    p = cfg.path(cfg.entry, rn, avoid_edges=[(t0, nf0)])
                    fact += "; path that skips the search: " + cfg.fmt_path(p or [])
                else:
                    fact += f"; `{v.id}` is rebound between the search and the return"
        ctx.ob("R5.1", f"`{norm(r_)}` returns a checked value", bool(dom), fact, san, r_, cons + " checked")
        ok, fact = _str_typed(F, rn, v)
        ctx.ob("R5.1", f"`{norm(r_)}` returns a str", ok, fact, san, r_, cons + " is str")


# =====================================================================
# R5.2: the WSGI header list is the sanitised storage


def _resp(ctx: Ctx) -> ClassInfo:
    return ctx.repo.cls("wrappers.response.Response")


def _self_call(e: ast.AST | None, name: str) -> bool:
    return isinstance(e, ast.Call) and isinstance(e.func, ast.Attribute) and e.func.attr == name and astq.is_name(e.func.value, "self")


def _name_from(F: Fn, at, e: ast.AST | None, pred, path: tuple[int, ...] | None = ()) -> bool:
    """e satisfies pred directly, or is a local whose every reaching definition binds (at position `path`) an expression satisfying pred."""
    if e is None:
        return False
    if pred(e) and path in ((), None):
        return True
    if isinstance(e, ast.Name):
        bs = bindings(F, at, e)
        return bool(bs) and all(b.kind == "value" and b.expr is not None and pred(b.expr) and (path is None or b.path == path) for b in bs)
    return False


def _headers_api_only(ctx: Ctx, F: Fn, ident: str, hcls: ClassInfo, depth: int = 0) -> list[str]:
    """uses of local `ident` (a Headers object) that are not the Headers interface."""
    repo = ctx.repo
    bad: list[str] = []
    for n in walk_no_nested(F.fi.node):
        if not (isinstance(n, ast.Name) and n.id == ident and isinstance(n.ctx, ast.Load)):
            continue
        p = astq.parent(n)
        if isinstance(p, ast.Attribute) and p.value is n:
            _, what = repo.lookup(hcls, p.attr)
            if not isinstance(what, FuncInfo):
                bad.append(f"`{norm(p)}` is not a Headers method")
        elif isinstance(p, ast.Subscript) and p.value is n:
            pass
        elif isinstance(p, (ast.For, ast.comprehension)) and p.iter is n:
            pass
        elif isinstance(p, (ast.Return, ast.Compare, ast.BoolOp, ast.UnaryOp, ast.If, ast.IfExp, ast.While)):
            pass
        elif isinstance(p, ast.Call) and any(a is n for a in p.args):
            fq = F.call_fq(p)
            callee = repo.try_func(fq) if fq and fq.startswith("werkzeug.") else None
            if fq and fq.startswith("builtins."):
                continue
            if callee is None or depth >= 2:
                bad.append(f"passed to `{norm(p.func)}` (not followed)")
                continue
            idx = [i for i, a in enumerate(p.args) if a is n][0]
            params = callee.params
            if idx >= len(params):
                bad.append(f"passed to `{norm(p.func)}` beyond its parameters")
                continue
            ctx.saw(callee)
            bad += [f"in {callee.qualname}: {b}" for b in _headers_api_only(ctx, fn_of(repo, callee), params[idx], hcls, depth + 1)]
        else:
            bad.append(f"`{norm(p)[:60]}` (alias or unknown use)")
    return bad


def _r52(ctx: Ctx) -> None:
    repo = ctx.repo
    resp = _resp(ctx)
    hcls = repo.cls("datastructures.headers.Headers")
    gwr = method(repo, resp, "get_wsgi_response")
    F = fn_of(repo, gwr)
    rets = astq.returns_of(gwr.node)
    ctx.floor("R5.2", "returns of get_wsgi_response", len(rets), 1)
    for r in rets:
        rn = F.node(r)
        v = r.value
        ok = isinstance(v, ast.Tuple) and len(v.elts) == 3
        facts = []
        if ok:
            it, st, hd = v.elts  # type: ignore[union-attr]
            h_ok = isinstance(hd, ast.Call) and isinstance(hd.func, ast.Attribute) and hd.func.attr == "to_wsgi_list" and not hd.args and _name_from(F, rn, hd.func.value, lambda e: _self_call(e, "get_wsgi_headers"))
            i_ok = _name_from(F, rn, it, lambda e: _self_call(e, "get_app_iter"))
            s_ok = is_self_attr(st, "status")
            facts = [f"headers `{norm(hd)}` is to_wsgi_list() of self.get_wsgi_headers(..): {h_ok}", f"iterable `{norm(it)}` is self.get_app_iter(..): {i_ok}", f"status `{norm(st)}` is self.status: {s_ok}"]
            ok = h_ok and i_ok and s_ok
        ctx.ob("R5.2", "get_wsgi_response returns (get_app_iter(..), self.status, get_wsgi_headers(..).to_wsgi_list())", ok, "; ".join(facts) or f"`{norm(r)}` is not a 3-tuple", gwr, r, "wsgi triple")
    # __call__ hands exactly that triple to the server
    call = method(repo, resp, "__call__")
    Fc = fn_of(repo, call)
    srs = [c for c in astq.calls(call.node, nested=False) if isinstance(c.func, ast.Name) and len(call.params) >= 3 and c.func.id == call.params[2]]
    ok = len(srs) == 1 and len(srs[0].args) >= 2
    fact = f"{len(srs)} call(s) of the start_response parameter"
    if ok:
        cn = Fc.node(srs[0])
        s_ok = _name_from(Fc, cn, srs[0].args[0], lambda e: _self_call(e, "get_wsgi_response"), (1,))
        h_ok = _name_from(Fc, cn, srs[0].args[1], lambda e: _self_call(e, "get_wsgi_response"), (2,))
        r_ok = all(_name_from(Fc, Fc.node(r), r.value, lambda e: _self_call(e, "get_wsgi_response"), (0,)) for r in astq.returns_of(call.node)) and bool(astq.returns_of(call.node))
        fact = f"start_response gets element 1 (status): {s_ok}, element 2 (headers): {h_ok}; the returned iterable is element 0: {r_ok}"
        ok = s_ok and h_ok and r_ok
    ctx.ob("R5.2", "Response.__call__ passes status and headers of get_wsgi_response to start_response and returns its iterable", ok, fact, call, srs[0] if srs else call.node, "call hands over the triple")

    gwh = method(repo, resp, "get_wsgi_headers")
    Fh = fn_of(repo, gwh)
    rets = astq.returns_of(gwh.node)
    ctx.floor("R5.2", "returns of get_wsgi_headers", len(rets), 1)
    hfq = hcls.fq

    def is_copy(e: ast.AST) -> bool:
        if isinstance(e, ast.Call) and Fh.call_fq(e) == hfq and len(e.args) == 1 and is_self_attr(e.args[0], "headers"):
            return True
        return isinstance(e, ast.Call) and isinstance(e.func, ast.Attribute) and e.func.attr == "copy" and is_self_attr(e.func.value, "headers")

    names = set()
    for r in rets:
        ok = isinstance(r.value, ast.Name) and _name_from(Fh, Fh.node(r), r.value, is_copy)
        if isinstance(r.value, ast.Name):
            names.add(r.value.id)
        ctx.ob("R5.2", "get_wsgi_headers returns a Headers copy of self.headers", ok, f"`{norm(r)}`: every binding of the returned local is Headers(self.headers) / self.headers.copy(): {ok}", gwh, r, f"wsgi headers object {norm(r.value) if r.value is not None else None}")
    for nm in sorted(names):
        bad = _headers_api_only(ctx, Fh, nm, hcls)
        ctx.ob("R5.2", f"`{nm}` is modified only through the Headers interface", not bad, f"uses outside the interface: {bad}" if bad else "attribute uses are Headers methods, item access goes through __getitem__/__setitem__/__delitem__, helpers it is passed to do the same", gwh, gwh.node, f"headers api only {nm}")
    twl = method(repo, hcls, "to_wsgi_list")
    it = method(repo, hcls, "__iter__")
    ctx.saw(twl, it)

    def lists_storage(e: ast.AST | None) -> bool:
        if isinstance(e, ast.Call) and isinstance(e.func, ast.Name) and e.func.id in ("list", "iter") and len(e.args) == 1:
            a = e.args[0]
            return astq.is_name(a, "self") or is_self_attr(a, "_list") or lists_storage(a)
        return False

    r1 = astq.returns_of(twl.node)
    ok1 = bool(r1) and all(isinstance(r.value, ast.Call) and isinstance(r.value.func, ast.Name) and r.value.func.id == "list" and lists_storage(r.value) for r in r1)
    r2 = astq.returns_of(it.node)
    ok2 = bool(r2) and all(isinstance(r.value, ast.Call) and lists_storage(r.value) and is_self_attr(r.value.args[0], "_list") for r in r2) and not any(isinstance(n, (ast.Yield, ast.YieldFrom)) for n in walk_no_nested(it.node))
    ctx.ob("R5.2", "to_wsgi_list lists the stored pairs", ok1 and ok2, f"to_wsgi_list returns list(self): {ok1}; Headers.__iter__ returns iter(self._list): {ok2}", twl, twl.node, "to_wsgi_list is the storage")



# =====================================================================
# R5.3: body-less agreement (guard algebra over status x method)

STATUSES = range(100, 600)
METHODS = ("GET", "HEAD", "POST")
CL = {"content-length"}


def _must_be_bodyless(s: Sigma) -> bool:
    return s.method == "HEAD" or 100 <= s.status < 200 or s.status in (204, 304)


def _closing_iterator_arg(F: Fn, e: ast.AST | None) -> tuple[ast.AST | None, ast.AST | None] | None:
    """`ClosingIterator(X, CB)` -> (X, CB); None when e is not that call."""
    if isinstance(e, ast.Call) and (F.call_fq(e) or "").endswith("wsgi.ClosingIterator"):
        x = astq.arg_or_kw(e, 0, "iterable")
        cb = astq.arg_or_kw(e, 1, "callbacks")
        return x, cb
    return None


def _body_defs(F: Fn, G: GuardEval, s: Sigma, reach: set[int], rn, x: ast.AST) -> list[ast.AST | None]:
    """the expressions the wrapped iterable `x` can stand for at return node rn under valuation s."""
    if not isinstance(x, ast.Name):
        return [x]
    ds = [d for d in F.rd.reaching(rn, x.id)]
    out: list[ast.AST | None] = []
    for d in ds:
        if d.node is None or d.kind != "assign":
            out.append(None)
            continue
        if d.node.id not in reach:
            continue
        others = [o.node for o in ds if o is not d and o.node is not None]
        if rn.id in G.reach(s, d.node, avoid_nodes=others):
            out.append(d.value)
    return out


def _r53(ctx: Ctx) -> None:
    repo = ctx.repo
    resp = _resp(ctx)
    gai = method(repo, resp, "get_app_iter")
    F = fn_of(repo, gai)
    G = GuardEval(F)
    if not G.evaluable:
        raise AnalysisError("get_app_iter: no branch atom over status / request method found (slot: the decision moved elsewhere)")
    rets = [(F.node(r), r) for r in astq.returns_of(gai.node)]
    groups: dict[str, list[Sigma]] = {"HEAD": [], "1xx": [], "204": [], "304": [], "other statuses, GET/POST": []}
    for st in STATUSES:
        for m in METHODS:
            s = Sigma(st, m)
            g = "HEAD" if m == "HEAD" else "1xx" if st < 200 else "204" if st == 204 else "304" if st == 304 else "other statuses, GET/POST"
            groups[g].append(s)
    verdict: dict[Sigma, tuple[bool, bool]] = {}  # (every reachable return is empty, every reachable return carries the body)
    for ss in groups.values():
        for s in ss:
            reach = G.reach(s)
            all_empty = all_full = True
            n = 0
            for rn, r in rets:
                if rn.id not in reach:
                    continue
                n += 1
                ca = _closing_iterator_arg(F, r.value)
                vals = _body_defs(F, G, s, reach, rn, ca[0]) if ca is not None and ca[0] is not None else [r.value]
                for v in vals:
                    if is_empty_literal(v):
                        all_full = False
                    else:
                        all_empty = False
            verdict[s] = (all_empty and n > 0, all_full and n > 0)
    for g, ss in groups.items():
        want_empty = g != "other statuses, GET/POST"
        bad = [s for s in ss if not (verdict[s][0] if want_empty else verdict[s][1])]
        ex = f"; e.g. status {bad[0].status} {bad[0].method}" if bad else ""
        ctx.ob("R5.3", f"get_app_iter: {g}: the body is {'empty' if want_empty else 'the response body'} on every path", not bad,
               f"{len(ss)} status x method combinations evaluated over the branch atoms {sorted(norm(n.ast) for n in F.cfg.nodes if n.id in G.evaluable)}; {len(bad)} where a reachable return {'is not the empty iterable' if want_empty else 'is an empty iterable'}{ex}",
               gai, gai.node, f"body suppression {g}")

    gwh = method(repo, resp, "get_wsgi_headers")
    Fh = fn_of(repo, gwh)
    Gh = GuardEval(Fh)
    if not Gh.evaluable:
        raise AnalysisError("get_wsgi_headers: no branch atom over the status found (slot)")
    hnames = {r.value.id for r in astq.returns_of(gwh.node) if isinstance(r.value, ast.Name)}
    stores = [Fh.node(n) for n, h, k, v in header_stores(gwh.node, CL) if isinstance(h, ast.Name) and h.id in hnames]
    removes = [Fh.node(n) for n, h, k in header_removals(gwh.node, CL) if isinstance(h, ast.Name) and h.id in hnames]
    ctx.floor("R5.3", "Content-Length stores + removals in get_wsgi_headers", len(stores) + len(removes), 2)
    ctx.floor("R5.3", "status/method atoms in get_app_iter + get_wsgi_headers", len(G.evaluable) + len(Gh.evaluable), 3)
    cfg = Fh.cfg
    kept, computed = [], []
    for st in STATUSES:
        s = Sigma(st, "GET")
        reach = Gh.reach(s)
        if st < 200 or st == 204:
            if cfg.exit.id in Gh.reach(s, avoid_nodes=removes):
                kept.append(st)
            if any(x.id in reach and cfg.exit.id in Gh.reach(s, x, avoid_nodes=removes) for x in stores):
                computed.append(st)
        elif st == 304:
            if any(x.id in reach for x in stores):
                computed.append(st)
    ctx.ob("R5.3", "get_wsgi_headers: 1xx / 204: a Content-Length is removed on every path", not kept,
           f"removal statements: {[norm(n.ast) for n in removes]}; statuses with a path to the return that skips them: {_ranges(kept)}", gwh, removes[0].ast if removes else gwh.node, "content-length removed for 1xx/204")
    ctx.ob("R5.3", "get_wsgi_headers: 1xx / 204 / 304: no Content-Length is computed", not computed,
           f"Content-Length stores: {[norm(n.ast) for n in stores]}; statuses under which one is reachable (and survives): {_ranges(computed)}", gwh, stores[0].ast if stores else gwh.node, "no automatic content-length for 1xx/204/304")


def _ranges(xs: list[int]) -> str:
    if not xs:
        return "none"
    out, lo, prev = [], xs[0], xs[0]
    for x in xs[1:] + [None]:  # type: ignore[list-item]
        if x is not None and x == prev + 1:
            prev = x
            continue
        out.append(str(lo) if lo == prev else f"{lo}-{prev}")
        if x is not None:
            lo = prev = x
    return ", ".join(out)



# =====================================================================
# R5.4: computed lengths measure encoded bytes


class _Len:
    """provenance evaluator for `a length measured over bytes` inside the Response classes."""

    def __init__(self, ctx: Ctx, resp: ClassInfo):
        self.ctx = ctx
        self.repo = ctx.repo
        self.resp = resp
        self.writers = self._response_writers()

    # -- which methods (re)bind self.response ------------------------------
    def _response_writers(self) -> set[str]:
        meths: dict[str, FuncInfo] = {}
        for k in reversed(self.repo.mro(self.resp)):
            if isinstance(k, ClassInfo):
                meths.update({n: f for n, f in k.methods.items() if "." not in n})
        direct = set()
        calls: dict[str, set[str]] = {}
        for name, fi in meths.items():
            calls[name] = {c.func.attr for c in astq.calls(fi.node, nested=False) if isinstance(c.func, ast.Attribute) and astq.is_name(c.func.value, "self")}
            for n in walk_no_nested(fi.node):
                tg = n.targets if isinstance(n, ast.Assign) else [n.target] if isinstance(n, (ast.AugAssign, ast.AnnAssign)) else []
                if any(is_self_attr(x, "response") for x in tg):
                    direct.add(name)
        out = set(direct)
        changed = True
        while changed:
            changed = False
            for name, cs in calls.items():
                if name not in out and cs & out:
                    out.add(name)
                    changed = True
        return out

    # -- bytes-typed single values ------------------------------------------
    def bytes_value(self, F: Fn, at, e: ast.AST | None, depth: int = 0) -> tuple[bool, str]:
        if e is None or depth > 6:
            return False, "unknown value"
        if isinstance(e, ast.Constant) and isinstance(e.value, bytes):
            return True, "bytes literal"
        if isinstance(e, ast.Call) and isinstance(e.func, ast.Attribute) and e.func.attr == "encode":
            return True, ".encode() result"
        if isinstance(e, ast.Name):
            bs = bindings(F, at, e)
            if not bs:
                return False, f"`{e.id}` has no local binding"
            enc_nodes = [b.node for b in bs if b.kind == "value" and b.node is not None and isinstance(b.expr, ast.Call) and isinstance(b.expr.func, ast.Attribute) and b.expr.func.attr == "encode"]
            for b in bs:
                if b.kind == "value" and b.path == () and b.node is not None:
                    ok, why = self.bytes_value(F, b.node, b.expr, depth + 1)
                    if not ok:
                        return False, f"`{e.id}` <- {why}"
                elif b.kind in ("param", "iter") and b.path in ((), None):
                    # a declared `bytes | str` item: bytes once it is known not to be a str
                    safe = []
                    for t in F.cfg.tests():
                        ia = isinstance_atom(t.ast) if t.kind == "test" else None
                        if ia and isinstance(ia[0], ast.Name) and ia[0].id == e.id:
                            if ia[1] == {"str"}:
                                safe.append((t, "F"))
                            elif ia[1] <= {"bytes", "bytearray", "memoryview"}:
                                safe.append((t, "T"))
                    start = None if b.kind == "param" else F.cfg.succ(b.node, "T") if b.node is not None else None
                    leak = at.id in F.cfg.reach(start, avoid_nodes=enc_nodes, avoid_edges=safe)
                    if leak:
                        return False, f"`{e.id}` can still be the unencoded str here (no isinstance(.., str) test or .encode() rebinding on some path)"
                else:
                    return False, f"`{e.id}` is bound to `{norm(b.expr) if b.expr is not None else b.kind}`"
            return True, f"`{e.id}` is bytes on every path (encoded, or not a str)"
        return False, f"`{norm(e)}` is not known to be bytes"

    # -- iterables of bytes -----------------------------------------------
    def encoded_list(self, F: Fn, at, e: ast.AST | None, depth: int = 0) -> tuple[bool, str]:
        if isinstance(e, ast.Call) and isinstance(e.func, ast.Name) and e.func.id in ("list", "tuple") and len(e.args) == 1:
            return self.bytes_iterable(F, at, e.args[0], depth + 1)
        if isinstance(e, (ast.List, ast.Tuple)) and e.elts:
            for x in e.elts:
                ok, why = self.bytes_value(F, at, x, depth + 1)
                if not ok:
                    return False, why
            return True, "list of bytes"
        if isinstance(e, (ast.ListComp, ast.GeneratorExp)):
            return self.bytes_value(F, at, e.elt, depth + 1)
        return False, f"`{norm(e) if e is not None else None}` is not an encoded list"

    def bytes_iterable(self, F: Fn, at, e: ast.AST | None, depth: int = 0) -> tuple[bool, str]:
        if e is None or depth > 6:
            return False, "unknown iterable"
        if _self_call(e, "iter_encoded"):
            return True, "self.iter_encoded()"
        if is_self_attr(e, "response"):
            return self.response_encoded_at(F, at)
        if isinstance(e, ast.Call) and isinstance(e.func, ast.Name) and e.func.id in ("list", "tuple", "iter") and len(e.args) == 1:
            return self.bytes_iterable(F, at, e.args[0], depth + 1)
        if isinstance(e, (ast.List, ast.Tuple, ast.ListComp, ast.GeneratorExp)):
            return self.encoded_list(F, at, e, depth + 1)
        if isinstance(e, ast.Name):
            bs = bindings(F, at, e)
            if not bs:
                return False, f"`{e.id}` has no local binding"
            for b in bs:
                if not (b.kind == "value" and b.path == () and b.node is not None):
                    return False, f"`{e.id}` is bound to `{norm(b.expr) if b.expr is not None else b.kind}`"
                ok, why = self.bytes_iterable(F, b.node, b.expr, depth + 1)
                if not ok:
                    return False, f"`{e.id}` <- {why}"
            return True, f"`{e.id}` is an encoded iterable"
        return False, f"`{norm(e)}` is not the encoded body (iter_encoded(), or self.response right after it was replaced by its encoded copy)"

    def response_encoded_at(self, F: Fn, at) -> tuple[bool, str]:
        """self.response, read in node `at`, is the list of encoded items: a dominating `self.response = <encoded list>`
        with no other writer of self.response in between."""
        cfg = F.cfg
        assigns = [n for n in cfg.nodes if isinstance(n.ast, (ast.Assign, ast.AnnAssign)) and any(is_self_attr(x, "response") for x in (n.ast.targets if isinstance(n.ast, ast.Assign) else [n.ast.target]))]
        wcalls = []
        for c in astq.calls(F.fi.node, nested=False):
            if isinstance(c.func, ast.Attribute) and astq.is_name(c.func.value, "self") and c.func.attr in self.writers:
                n = cfg.node_of(c)
                if n is not None:
                    wcalls.append(n)
        for a in assigns:
            ok, why = self.encoded_list(F, a, a.ast.value)
            if not ok or not cfg.node_dominates(a, at) or a is at:
                continue
            others = [w for w in assigns + wcalls if w is not a]
            after = cfg.reach(cfg.succ(a, None))
            inter = [w for w in others if w.id in after and at.id in cfg.reach(w, avoid_nodes=[a]) and w is not at]
            if not inter:
                return True, f"self.response was bound to `{norm(a.ast.value)}` (L{a.lineno}) on every path here and not rebound since"
        return False, "`self.response` holds the raw items here (str items are counted in characters): no dominating `self.response = list(self.iter_encoded())` without a later rebinding"

    # -- lengths ------------------------------------------------------------
    def length(self, F: Fn, at, e: ast.AST | None, depth: int = 0) -> tuple[bool, str]:
        if e is None or depth > 6:
            return False, "unknown length"
        if isinstance(e, ast.Call) and isinstance(e.func, ast.Name) and e.func.id in ("str", "int") and len(e.args) == 1:
            return self.length(F, at, e.args[0], depth + 1)
        if isinstance(e, ast.Call) and isinstance(e.func, ast.Name) and e.func.id == "len" and len(e.args) == 1:
            ok, why = self.bytes_value(F, at, e.args[0], depth + 1)
            return ok, f"len of {why}"
        if isinstance(e, ast.Call) and isinstance(e.func, ast.Name) and e.func.id == "sum" and e.args:
            a = e.args[0]
            if isinstance(a, ast.Call) and isinstance(a.func, ast.Name) and a.func.id == "map" and len(a.args) == 2 and astq.is_name(a.args[0], "len"):
                ok, why = self.bytes_iterable(F, at, a.args[1], depth + 1)
                return ok, f"sum of len over {why}"
            if isinstance(a, (ast.GeneratorExp, ast.ListComp)) and len(a.generators) == 1 and isinstance(a.elt, ast.Call) and isinstance(a.elt.func, ast.Name) and a.elt.func.id == "len" and len(a.elt.args) == 1 and isinstance(a.generators[0].target, ast.Name) and astq.is_name(a.elt.args[0], a.generators[0].target.id):
                ok, why = self.bytes_iterable(F, at, a.generators[0].iter, depth + 1)
                return ok, f"sum of len over {why}"
            return False, f"`{norm(e)}`: not a sum of item lengths"
        if isinstance(e, ast.Call) and isinstance(e.func, ast.Attribute) and astq.is_name(e.func.value, "self"):
            callee = method(self.repo, self.resp, e.func.attr)
            self.ctx.saw(callee)
            Fc = fn_of(self.repo, callee)
            rets = astq.returns_of(callee.node)
            if not rets:
                return False, f"{callee.qualname} returns nothing"
            whys = []
            for r in rets:
                if r.value is None or astq.is_none(r.value):
                    continue
                ok, why = self.length(Fc, Fc.node(r), r.value, depth + 1)
                if not ok:
                    return False, f"{callee.qualname}: `{norm(r)}`: {why}"
                whys.append(why)
            return bool(whys), f"{callee.qualname}() -> " + "; ".join(whys)
        if isinstance(e, ast.BinOp) and isinstance(e.op, ast.Sub):
            return self.range_length(F, at, e)
        if isinstance(e, ast.Name):
            bs = bindings(F, at, e)
            if not bs:
                return False, f"`{e.id}` has no local binding"
            whys = set()
            for b in bs:
                if not (b.kind == "value" and b.path == () and b.node is not None):
                    return False, f"`{e.id}` is bound to `{norm(b.expr) if b.expr is not None else b.kind}` (not a computed length)"
                ok, why = self.length(F, b.node, b.expr, depth + 1)
                if not ok:
                    return False, f"`{e.id}` <- {why}"
                whys.add(why)
            return True, "; ".join(sorted(whys))
        return False, f"`{norm(e)}` is not a length measured over encoded bytes"

    def range_length(self, F: Fn, at, e: ast.BinOp) -> tuple[bool, str]:
        """`T[1] - T[0]` of the range tuple, with the same two numbers handed to the range wrapper."""
        l, r = e.left, e.right
        shape = (isinstance(l, ast.Subscript) and isinstance(r, ast.Subscript) and isinstance(l.value, ast.Name) and isinstance(r.value, ast.Name) and l.value.id == r.value.id
                 and isinstance(l.slice, ast.Constant) and l.slice.value == 1 and isinstance(r.slice, ast.Constant) and r.slice.value == 0)
        if not shape:
            return False, f"`{norm(e)}` is not stop - start of one range tuple"
        tname = l.value.id  # type: ignore[union-attr]
        tb = bindings(F, at, l.value)  # type: ignore[arg-type]
        src = all(b.kind == "value" and isinstance(b.expr, ast.Call) and isinstance(b.expr.func, ast.Attribute) and b.expr.func.attr == "range_for_length" for b in tb) and bool(tb)
        if not src:
            return False, f"`{tname}` is not the result of Range.range_for_length(..)"
        return True, f"RANGE:{tname}"


def _cl_store_sites(ctx: Ctx, resp: ClassInfo) -> list[tuple[FuncInfo, ast.AST, ast.AST]]:
    out = []
    seen = set()
    for k in ctx.repo.mro(resp):
        if not isinstance(k, ClassInfo):
            continue
        for name, fi in k.methods.items():
            if id(fi.node) in seen:
                continue
            seen.add(id(fi.node))
            for n, h, key, v in header_stores(fi.node, CL):
                out.append((fi, n, v))
            for n in walk_no_nested(fi.node):
                if isinstance(n, ast.Assign) and any(is_self_attr(x, "content_length") for x in n.targets):
                    out.append((fi, n, n.value))
    return out


def _r54(ctx: Ctx) -> None:
    repo = ctx.repo
    resp = _resp(ctx)
    L = _Len(ctx, resp)
    sites = _cl_store_sites(ctx, resp)
    ctx.floor("R5.4", "Content-Length stores in the Response classes", len(sites), 5)
    for fi, site, v in sites:
        F = fn_of(repo, fi)
        at = F.node(site)
        ok, why = L.length(F, at, v)
        extra = ""
        if ok and "RANGE:" in why:
            ok, extra = _range_feeds_wrapper(ctx, L, F, at, site, v, why.split("RANGE:", 1)[1].split(";")[0])
            why = "stop - start of the tuple returned by range_for_length"
        ctx.ob("R5.4", f"{fi.qualname}: `{norm(site)[:80]}` stores a length measured over bytes", ok, why + extra, fi, site, f"content-length {norm(site)}")
    # set_data: the measured value is the body
    sd = method(repo, resp, "set_data")
    Fs = fn_of(repo, sd)
    for fi, site, v in sites:
        if fi is not sd:
            continue
        lens = [c for c in astq.calls(v) if isinstance(c.func, ast.Name) and c.func.id == "len" and len(c.args) == 1 and isinstance(c.args[0], ast.Name)]
        bodies = [n for n in Fs.cfg.nodes if isinstance(n.ast, ast.Assign) and any(is_self_attr(x, "response") for x in n.ast.targets)]
        ok = len(lens) == 1 and len(bodies) == 1
        fact = f"{len(lens)} len() call(s), {len(bodies)} body assignment(s)"
        if ok:
            b = bodies[0]
            nm = lens[0].args[0].id  # type: ignore[attr-defined]
            one = isinstance(b.ast.value, (ast.List, ast.Tuple)) and len(b.ast.value.elts) == 1 and astq.is_name(b.ast.value.elts[0], nm)
            same = same_binding(Fs, b, Fs.node(site), nm)
            ok = one and same
            fact = f"body `{norm(b.ast)}` is the one-item list of `{nm}`: {one}; `{nm}` denotes the same bytes where it is measured: {same}"
        ctx.ob("R5.4", "set_data: the measured bytes are the stored body", ok, fact, sd, site, "set_data measures the body")
    # the encoder and the stream handed to the server
    ie = method(repo, resp, "iter_encoded")
    Fi = fn_of(repo, ie)
    rets = astq.returns_of(ie.node)
    enc_fi = None
    ok = bool(rets)
    for r in rets:
        c = r.value
        fq = Fi.call_fq(c) if isinstance(c, ast.Call) else None
        f2 = repo.try_func(fq) if fq and fq.startswith("werkzeug.") else None
        if f2 is None or not (isinstance(c, ast.Call) and len(c.args) == 1 and is_self_attr(c.args[0], "response")):
            ok = False
        else:
            enc_fi = f2
    ctx.ob("R5.4", "iter_encoded encodes self.response", ok, f"returns {[norm(r.value) for r in rets if r.value is not None]}", ie, ie.node, "iter_encoded source")
    if enc_fi is not None:
        ctx.saw(enc_fi)
        Fe = fn_of(repo, enc_fi)
        ys = [n for n in walk_no_nested(enc_fi.node) if isinstance(n, ast.Yield)]
        ctx.floor("R5.4", "yields of the encoder", len(ys), 1)
        for y in ys:
            okv, why = L.bytes_value(Fe, Fe.node(y), y.value)
            g = _gtext(Fe, Fe.node(y))
            ctx.ob("R5.4", f"{enc_fi.qualname}: `{norm(y)}` yields bytes", okv, f"{why}; under {g}", enc_fi, y, f"encoder yield {norm(y)} under {g}")
    gai = method(repo, resp, "get_app_iter")
    Fg = fn_of(repo, gai)
    n_body = 0
    for r in astq.returns_of(gai.node):
        ca = _closing_iterator_arg(Fg, r.value)
        if ca is None or ca[0] is None:
            continue
        x = ca[0]
        exprs = [b.expr for b in bindings(Fg, Fg.node(r), x)] if isinstance(x, ast.Name) else [x]
        for ex in exprs:
            if ex is None or is_empty_literal(ex):
                continue
            n_body += 1
            ctx.ob("R5.4", "the body handed to the server is the measured encoded stream", _self_call(ex, "iter_encoded"), f"wrapped iterable `{norm(ex)}`", gai, r, f"served body {norm(ex)}")
    ctx.floor("R5.4", "non-empty bodies wrapped by get_app_iter", n_body, 1)


def _range_feeds_wrapper(ctx: Ctx, L: _Len, F: Fn, at, site: ast.AST, v: ast.AST, tname: str) -> tuple[bool, str]:
    """the announced range length and the range start are what the body wrapper is built with, on every path after the store."""
    repo = ctx.repo
    cfg = F.cfg
    lname = None
    for x in ast.walk(v):
        if isinstance(x, ast.Name) and x.id not in ("str", "int"):
            lname = x
    wraps = []
    for c in astq.calls(F.fi.node, nested=False):
        if isinstance(c.func, ast.Attribute) and astq.is_name(c.func.value, "self") and len(c.args) == 2:
            a0, a1 = c.args
            if isinstance(a0, ast.Subscript) and astq.is_name(a0.value, tname) and isinstance(a0.slice, ast.Constant) and a0.slice.value == 0:
                wraps.append(c)
    if len(wraps) != 1:
        return False, f"; {len(wraps)} call(s) passing `{tname}[0]` and a length to a wrapper method"
    w = wraps[0]
    wn = F.node(w)
    a1 = w.args[1]
    if lname is not None and isinstance(a1, ast.Name):
        same_len = a1.id == lname.id and same_binding(F, at, wn, a1.id)
    else:
        same_len = norm(a1) == norm(v.args[0]) if isinstance(v, ast.Call) and v.args else False
    same_t = same_binding(F, at, wn, tname)
    always = cfg.exit.id not in cfg.reach(at, avoid_nodes=[wn]) or cfg.node_dominates(wn, at)
    callee = method(repo, L.resp, w.func.attr)  # type: ignore[union-attr]
    ctx.saw(callee)
    Fw = fn_of(repo, callee)
    ps = callee.params
    built = [n for n in Fw.cfg.nodes if isinstance(n.ast, ast.Assign) and any(is_self_attr(x, "response") for x in n.ast.targets)]
    fwd = False
    guard_ok = True
    gfact = ""
    if len(built) == 1 and isinstance(built[0].ast.value, ast.Call) and len(ps) >= 3:
        bc = built[0].ast.value
        fwd = (Fw.call_fq(bc) or "").endswith("_RangeWrapper") and len(bc.args) == 3 and is_self_attr(bc.args[0], "response") and astq.is_name(bc.args[1], ps[1]) and astq.is_name(bc.args[2], ps[2])
        # a status test around the wrapping must have been satisfied by the caller before the call
        for t, lab in Fw.cfg.guards(built[0]):
            cp = astq.cmp_parts(t.ast)
            if cp and isinstance(cp[1], ast.Eq) and lab == "T" and is_self_attr(cp[0], "status_code") and isinstance(cp[2], ast.Constant):
                sets = [n for n in cfg.nodes if isinstance(n.ast, ast.Assign) and any(is_self_attr(x, "status_code") for x in n.ast.targets) and isinstance(n.ast.value, ast.Constant) and n.ast.value.value == cp[2].value]
                g = any(cfg.node_dominates(n, wn) and not any(o is not n and isinstance(o.ast, ast.Assign) and any(is_self_attr(x, "status_code") or is_self_attr(x, "status") for x in o.ast.targets) and o.id in cfg.reach(n) and wn.id in cfg.reach(o) for o in cfg.nodes) for n in sets)
                guard_ok = guard_ok and g
                gfact = f"; wrapper applies only when `{norm(t.ast)}`, established before the call: {g}"
            else:
                guard_ok = False
                gfact = f"; wrapping is conditional on `{norm(t.ast)}`:{lab}"
    ok = same_len and same_t and always and fwd and guard_ok
    return ok, f"; `{norm(w)}` gets the same start and length: {same_len and same_t}, on every path after the store: {always}; {callee.qualname} builds _RangeWrapper(self.response, start, length) from them: {fwd}{gfact}"



def _gtext(F: Fn, node) -> list[str]:
    """dominating branch edges of a node, as stable text."""
    return sorted(f"{t.text() if t.kind == 'loop' else norm(t.ast)}:{l}" for t, l in F.cfg.guards(node))


# =====================================================================
# R5.5: Location is a URI

IRI_TO_URI = "werkzeug.urls.iri_to_uri"
URLJOIN = "urllib.parse.urljoin"


def _uri_ok(F: Fn, at, e: ast.AST | None, depth: int = 0) -> tuple[bool, str]:
    if e is None or depth > 6:
        return False, "unknown value"
    if isinstance(e, ast.Call):
        fq = F.call_fq(e)
        if fq == IRI_TO_URI:
            return True, "iri_to_uri(..)"
        if fq == URLJOIN and len(e.args) == 2:
            a = _uri_ok(F, at, e.args[0], depth + 1)
            b = _uri_ok(F, at, e.args[1], depth + 1)
            return a[0] and b[0], f"urljoin({a[1]}, {b[1]})"
        return False, f"`{norm(e)[:50]}` is neither iri_to_uri nor urljoin of URIs"
    if isinstance(e, ast.Name):
        bs = bindings(F, at, e)
        if not bs:
            return False, f"`{e.id}` has no local binding"
        whys = set()
        for b in bs:
            if not (b.kind == "value" and b.path == () and b.node is not None):
                return False, f"`{e.id}` can be `{norm(b.expr) if b.expr is not None else b.kind}` here (the raw header value: bound by `{'for' if b.kind == 'iter' else b.kind}`)"
            ok, why = _uri_ok(F, b.node, b.expr, depth + 1)
            if not ok:
                return False, f"`{e.id}` <- {why}"
            whys.add(why)
        return True, " | ".join(sorted(whys))
    return False, f"`{norm(e)[:50]}` is not converted with iri_to_uri"


def _r55(ctx: Ctx) -> None:
    repo = ctx.repo
    resp = _resp(ctx)
    gwh = method(repo, resp, "get_wsgi_headers")
    F = fn_of(repo, gwh)
    hnames = {r.value.id for r in astq.returns_of(gwh.node) if isinstance(r.value, ast.Name)}
    keys = {"location", "content-location"}
    sites = [(n, h, k, v) for n, h, k, v in header_stores(gwh.node, keys) if isinstance(h, ast.Name) and h.id in hnames]
    ctx.floor("R5.5", "Location / Content-Location stores in get_wsgi_headers", len({k for _, _, k, _ in sites}), 2)
    for n, h, k, v in sites:
        at = F.node(n)
        ok, why = _uri_ok(F, at, v)
        ctx.ob("R5.5", f"`{norm(n)}` stores a URI", ok, f"value provenance: {why}", gwh, n, f"uri stored {norm(n)}")
        cond = []
        for t, lab in F.cfg.guards(at):
            if t.kind != "test":
                continue  # the false edge of a loop that precedes the store
            nt = none_test(t.ast)
            if nt is None or nt[1] != lab or not isinstance(nt[0], ast.Name):
                cond.append(f"{t.text() if t.kind == 'loop' else norm(t.ast)}:{lab}")
        ctx.ob("R5.5", f"`{norm(n)}` happens whenever the header is present", not cond, f"conditions other than presence of the header value: {cond}" if cond else f"guards: {_gtext(F, at)}", gwh, n, f"uri store unconditional {k}")


# =====================================================================
# R5.6: close chaining


def _loop_runs_all(F: Fn, over) -> tuple[bool, str, ast.AST | None]:
    """a `for f in <over>: f()` loop that every normal path passes and that has no early exit."""
    loops = [n for n in F.cfg.nodes if n.kind == "loop" and isinstance(n.ast, ast.For) and over(n.ast.iter)]
    if len(loops) != 1:
        return False, f"{len(loops)} loop(s) over the callbacks", None
    lp = loops[0]
    tgt = lp.ast.target
    calls_it = isinstance(tgt, ast.Name) and any(isinstance(c.func, ast.Name) and c.func.id == tgt.id for s in lp.ast.body for c in astq.calls(s, nested=False))
    early = [norm(x) for s in lp.ast.body for x in [s, *walk_no_nested(s)] if isinstance(x, (ast.Break, ast.Return, ast.Raise))]
    skipped = [norm(x) for s in lp.ast.body for x in [s, *walk_no_nested(s)] if isinstance(x, ast.Continue)]
    # the call happens in every iteration: from the loop head's body edge, the head is not reached again without passing a call
    call_nodes = [F.cfg.node_of(c) for s in lp.ast.body for c in astq.calls(s, nested=False) if isinstance(c.func, ast.Name) and isinstance(tgt, ast.Name) and c.func.id == tgt.id]
    cns = [n for n in call_nodes if n is not None]
    starts = [n for n in F.cfg.succ(lp, "T") if not any(n is c for c in cns)]
    every_iter = bool(cns) and (not starts or lp.id not in F.cfg.reach(starts, avoid_nodes=cns))
    always = F.cfg.exit.id not in F.cfg.reach(avoid_nodes=[lp])
    ok = calls_it and not early and every_iter and always
    return ok, f"loop `{lp.text()}` calls each entry: {calls_it and every_iter}; early exits in the loop: {early + skipped}; on every normal path: {always}", lp.ast


def _r56(ctx: Ctx) -> None:
    repo = ctx.repo
    resp = _resp(ctx)
    gai = method(repo, resp, "get_app_iter")
    F = fn_of(repo, gai)
    rets = astq.returns_of(gai.node)
    ctx.floor("R5.6", "returns of get_app_iter", len(rets), 2)
    for r in rets:
        rn = F.node(r)
        ca = _closing_iterator_arg(F, r.value)
        if ca is not None:
            cb = ca[1]
            elts = cb.elts if isinstance(cb, (ast.List, ast.Tuple)) else [cb] if cb is not None else []
            ok = any(is_self_attr(x, "close") for x in elts)
            ctx.ob("R5.6", f"get_app_iter: `{norm(r)}` chains Response.close", ok, f"callbacks argument `{norm(cb) if cb is not None else None}` contains self.close: {ok}", gai, r, f"closing iterator callbacks {norm(cb) if cb is not None else None}")
            continue
        g = _gtext(F, rn)
        pt = any(x in ("self.direct_passthrough:T",) for x in g)
        what = norm(r.value) if r.value is not None else "None"
        cons = f"raw return {what} under direct_passthrough" if pt and is_self_attr(r.value, "response") else f"raw return {what} under {g}"
        ctx.ob("R5.6", f"get_app_iter: `{norm(r)}` chains Response.close", False,
               f"the server gets `{what}` itself{' (direct_passthrough)' if pt else ''}: closing it never reaches Response.close, so callbacks registered with call_on_close do not run (guards {g})", gai, r, cons)

    ci = repo.cls("wsgi.ClosingIterator")
    close = method(repo, ci, "close")
    init = method(repo, ci, "__init__")
    Fc = fn_of(repo, close)
    ok, fact, node = _loop_runs_all(Fc, lambda e: is_self_attr(e, "_callbacks"))
    ctx.ob("R5.6", "ClosingIterator.close runs every callback", ok, fact, close, node or close.node, "closing iterator close loop")
    Fi = fn_of(repo, init)
    ps = init.params
    if len(ps) < 3:
        raise AnalysisError("ClosingIterator.__init__: (self, iterable, callbacks) parameters not found (slot)")
    p_it, p_cb = ps[1], ps[2]
    stores = [n for n in Fi.cfg.nodes if isinstance(n.ast, (ast.Assign, ast.AnnAssign)) and any(is_self_attr(x, "_callbacks") for x in (n.ast.targets if isinstance(n.ast, ast.Assign) else [n.ast.target]))]
    if len(stores) != 1 or not isinstance(stores[0].ast.value, ast.Name):
        raise AnalysisError("ClosingIterator.__init__: single `self._callbacks = <local>` store not found (slot)")
    st = stores[0]
    lst = st.ast.value.id
    dropped = []
    for d in Fi.rd.reaching(st, lst):
        if d.kind == "param" and d.name == p_cb:
            continue
        mentions = d.value is not None and any(isinstance(x, ast.Name) and x.id == p_cb for x in ast.walk(d.value))
        absent = False
        if d.node is not None:
            for t, lab in Fi.cfg.guards(d.node):
                nt = none_test(t.ast) if t.kind == "test" else None
                if nt and astq.is_name(nt[0], p_cb) and nt[1] != lab:
                    absent = True
        if not (mentions or absent):
            dropped.append(norm(d.value) if d.value is not None else d.kind)
    ctx.ob("R5.6", "ClosingIterator.__init__ keeps the callbacks it is given", not dropped, f"bindings of `{lst}` stored into self._callbacks that neither contain `{p_cb}` nor sit under `{p_cb} is None`: {dropped}", init, st.ast, "closing iterator keeps callbacks")
    adds = []
    for c in astq.calls(init.node, nested=False):
        f = c.func
        if isinstance(f, ast.Attribute) and astq.is_name(f.value, lst) and f.attr in ("insert", "append") and c.args and isinstance(c.args[-1], ast.Name):
            cn = Fi.node(c)
            bs = bindings(Fi, cn, c.args[-1])
            own = bool(bs) and all(b.kind == "value" and isinstance(b.expr, ast.Call) and isinstance(b.expr.func, ast.Name) and b.expr.func.id == "getattr" and len(b.expr.args) >= 2 and astq.is_name(b.expr.args[0], p_it) and astq.const_str(b.expr.args[1]) == "close" for b in bs)
            if own:
                adds.append((c, cn))
    ok = len(adds) == 1
    fact = f"{len(adds)} insertion(s) of getattr({p_it}, 'close', ..) into `{lst}`"
    if ok:
        c, cn = adds[0]
        cname = c.args[-1].id
        absent_edges = []
        extra = []
        for t, lab in Fi.cfg.guards(cn):
            nt = none_test(t.ast) if t.kind == "test" else None
            if nt and astq.is_name(nt[0], cname) and nt[1] == lab:
                absent_edges.append((t, "F" if lab == "T" else "T"))
            else:
                extra.append(f"{norm(t.ast)}:{lab}")
        skipping = st.id in Fi.cfg.reach(avoid_nodes=[cn], avoid_edges=absent_edges)
        same = Fi.rd.reaching(cn, lst) <= Fi.rd.reaching(st, lst)
        ok = not extra and not skipping and same
        fact = f"`{norm(c)}`: conditions other than the close attribute existing: {extra}; the store of self._callbacks is reachable without it although the iterable has a close: {skipping}; it is the stored list: {same}"
    ctx.ob("R5.6", "ClosingIterator.__init__ adds the wrapped iterable's own close", ok, fact, init, adds[0][0] if adds else init.node, "closing iterator own close")

    rc = method(repo, resp, "close")
    Fr = fn_of(repo, rc)
    ok, fact, node = _loop_runs_all(Fr, lambda e: is_self_attr(e, "_on_close"))
    ctx.ob("R5.6", "Response.close runs every registered callback", ok, fact, rc, node or rc.node, "response close loop")
    bc = [c for c in astq.calls(rc.node, nested=False) if isinstance(c.func, ast.Attribute) and c.func.attr == "close" and is_self_attr(c.func.value, "response") and not c.args]
    ok = len(bc) == 1
    fact = f"{len(bc)} call(s) of self.response.close()"
    if ok:
        cn = Fr.node(bc[0])
        has_edges, extra = [], []
        for t, lab in Fr.cfg.guards(cn):
            e = t.ast
            is_has = isinstance(e, ast.Call) and isinstance(e.func, ast.Name) and e.func.id == "hasattr" and len(e.args) == 2 and is_self_attr(e.args[0], "response") and astq.const_str(e.args[1]) == "close"
            if is_has and lab == "T":
                has_edges.append((t, "F"))
            else:
                extra.append(f"{norm(e)}:{lab}")
        skipping = Fr.cfg.exit.id in Fr.cfg.reach(avoid_nodes=[cn], avoid_edges=has_edges)
        ok = not extra and not skipping
        fact = f"`self.response.close()` conditions other than hasattr(self.response, 'close'): {extra}; a normal path skips it although the body has a close: {skipping}"
    ctx.ob("R5.6", "Response.close closes the body iterable", ok, fact, rc, bc[0] if bc else rc.node, "response close closes body")
    coc = method(repo, resp, "call_on_close")
    ok = any(isinstance(c.func, ast.Attribute) and c.func.attr == "append" and is_self_attr(c.func.value, "_on_close") and len(c.args) == 1 and len(coc.params) > 1 and astq.is_name(c.args[0], coc.params[1]) for c in astq.calls(coc.node, nested=False))
    always = False
    if ok:
        Fo = fn_of(repo, coc)
        an = [Fo.node(c) for c in astq.calls(coc.node, nested=False) if isinstance(c.func, ast.Attribute) and c.func.attr == "append" and is_self_attr(c.func.value, "_on_close")]
        always = Fo.cfg.exit.id not in Fo.cfg.reach(avoid_nodes=an)
    ctx.ob("R5.6", "call_on_close registers the function in self._on_close", ok and always, f"appends its argument to self._on_close: {ok}; on every path: {always}", coc, coc.node, "call_on_close registers")

    ms = method(repo, resp, "make_sequence")
    Fm = fn_of(repo, ms)
    repl = [n for n in Fm.cfg.nodes if isinstance(n.ast, ast.Assign) and any(is_self_attr(x, "response") for x in n.ast.targets)]
    ctx.floor("R5.6", "replacements of self.response in make_sequence", len(repl), 1)
    for rp in repl:
        caps = [n for n in Fm.cfg.nodes if isinstance(n.ast, ast.Assign) and len(n.ast.targets) == 1 and isinstance(n.ast.targets[0], ast.Name) and isinstance(n.ast.value, ast.Call) and isinstance(n.ast.value.func, ast.Name) and n.ast.value.func.id == "getattr"
                and len(n.ast.value.args) >= 2 and is_self_attr(n.ast.value.args[0], "response") and astq.const_str(n.ast.value.args[1]) == "close" and n is not rp and Fm.cfg.node_dominates(n, rp)]
        ok = bool(caps)
        fact = "the old iterable's close is not captured before the replacement"
        if ok:
            cap = caps[-1]
            cname = cap.ast.targets[0].id
            regs = []
            for c in astq.calls(ms.node, nested=False):
                f = c.func
                is_reg = (isinstance(f, ast.Attribute) and f.attr == "call_on_close" and astq.is_name(f.value, "self")) or (isinstance(f, ast.Attribute) and f.attr == "append" and is_self_attr(f.value, "_on_close"))
                if is_reg and len(c.args) == 1 and astq.is_name(c.args[0], cname):
                    cn = Fm.node(c)
                    if {d.node for d in Fm.rd.reaching(cn, cname)} == {cap}:
                        regs.append(cn)
            absent = []
            for t in Fm.cfg.tests():
                nt = none_test(t.ast) if t.kind == "test" else None
                if nt and astq.is_name(nt[0], cname):
                    absent.append((t, "F" if nt[1] == "T" else "T"))
            lost = Fm.cfg.exit.id in Fm.cfg.reach(rp, avoid_nodes=regs, avoid_edges=absent)
            ok = bool(regs) and not lost
            fact = f"`{norm(cap.ast)}` before the replacement; registered with call_on_close afterwards: {bool(regs)}; a path from the replacement to the exit loses an existing close: {lost}"
        ctx.ob("R5.6", f"make_sequence: `{norm(rp.ast)}` keeps the consumed iterable's close", ok, fact, ms, rp.ast, f"make_sequence keeps close {norm(rp.ast)}")



# =====================================================================
# R5.7: status normalisation

STR_METHODS = {"strip", "lstrip", "rstrip", "upper", "lower", "title", "capitalize", "format", "join", "replace", "removeprefix", "removesuffix", "decode"}
INT_CLASSES = {"int", "HTTPStatus", "IntEnum"}


def _typed(F: Fn, at, e: ast.AST | None, want: str, depth: int = 0) -> tuple[bool, str]:
    """e is a `want` ('str' or 'int') on every path, judged by construction."""
    if e is None or depth > 6:
        return False, "unknown value"
    if isinstance(e, ast.Constant):
        ok = (isinstance(e.value, str) if want == "str" else isinstance(e.value, int) and not isinstance(e.value, bool))
        return ok, f"constant {e.value!r}"
    if want == "str" and isinstance(e, ast.JoinedStr):
        return True, "f-string"
    if isinstance(e, ast.Call) and isinstance(e.func, ast.Name) and e.func.id == want and e.args:
        return True, f"{want}(..)"
    if want == "str" and isinstance(e, ast.Call) and isinstance(e.func, ast.Attribute) and e.func.attr in STR_METHODS:
        return True, f".{e.func.attr}() result"
    if want == "str" and isinstance(e, ast.BinOp) and isinstance(e.op, (ast.Add, ast.Mod)):
        a = _typed(F, at, e.left, "str", depth + 1)
        return a[0], f"str expression ({a[1]})"
    if isinstance(e, ast.Name):
        bs = bindings(F, at, e)
        if not bs:
            return False, f"`{e.id}` has no local binding"
        whys = set()
        for b in bs:
            if b.kind == "value" and b.path == () and b.node is not None:
                ok, why = _typed(F, b.node, b.expr, want, depth + 1)
                if not ok:
                    return False, f"`{e.id}` <- {why}"
                whys.add(why)
            elif b.kind == "param" and want == "str":
                # the parameter itself: a str once the int-like classes are excluded
                safe = []
                for t in F.cfg.tests():
                    ia = isinstance_atom(t.ast) if t.kind == "test" else None
                    if ia and astq.is_name(ia[0], e.id):
                        if "int" in ia[1] and ia[1] <= INT_CLASSES:
                            safe.append((t, "F"))
                        elif ia[1] == {"str"}:
                            safe.append((t, "T"))
                rebinds = [d.node for d in F.rd.reaching(at, e.id) if d.node is not None]
                if at.id in F.cfg.reach(avoid_nodes=rebinds, avoid_edges=safe):
                    return False, f"the raw parameter `{e.id}` reaches this point without an isinstance test that excludes int"
                whys.add("parameter, not an int")
            else:
                return False, f"`{e.id}` is bound to `{norm(b.expr) if b.expr is not None else b.kind}` (position {b.path})"
        return True, " | ".join(sorted(whys))
    return False, f"`{norm(e)[:50]}` is not a {want} by construction"


def _r57(ctx: Ctx) -> None:
    repo = ctx.repo
    resp = _resp(ctx)
    cs = method(repo, resp, "_clean_status")
    F = fn_of(repo, cs)
    rets = astq.returns_of(cs.node)
    ctx.floor("R5.7", "returns of _clean_status", len(rets), 3)
    for r in rets:
        rn = F.node(r)
        v = r.value
        if not (isinstance(v, ast.Tuple) and len(v.elts) == 2):
            ctx.ob("R5.7", f"_clean_status: `{norm(r)}` is a (str, int) pair", False, "not a 2-tuple", cs, r, f"status return {norm(r)}")
            continue
        a = _typed(F, rn, v.elts[0], "str")
        b = _typed(F, rn, v.elts[1], "int")
        ctx.ob("R5.7", f"_clean_status: `{norm(r)}` is a (str, int) pair", a[0] and b[0], f"status line: {a[1]}; code: {b[1]}", cs, r, f"status return {norm(r)}")
    if cs.params[1:]:
        p = cs.params[1]
        its = [(t, isinstance_atom(t.ast)) for t in F.cfg.tests() if t.kind == "test" and isinstance_atom(t.ast) and astq.is_name(isinstance_atom(t.ast)[0], p)]
        its = [(t, ia) for t, ia in its if ia and "int" in ia[1]]
        ok = len(its) == 1
        fact = f"{len(its)} isinstance test(s) of `{p}` against int"
        if ok:
            t = its[0][0]
            # under the int-like edge no return hands back the argument unconverted, and no string method is applied to it
            bad = []
            for n in F.cfg.nodes:
                if n.ast is None or not F.cfg.edge_dominates(t, "T", n) or n is t:
                    continue
                for x in [n.ast, *walk_no_nested(n.ast)]:
                    if isinstance(x, ast.Attribute) and astq.is_name(x.value, p):
                        bad.append(norm(x))
            ok = not bad
            fact = f"`{norm(t.ast)}`: int and HTTPStatus (an IntEnum) take the true edge; str-only operations on `{p}` under it: {bad}"
        ctx.ob("R5.7", "_clean_status sends int-like statuses through the integer branch", ok, fact, cs, its[0][0].ast if its else cs.node, "int-like branch")
    # the stored status comes only from _clean_status
    n_st = 0
    seen = set()
    for k in repo.mro(resp):
        if not isinstance(k, ClassInfo):
            continue
        for name, fi in k.methods.items():
            if id(fi.node) in seen:
                continue
            seen.add(id(fi.node))
            for n in walk_no_nested(fi.node):
                if not isinstance(n, (ast.Assign, ast.AnnAssign, ast.AugAssign)):
                    continue
                tgts = n.targets if isinstance(n, ast.Assign) else [n.target]
                flat = [(x, None) for x in tgts]
                for tg in tgts:
                    if isinstance(tg, (ast.Tuple, ast.List)):
                        flat += [(x, i) for i, x in enumerate(tg.elts)]
                for x, idx in flat:
                    for attr, want in (("_status", 0), ("_status_code", 1)):
                        if is_self_attr(x, attr):
                            n_st += 1
                            val = getattr(n, "value", None)
                            ok = idx == want and _self_call(val, "_clean_status")
                            ctx.ob("R5.7", f"{fi.qualname}: self.{attr} is element {want} of _clean_status(..)", ok, f"`{norm(n)}`", fi, n, f"status store {attr} in {fi.qualname}: {norm(n)}")
    ctx.floor("R5.7", "stores of _status / _status_code", n_st, 2)
    sg = method(repo, resp, "status")
    rets = astq.returns_of(sg.node)
    ctx.ob("R5.7", "Response.status is the stored status line", bool(rets) and all(is_self_attr(r.value, "_status") for r in rets), f"returns {[norm(r.value) for r in rets if r.value is not None]}", sg, sg.node, "status getter")
