"""C05 - responses are well-formed WSGI output (structural clauses)."""

from __future__ import annotations

import ast
import typing as t

from .. import astq
from ..fold import Folder, RegexConst, Unfoldable, single_class
from ..loader import AnalysisError, ClassInfo, FuncInfo, dotted, is_self_attr, norm, walk_no_nested
from ..report import Ctx
from ..guards import Aliases, has as guard_has
from ..dataflow import bound_in_enclosing_comp
from ._c05_helpers import (
    Fn,
    GuardEval,
    Sigma,
    bindings,
    const_key,
    enclosing_function,
    fn_of,
    header_removals,
    header_stores,
    iteration_facts,
    fmt_key,
    is_empty_literal,
    isinstance_atom,
    call_args,
    callee_of,
    desugar_match,
    method,
    none_test,
    same_binding,
)

LEVEL_TEXT = (
    "Static decision of structural clauses of C05 on /repo's current source: (R5.1) every store into the header list "
    "(`_list`, anywhere in the package) stores pairs whose value is the result of _str_header_value or was bound by "
    "iterating the list itself; inside _str_header_value every return is dominated by the not-found edge of a `search` "
    "with a class containing CR and LF on the very binding that is returned, the found edge cannot complete normally, "
    "and the returned binding is a str; (R5.2) the WSGI header list is Headers.to_wsgi_list() of the object returned by "
    "get_wsgi_headers, which is a Headers copy of self.headers touched only through the Headers interface; (R5.3) for "
    "every status 100..599 and method GET/HEAD/POST the branch structure of get_app_iter yields an empty body exactly for "
    "HEAD/1xx/204/304, and get_wsgi_headers removes Content-Length on every path for 1xx/204 and computes none for "
    "1xx/204/304; (R5.4) every Content-Length the Response classes store is a length measured over encoded bytes "
    "(iter_encoded(), an .encode() result, bytes-typed data, or the range difference that also feeds the range wrapper), "
    "and the body handed to the server is that same encoded stream; (R5.5) Location/Content-Location stored by "
    "get_wsgi_headers come from iri_to_uri (or urljoin of such) under no other condition than presence; (R5.6) every "
    "return of get_app_iter chains Response.close through ClosingIterator, which runs every callback and the wrapped "
    "iterable's own close; Response.close closes the body and runs every registered callback; make_sequence moves the "
    "consumed iterable's close into the callbacks; the wrapped iterable's close is reached at most once per path: for every "
    "ClosingIterator that get_app_iter returns, the closes it carries (self.close / the body's close among its callbacks, "
    "plus the own close ClosingIterator adds when the wrapped iterable is self.response itself) and the closes get_app_iter "
    "has already called on a path to that return (self.response.close() directly, through getattr or a local, self.close(), "
    "or a package helper that reaches one of these - followed through the call graph; a replaced self.response starts "
    "afresh) add up to at most one, and Response.close itself passes at most one such call per path; (R5.7) _clean_status returns (str, int) on every path and is the only "
    "source of the stored status; (R5.8) in the methods of Headers, of the Response classes and of ClosingIterator (and in the functions of their "
    "modules that they call) no `for` loop, comprehension or explicit-iterator `while ... next(it)` loop removes entries from - or inserts "
    "entries before the end of - the very container it is walking in place and then goes on to another iteration (remove / pop / popitem / "
    "clear / insert / discard, `del c[i]`, `del c[a:b]`, `c[a:b] = ...`, directly or through up to two levels of package helpers; the container "
    "named by an attribute path or a parameter, through local aliases, iter / enumerate / zip / filter / map / itertools views, generator "
    "expressions, package generator methods, or the object's own __iter__): otherwise the entry that slides into the freed position is "
    "skipped, i.e. a close callback does not run or a header entry survives its removal. Loops over a copy (list(x), tuple(x), x[:], "
    "x.copy()), loops over an index range, and a removal after which the loop is left are not touched by R5.8. It decides these clauses on all paths of the named functions, comparing structure by role "
    "rather than by spelling: branch conditions are evaluated over every status x method (so flipped, split, merged or "
    "hoisted conditions, conditional expressions, module-level constants and HTTPStatus members read the same), locals "
    "are followed through their reaching definitions, and one level of private helpers is followed (helpers that "
    "return the value, helpers that decide the condition, helpers that perform the store; a private helper's parameter "
    "is judged by what every caller passes; a straight-line private method or local function whose only return is the "
    "ClosingIterator call is read in the caller's terms; the buffering of make_sequence may live in one private method "
    "that it calls; a local with several definitions is evaluated from those the status x method valuation lets reach "
    "the use). A helper that returns the body together with a flag as a tuple is not followed (ANALYSIS-ERROR). It does not decide that "
    "iri_to_uri emits only ASCII, that _RangeWrapper yields exactly the announced number of bytes, nor exception paths "
    "inside close callbacks, nor that a user does not register the same callback (or the body's close) twice with call_on_close; "
    "nor (R5.8) index arithmetic of loops that delete while counting (`while i < len(xs)`, `for i in range(len(xs))`, deleting collected "
    "indexes in ascending order), additions at the end of a walked list (append / extend: the worklist idiom), or containers reached through "
    "names the analysis cannot resolve (closure variables, results of calls); nor that the Headers removal primitives select the right entries."
)
TRUSTED = [
    "CPython ast and re._parser",
    "str(x) returns a str; x.encode() returns bytes; len() of bytes counts bytes",
    "urllib.parse.urljoin of two ASCII strings is ASCII",
    "declared parameter types: a `bytes | str` value that is not a str is bytes",
]
ASSUMPTIONS = [
    "header values reach the list only through code of the package (no outside writes to the private `_list`)",
    "subclasses do not override the named methods",
    "close callbacks do not raise",
]

STORE_METHODS = {"append", "insert", "extend", "__iadd__", "__setitem__"}
NONSTORE_METHODS = {"pop", "clear", "remove", "sort", "reverse", "copy", "index", "count", "__delitem__", "__len__", "__iter__", "__contains__", "__getitem__", "__reversed__"}
READER_WRAPPERS = {"iter", "list", "tuple", "reversed", "sorted"}
SANITISER = "werkzeug.datastructures.headers._str_header_value"


_CTX: list[Ctx] = []


def _saw(*fis: FuncInfo) -> None:
    """helpers the evaluators follow count as analysed functions."""
    if _CTX:
        _CTX[-1].saw(*fis)


def run(ctx: Ctx) -> None:
    _CTX[:] = [ctx]
    n_match = desugar_match(ctx.repo)
    if n_match:
        ctx.note(f"{n_match} `match` statement(s) read as the if/elif chain they mean (the CFG builder does not take `match`)")
    _LIST_ATTR[0] = _storage_attr(ctx)
    _SAN[0] = _find_sanitiser(ctx)
    for rid, text in {
        "R5.1": "every store into Headers._list stores pairs whose value is _str_header_value(...) or came from the list itself; in _str_header_value every return is dominated by the CR/LF search on the returned binding, whose found edge raises, and the returned binding is a str",
        "R5.2": "get_wsgi_response returns to_wsgi_list() of get_wsgi_headers(environ), which is a Headers copy of self.headers modified only through the Headers interface; to_wsgi_list lists the storage",
        "R5.3": "for every status 100..599 x GET/HEAD/POST: body empty <=> HEAD or 1xx or 204 or 304; Content-Length removed on every path for 1xx/204; no Content-Length computed for 1xx/204/304",
        "R5.4": "every Content-Length stored by the Response classes is a length measured over encoded bytes, and the body handed to the server is the measured encoded stream",
        "R5.5": "Location / Content-Location stored by get_wsgi_headers have provenance iri_to_uri (or urljoin of such) and are stored whenever the header is present",
        "R5.6": "every return of get_app_iter is ClosingIterator(<iterable>, self.close); ClosingIterator runs every callback and the iterable's own close; Response.close closes the body and runs every _on_close entry; make_sequence keeps the consumed iterable's close; on no path is the wrapped iterable's close reached twice (called directly by get_app_iter while the returned iterator also carries self.close, carried twice, or called twice by Response.close)",
        "R5.7": "_clean_status returns (str, int) on every path, int-like statuses go through int(); the stored status comes only from _clean_status",
        "R5.8": "in Headers, the Response classes and ClosingIterator (and the helpers of their modules that they call) no loop removes entries from, or inserts entries into, the very container it is walking in place and then goes on iterating: every callback / every header entry is visited",
    }.items():
        ctx.rule(rid, text)
    _r51_stores(ctx)
    _r51_sanitiser(ctx)
    _r52(ctx)
    _r53(ctx)
    _r54(ctx)
    _r55(ctx)
    _r56(ctx)
    _r57(ctx)
    _r58(ctx)


# =====================================================================
# R5.1 (a): stores into the header list


_LIST_ATTR = ["_list"]
_SAN = [SANITISER]


def _find_sanitiser(ctx: Ctx) -> str:
    """the header-value sanitiser: `_str_header_value`; should that private name be gone, the one private module-level
    function that Headers.add calls and that tests its argument for characters (regex search / membership)."""
    repo = ctx.repo
    if repo.try_func(SANITISER) is not None:
        return SANITISER
    hcls = repo.cls("datastructures.headers.Headers")
    add = hcls.methods.get("add")
    cands = set()
    if add is not None:
        Fa = fn_of(repo, add)
        # the function whose result is the value of a (key, value) pair that add() builds
        for tup in walk_no_nested(add.node):
            if not (isinstance(tup, ast.Tuple) and len(tup.elts) == 2 and isinstance(tup.ctx, ast.Load)):
                continue
            tn = Fa.cfg.node_of(tup)
            if tn is None:
                continue
            for v, vn in _expansions(Fa, tn, tup.elts[1]):
                callee = callee_of(Fa, v)
                if callee is not None and callee.cls is None and callee.name.startswith("_"):
                    cands.add(callee.fq)
    return cands.pop() if len(cands) == 1 else SANITISER


def _storage_attr(ctx: Ctx) -> str:
    """the private attribute that holds the header pairs: what Headers.__init__ binds to an empty list (today `_list`)."""
    hcls = ctx.repo.cls("datastructures.headers.Headers")
    init = hcls.methods.get("__init__")
    found = []
    if init is not None:
        empties = set()
        for n in init.node.body:  # type: ignore[attr-defined]
            if isinstance(n, (ast.Assign, ast.AnnAssign)) and getattr(n, "value", None) is not None:
                v = n.value
                fresh = (is_empty_literal(v) and isinstance(v, (ast.List, ast.Call))) or (isinstance(v, ast.Name) and v.id in empties)
                for tg in (n.targets if isinstance(n, ast.Assign) else [n.target]):
                    if isinstance(tg, ast.Name):
                        (empties.add if fresh else empties.discard)(tg.id)
                    if fresh and isinstance(tg, ast.Attribute) and astq.is_name(tg.value, "self"):
                        found.append(tg.attr)
    return found[0] if len(set(found)) == 1 else "_list"


def _is_list_attr(e: ast.AST | None) -> bool:
    return isinstance(e, ast.Attribute) and e.attr == _LIST_ATTR[0]


def _denotes_list(F: Fn, at, e: ast.AST, depth: int = 0) -> bool:
    """e is the header list itself (the attribute, or a local alias of it)."""
    if _is_list_attr(e):
        return True
    if isinstance(e, ast.Name) and depth < 4:
        bs = bindings(F, at, e)
        return bool(bs) and all(b.kind == "value" and b.path == () and b.expr is not None and b.node is not None and _denotes_list(F, b.node, b.expr, depth + 1) for b in bs)
    return False


def _elem(it: ast.AST, path: tuple[int, ...]) -> tuple[ast.AST, tuple[int, ...]] | None:
    """`enumerate(S)` yields (index, element): strip the wrapper and the leading 1 of the path."""
    if isinstance(it, ast.Call) and isinstance(it.func, ast.Name) and it.func.id == "enumerate" and it.args:
        if not path or path[0] != 1:
            return None
        return it.args[0], path[1:]
    return it, path


def _existing_src(F: Fn, at, e: ast.AST, depth: int = 0) -> bool:
    """e iterates over pairs that are already in the list."""
    if depth > 6:
        return False
    if _is_list_attr(e):
        return True
    if isinstance(e, ast.Subscript) and isinstance(e.slice, ast.Slice):
        return _existing_src(F, at, e.value, depth + 1)
    if isinstance(e, ast.Call) and isinstance(e.func, ast.Name) and e.func.id in READER_WRAPPERS and len(e.args) >= 1:
        return _existing_src(F, at, e.args[0], depth + 1)
    if isinstance(e, ast.Call) and isinstance(e.func, ast.Name) and e.func.id == "filter" and len(e.args) == 2:
        return _existing_src(F, at, e.args[1], depth + 1)  # a selection of the pairs
    if isinstance(e, ast.Call) and not e.keywords and len(e.args) == 2 and (dotted(e.func) or "").rsplit(".", 1)[-1] in ("filterfalse", "takewhile", "dropwhile") and (F.resolve(e.func) or "itertools.").startswith("itertools."):
        return _existing_src(F, at, e.args[1], depth + 1)  # itertools selections of the pairs
    if isinstance(e, (ast.GeneratorExp, ast.ListComp)) and len(e.generators) == 1 and isinstance(e.elt, ast.Name) and isinstance(e.generators[0].target, ast.Name) and e.generators[0].target.id == e.elt.id:
        return _existing_src(F, at, e.generators[0].iter, depth + 1)  # `(p for p in pairs if ...)`
    if isinstance(e, ast.Name):
        bs = bindings(F, at, e)
        return bool(bs) and all(b.kind == "value" and b.path == () and b.expr is not None and b.node is not None and _existing_src(F, b.node, b.expr, depth + 1) for b in bs)
    return False


def _existing_pair(F: Fn, at, e: ast.AST, depth: int = 0) -> bool:
    if depth > 6:
        return False
    if isinstance(e, ast.Name):
        bs = bindings(F, at, e)
        if not bs:
            return False
        for b in bs:
            if b.kind == "iter" and b.expr is not None and b.node is not None:
                ep = _elem(b.expr, b.path)
                if ep is None or ep[1] != () or not _existing_src(F, b.node, ep[0], depth + 1):
                    return False
            elif b.kind == "value" and b.path == () and b.expr is not None and b.node is not None:
                if not _existing_pair(F, b.node, b.expr, depth + 1):
                    return False
            else:
                return False
        return True
    if isinstance(e, ast.Subscript) and not isinstance(e.slice, ast.Slice):
        return _existing_src(F, at, e.value, depth + 1)
    if isinstance(e, ast.Call) and isinstance(e.func, ast.Attribute) and e.func.attr == "pop" and _denotes_list(F, at, e.func.value):
        return True  # a pair taken out of the list
    if isinstance(e, ast.Call) and isinstance(e.func, ast.Name) and e.func.id == "next" and e.args:
        return _existing_src(F, at, e.args[0], depth + 1)
    return False


def _call_sites(F: Fn) -> list[tuple[Fn, ast.Call]]:
    """every call in the package that lands in the function of F (by name first, then resolved)."""
    fi = F.fi
    cached = getattr(fi, "_c05_sites", None)
    if cached is not None:
        return cached
    out: list[tuple[Fn, ast.Call]] = []
    for other in F.repo.all_functions():
        hits = [c for c in astq.calls(other.node, nested=False)
                if (isinstance(c.func, ast.Attribute) and c.func.attr == fi.name) or (isinstance(c.func, ast.Name) and c.func.id == fi.name)]
        if not hits:
            continue
        Fo = fn_of(F.repo, other)
        out += [(Fo, c) for c in hits if callee_of(Fo, c) is fi]
    fi._c05_sites = out  # type: ignore[attr-defined]
    return out


def _param_from_callers(F: Fn, ident: str, check, depth: int) -> tuple[bool, str]:
    """the parameter `ident` of a *private* helper is judged by what every caller in the package passes for it."""
    fi = F.fi
    if not (fi.name.startswith("_") and not fi.name.startswith("__")) or depth > 10:
        return False, f"`{ident}` is the raw parameter"
    sites = _call_sites(F)
    if not sites:
        return False, f"`{ident}` is the raw parameter (no caller of the private helper {fi.qualname} found)"
    tags = set()
    for Fo, c in sites:
        a = call_args(fi, c).get(ident)
        if a is None:
            return False, f"`{ident}` is the raw parameter ({Fo.fi.qualname} calls {fi.name} without a matching argument)"
        ok, why = check(Fo, Fo.node(c), a, depth + 2)
        if not ok:
            return False, f"parameter `{ident}` of {fi.qualname} <- {Fo.fi.qualname}: {why}"
        tags.add(why)
    return True, "/".join(sorted(tags))


def _value_ok(F: Fn, at, e: ast.AST, depth: int = 0) -> tuple[bool, str]:
    if depth > 6:
        return False, "provenance chain too deep"
    if isinstance(e, ast.Call) and F.call_fq(e) == _SAN[0]:
        return True, "SANITISED"
    if isinstance(e, ast.Call) and norm(e.func).endswith("cast") and len(e.args) == 2:
        return _value_ok(F, at, e.args[1], depth + 1)
    if isinstance(e, ast.NamedExpr):
        return _value_ok(F, at, e.value, depth + 1)
    if isinstance(e, ast.IfExp):
        a = _value_ok(F, at, e.body, depth + 1)
        b = _value_ok(F, at, e.orelse, depth + 1)
        return a[0] and b[0], (f"{a[1]}/{b[1]}" if a[0] and b[0] else b[1] if a[0] else a[1])
    if isinstance(e, ast.Call):
        # one level of helper extraction: a package helper all of whose returns are sanitised values
        callee = callee_of(F, e)
        if callee is not None and callee is not F.fi and not any(isinstance(x, (ast.Yield, ast.YieldFrom)) for x in walk_no_nested(callee.node)):
            rets = astq.returns_of(callee.node)
            Fc = fn_of(F.repo, callee)
            if rets:
                tags = set()
                for r in rets:
                    if r.value is None:
                        return False, f"{callee.qualname} can return None"
                    ok, why = _value_ok(Fc, Fc.node(r), r.value, depth + 2)
                    if not ok:
                        return False, f"{callee.qualname}: `{norm(r)}`: {why}"
                    tags.add(why)
                _saw(callee)
                return True, "/".join(sorted(tags))
    if isinstance(e, ast.Name):
        bs = bindings(F, at, e)
        if not bs:
            return False, f"`{e.id}` has no local binding"
        tags = set()
        for b in bs:
            if b.kind == "value" and b.path == () and b.expr is not None and b.node is not None:
                ok, why = _value_ok(F, b.node, b.expr, depth + 1)
                if not ok:
                    return False, f"`{e.id}` <- {why}"
                tags.add(why)
            elif b.kind == "iter" and b.expr is not None and b.node is not None:
                ep = _elem(b.expr, b.path)
                if ep is None or ep[1] != (1,) or not _existing_src(F, b.node, ep[0]):
                    return False, f"`{e.id}` is bound by iterating `{norm(b.expr)}`, which is not the list's own pairs (value position)"
                tags.add("EXISTING")
            elif b.kind == "value" and b.path == (1,) and b.expr is not None and b.node is not None and _existing_pair(F, b.node, b.expr):
                tags.add("EXISTING")
            elif b.kind == "param":
                ok, why = _param_from_callers(F, e.id, _value_ok, depth)
                if not ok:
                    return False, why
                tags.add(why)
            elif b.kind == "value" and len(b.path) == 1 and isinstance(b.expr, (ast.Tuple, ast.List)) and b.path[0] < len(b.expr.elts) and b.node is not None and not any(isinstance(x, ast.Starred) for x in b.expr.elts):
                ok, why = _value_ok(F, b.node, b.expr.elts[b.path[0]], depth + 1)  # a, b = x, y
                if not ok:
                    return False, f"`{e.id}` <- {why}"
                tags.add(why)
            else:
                return False, f"`{e.id}` is bound to `{norm(b.expr) if b.expr is not None else b.kind}` (raw)"
        return True, "/".join(sorted(tags))
    if isinstance(e, ast.Subscript) and isinstance(e.slice, ast.Constant) and e.slice.value == 1 and _existing_pair(F, at, e.value):
        return True, "EXISTING"
    return False, f"`{norm(e)}` is neither _str_header_value(...) nor a value already in the list"


def _pair_ok(F: Fn, at, e: ast.AST, depth: int = 0) -> tuple[bool, str]:
    if depth > 6:
        return False, "provenance chain too deep"
    if isinstance(e, ast.Tuple) and len(e.elts) == 2:
        return _value_ok(F, at, e.elts[1], depth + 1)
    if _existing_pair(F, at, e):
        return True, "EXISTING"
    if isinstance(e, ast.IfExp):
        a = _pair_ok(F, at, e.body, depth + 1)
        b_ = _pair_ok(F, at, e.orelse, depth + 1)
        return a[0] and b_[0], (f"{a[1]}/{b_[1]}" if a[0] and b_[0] else b_[1] if a[0] else a[1])
    if isinstance(e, ast.Name):
        bs = bindings(F, at, e)
        if bs and all((b.kind == "value" and b.path == () and b.expr is not None and b.node is not None) or b.kind == "param" for b in bs):
            tags = set()
            for b in bs:
                if b.kind == "param":
                    ok, why = _param_from_callers(F, e.id, _pair_ok, depth)
                else:
                    ok, why = _pair_ok(F, b.node, b.expr, depth + 1)
                if not ok:
                    return False, why
                tags.add(why)
            return True, "/".join(sorted(tags))
    return False, f"`{norm(e)}` is not a (key, value) pair with a sanitised or existing value"


def _list_ok(F: Fn, at, e: ast.AST, depth: int = 0) -> tuple[bool, str]:
    if depth > 6:
        return False, "provenance chain too deep"
    if isinstance(e, (ast.List, ast.Tuple)) and not (isinstance(e, ast.Tuple) and len(e.elts) == 2 and not all(isinstance(x, ast.Tuple) for x in e.elts)):
        tags = {"EMPTY"} if not e.elts else set()
        for x in e.elts:
            if isinstance(x, ast.Starred):
                ok, why = _list_ok(F, at, x.value, depth + 1)
            else:
                ok, why = _pair_ok(F, at, x, depth + 1)
            if not ok:
                return False, why
            tags.add(why)
        return True, "/".join(sorted(tags))
    if _existing_src(F, at, e):
        return True, "EXISTING"
    if isinstance(e, ast.Call) and isinstance(e.func, ast.Name) and e.func.id in READER_WRAPPERS:
        if not e.args:
            return True, "EMPTY"
        return _list_ok(F, at, e.args[0], depth + 1)
    if isinstance(e, (ast.ListComp, ast.GeneratorExp)):
        return _pair_ok(F, at, e.elt, depth + 1)
    if isinstance(e, ast.Call) and isinstance(e.func, ast.Name) and e.func.id == "map" and len(e.args) == 2 and not e.keywords:
        # map(f, pairs): f is a package helper that returns a (key, sanitised value) pair for whatever it is given
        fcall = ast.Call(func=e.args[0], args=[ast.Name(id="_item", ctx=ast.Load())], keywords=[])
        callee = callee_of(F, fcall)
        if callee is None:
            return False, f"`{norm(e.args[0])}` is not a function of the package"
        Fc = fn_of(F.repo, callee)
        rets = astq.returns_of(callee.node)
        if not rets:
            return False, f"{callee.qualname} returns nothing"
        tags = set()
        for r in rets:
            ok, why = _pair_ok(Fc, Fc.node(r), r.value, depth + 2) if r.value is not None else (False, "returns None")
            if not ok:
                return False, f"{callee.qualname}: `{norm(r)}`: {why}"
            tags.add(why)
        _saw(callee)
        return True, "/".join(sorted(tags))
    if isinstance(e, ast.Call) and callee_of(F, e) is not None and callee_of(F, e) is not F.fi:
        # one level of helper extraction: a package helper that yields / returns the pairs
        callee = callee_of(F, e)
        assert callee is not None
        Fc = fn_of(F.repo, callee)
        ys = [n for n in walk_no_nested(callee.node) if isinstance(n, (ast.Yield, ast.YieldFrom))]
        tags = set()
        if ys:
            for y in ys:
                yn = Fc.node(y)
                ok, why = (_list_ok(Fc, yn, y.value, depth + 2) if isinstance(y, ast.YieldFrom) else _pair_ok(Fc, yn, y.value, depth + 2) if y.value is not None else (False, "bare yield"))
                if not ok:
                    return False, f"{callee.qualname}: `{norm(y)}`: {why}"
                tags.add(why)
        else:
            rets = astq.returns_of(callee.node)
            if not rets:
                return False, f"{callee.qualname} returns nothing"
            for r in rets:
                ok, why = _list_ok(Fc, Fc.node(r), r.value, depth + 2) if r.value is not None else (False, "returns None")
                if not ok:
                    return False, f"{callee.qualname}: `{norm(r)}`: {why}"
                tags.add(why)
        _saw(callee)
        return True, "/".join(sorted(tags))
    if isinstance(e, ast.BinOp) and isinstance(e.op, ast.Add):
        a = _list_ok(F, at, e.left, depth + 1)
        b = _list_ok(F, at, e.right, depth + 1)
        return (a[0] and b[0]), f"{a[1]}+{b[1]}"
    if isinstance(e, ast.Name):
        bs = bindings(F, at, e)
        if not bs:
            return False, f"`{e.id}` has no local binding"
        tags = set()
        for b in bs:
            if not (b.kind == "value" and b.path == () and b.expr is not None and b.node is not None):
                return False, f"`{e.id}` is bound to `{norm(b.expr) if b.expr is not None else b.kind}` (raw)"
            ok, why = _list_ok(F, b.node, b.expr, depth + 1)
            if not ok:
                return False, f"`{e.id}` <- {why}"
            tags.add(why)
        # everything the function puts into that local list must be fine as well
        for c in astq.calls(F.fi.node, nested=False):
            f = c.func
            if isinstance(f, ast.Attribute) and isinstance(f.value, ast.Name) and f.value.id == e.id and f.attr in STORE_METHODS and c.args:
                cn = F.node(c)
                if f.attr in ("append", "insert"):
                    ok, why = _pair_ok(F, cn, c.args[-1], depth + 1)
                else:
                    ok, why = _list_ok(F, cn, c.args[-1], depth + 1)
                if not ok:
                    return False, f"`{norm(c)}`: {why}"
                tags.add(why)
        for n in walk_no_nested(F.fi.node):
            if isinstance(n, ast.AugAssign) and isinstance(n.target, ast.Name) and n.target.id == e.id:
                ok, why = _list_ok(F, F.node(n), n.value, depth + 1)
                if not ok:
                    return False, f"`{norm(n)}`: {why}"
                tags.add(why)
        return True, "/".join(sorted(tags))
    return False, f"`{norm(e)}` is not a list of pairs with sanitised or existing values"


def _r51_stores(ctx: Ctx) -> None:
    repo = ctx.repo
    hcls = repo.cls("datastructures.headers.Headers")
    index = {id(fi.node): fi for fi in repo.all_functions()}
    # every syntactic use of the list: the attribute anywhere in the package, and local aliases of it
    uses: list[tuple[FuncInfo | None, ast.AST]] = []
    for m in repo.modules.values():
        for n in ast.walk(m.tree):
            if _is_list_attr(n):
                uses.append((enclosing_function(repo, n, index), n))
    alias_fns = {id(fi): fi for fi, n in uses if fi is not None and isinstance(astq.parent(n), (ast.Assign, ast.AnnAssign)) and getattr(astq.parent(n), "value", None) is n}
    for fi in alias_fns.values():
        F = fn_of(repo, fi)
        for n in walk_no_nested(fi.node):
            if isinstance(n, ast.Name) and isinstance(n.ctx, (ast.Load, ast.Store, ast.Del)):
                cn = F.cfg.node_of(n)
                if cn is not None and not isinstance(astq.parent(n), (ast.Assign, ast.AnnAssign)) and _denotes_list(F, cn, n):
                    uses.append((fi, n))

    n_in = n_out = 0
    for fi, u in uses:
        p = astq.parent(u)
        kind = None  # pair | list | either | unknown
        rhs: ast.AST | None = None
        site: ast.AST | None = None
        if isinstance(p, ast.Attribute) and p.value is u and isinstance(astq.parent(p), ast.Call) and astq.parent(p).func is p:  # type: ignore[union-attr]
            call = astq.parent(p)
            if p.attr in NONSTORE_METHODS:
                continue
            site = call
            if p.attr in ("append", "insert") and call.args:  # type: ignore[union-attr]
                kind, rhs = "pair", call.args[-1]  # type: ignore[union-attr]
            elif p.attr in ("extend", "__iadd__") and call.args:  # type: ignore[union-attr]
                kind, rhs = "list", call.args[-1]  # type: ignore[union-attr]
            elif p.attr == "__setitem__" and len(call.args) == 2:  # type: ignore[union-attr]
                kind, rhs = "either", call.args[1]  # type: ignore[union-attr]
            else:
                kind = "unknown"
        elif isinstance(p, ast.Subscript) and p.value is u and isinstance(p.ctx, ast.Store):
            st = astq.parent(p)
            while st is not None and not isinstance(st, ast.stmt):
                st = astq.parent(st)
            site = st
            if isinstance(st, ast.Assign) and any(tg is p for tg in st.targets):
                kind, rhs = ("list" if isinstance(p.slice, ast.Slice) else "either"), st.value
            elif isinstance(st, ast.AugAssign):
                kind, rhs = "unknown", st.value
            else:
                kind = "unknown"
        elif isinstance(getattr(u, "ctx", None), ast.Store):
            st = p
            while st is not None and not isinstance(st, ast.stmt):
                st = astq.parent(st)
            site = st
            if isinstance(st, (ast.Assign, ast.AnnAssign)) and st.value is not None and (p is st):
                kind, rhs = "list", st.value
            elif isinstance(st, ast.AugAssign) and st.target is u:
                kind, rhs = "list", st.value
            elif isinstance(st, ast.AnnAssign) and st.value is None:
                continue
            else:
                kind = "unknown"
        elif isinstance(p, ast.AugAssign) and p.target is u:
            site, kind, rhs = p, "list", p.value
        else:
            continue  # a read (iteration, len, subscript load, deletion ...)
        inside = fi is not None and fi.cls is not None and any(k.fq == hcls.fq for k in repo.mro(fi.cls))
        if inside:
            n_in += 1
        else:
            n_out += 1
        where = fi if fi is not None else "module level"
        label = f"{fi.qualname if fi is not None else 'module level'}: store `{norm(site)[:90]}`"
        cons = f"store {norm(site)}"
        if fi is None or kind == "unknown" or rhs is None:
            ctx.ob("R5.1", label, False, "a write into the header list of a shape the rule cannot relate to sanitised values", where, site, cons)
            continue
        F = fn_of(repo, fi)
        at = F.node(site)
        if kind == "pair":
            ok, why = _pair_ok(F, at, rhs)
        elif kind == "list":
            ok, why = _list_ok(F, at, rhs)
        else:
            ok, why = _pair_ok(F, at, rhs)
            if not ok:
                ok2, why2 = _list_ok(F, at, rhs)
                if ok2:
                    ok, why = ok2, why2
        ctx.ob("R5.1", label, ok, f"stored {'pair' if kind == 'pair' else 'pair(s)'} `{norm(rhs)[:80]}`: value provenance {why}" + ("" if inside else " (store outside the Headers class)"), fi, site, cons)
    ctx.floor("R5.1", "stores into Headers._list inside the class", n_in, 4)  # 9 today; duplicated stores may be merged into a helper
    ctx.note(f"R5.1: {n_in} store(s) into _list inside the Headers classes, {n_out} outside; {len(uses)} uses of the list examined")


# =====================================================================
# R5.1 (b): the sanitiser


_SEARCH_NODE: list[t.Any] = [None]


def _search_atom(F: Fn, folder: Folder, e: ast.AST, at=None):
    """atom testing a regex on a value -> (method, regex | None, searched expr, label of the 'found' edge); the match
    object may have been put into a local first (`m = rx.search(v)` ... `if m:`), then _SEARCH_NODE holds where."""
    found = "T"
    call = e
    _SEARCH_NODE[0] = None
    if isinstance(e, ast.Compare) and len(e.ops) == 1 and isinstance(e.comparators[0], ast.Constant) and e.comparators[0].value is None:
        if isinstance(e.ops[0], ast.IsNot):
            call, found = e.left, "T"
        elif isinstance(e.ops[0], ast.Is):
            call, found = e.left, "F"
        else:
            return None
    if isinstance(call, ast.NamedExpr):
        call = call.value
    if isinstance(call, ast.Name) and at is not None:
        bs = bindings(F, at, call)
        if len(bs) == 1 and bs[0].kind == "value" and bs[0].path == () and isinstance(bs[0].expr, ast.Call) and bs[0].node is not None:
            call = bs[0].expr
            _SEARCH_NODE[0] = bs[0].node
    if not (isinstance(call, ast.Call) and isinstance(call.func, ast.Attribute) and call.func.attr in ("search", "match", "fullmatch", "findall", "finditer")):
        _SEARCH_NODE[0] = None
        return None
    recv = call.func.value
    rx = None
    arg = None
    fq = F.resolve(recv)
    try:
        if fq == "re" and len(call.args) >= 2:  # re.search(pattern, value)
            pat = folder.expr(F.fi.module, call.args[0])
            flags = folder.expr(F.fi.module, call.args[2]) if len(call.args) > 2 else 0
            rx = pat if isinstance(pat, RegexConst) else RegexConst(pat, int(flags))
            arg = call.args[1]
        elif call.args:
            v = folder.expr(F.fi.module, recv)
            if isinstance(v, RegexConst):
                rx = v
            arg = call.args[0]
    except Unfoldable:
        rx = None
    if arg is None:
        return None
    return call.func.attr, rx, arg, found


def _str_typed(F: Fn, at, e: ast.AST | None, depth: int = 0) -> tuple[bool, str]:
    """e is a str on every path: str(..) results, text literals, or a value under the true edge of isinstance(.., str)."""
    if e is None or depth > 6:
        return False, "unknown value"
    if isinstance(e, ast.Call) and isinstance(e.func, ast.Name) and e.func.id == "str":
        return True, "str(..)"
    if isinstance(e, ast.JoinedStr) or (isinstance(e, ast.Constant) and isinstance(e.value, str)):
        return True, "text literal"
    if isinstance(e, ast.IfExp):
        test, yes, no = e.test, e.body, e.orelse
        if isinstance(test, ast.UnaryOp) and isinstance(test.op, ast.Not):
            test, yes, no = test.operand, no, yes
        ia = isinstance_atom(test)
        if ia and ia[1] == {"str"} and norm(ia[0]) == norm(yes):
            b = _str_typed(F, at, no, depth + 1)
            return b[0], f"`{norm(yes)}` where it is a str, else {b[1]}"
        a = _str_typed(F, at, yes, depth + 1)
        b = _str_typed(F, at, no, depth + 1)
        return a[0] and b[0], f"{a[1]} / {b[1]}"
    if isinstance(e, ast.Call) and norm(e.func).endswith("cast") and len(e.args) == 2:
        return _str_typed(F, at, e.args[1], depth + 1)
    if isinstance(e, ast.Call):
        callee = callee_of(F, e)
        if callee is not None and callee is not F.fi:
            Fc = fn_of(F.repo, callee)
            rets = astq.returns_of(callee.node)
            if rets and not any(isinstance(x, (ast.Yield, ast.YieldFrom)) for x in walk_no_nested(callee.node)):
                whys = []
                for r in rets:
                    ok, why = _str_typed(Fc, Fc.node(r), r.value, depth + 2)
                    if not ok:
                        return False, f"{callee.qualname}: `{norm(r)}`: {why}"
                    whys.append(why)
                _saw(callee)
                return True, f"{callee.qualname}() -> " + " | ".join(sorted(set(whys)))
    if isinstance(e, ast.Name):
        ds = F.rd.reaching(at, e.id)
        if not ds:
            return False, f"`{e.id}` has no local binding"
        conv = [d.node for d in ds if d.node is not None and d.kind != "param"]
        whys = []
        for d in ds:
            if d.kind == "param":
                safe = []
                for t in F.cfg.tests():
                    ia = isinstance_atom(t.ast) if t.kind == "test" else None
                    if ia and astq.is_name(ia[0], e.id) and ia[1] == {"str"}:
                        safe.append((t, "T"))
                if at.id in F.cfg.reach(avoid_nodes=conv, avoid_edges=safe):
                    ok, why = _param_from_callers(F, e.id, _str_typed, depth)  # a private helper: judged by its callers
                    if not ok:
                        return False, f"the unconverted parameter `{e.id}` reaches this point without passing isinstance(.., str) ({why})"
                    whys.append(f"parameter, a str at every caller ({why})")
                else:
                    whys.append("parameter under isinstance(.., str)")
            elif d.kind in ("assign", "walrus") and d.node is not None:
                ok, why = _str_typed(F, d.node, d.value, depth + 1)
                if not ok:
                    # not a str by construction: fine if this binding only gets here through isinstance(<name>, str)
                    safe = []
                    for t_ in F.cfg.tests():
                        ia = isinstance_atom(t_.ast) if t_.kind == "test" else None
                        if ia and astq.is_name(ia[0], e.id) and ia[1] == {"str"}:
                            safe.append((t_, "T"))
                    others = [x for x in conv if x is not d.node and x is not at]
                    if not safe or at.id in F.cfg.reach([s_ for s_, l_ in d.node.succs if l_ != "exc"], avoid_nodes=others, avoid_edges=safe):
                        return False, f"`{e.id}` <- {why}"
                    why = f"`{norm(d.value)[:30]}` under isinstance(.., str)"
                whys.append(why)
            else:
                return False, f"`{e.id}` is bound by `{d.kind}`"
        return True, f"bindings of `{e.id}`: " + " | ".join(sorted(set(whys)))
    return False, f"`{norm(e)[:50]}` is not a str by construction"


def _membership_atom(e: ast.AST):
    """`"\\n" in value` / `"\\n" not in value` -> (characters looked for, searched expr, label of the 'found' edge)."""
    if isinstance(e, ast.Compare) and len(e.ops) == 1 and isinstance(e.left, ast.Constant) and isinstance(e.left.value, str) and len(e.left.value) == 1:
        if isinstance(e.ops[0], ast.In):
            return {ord(e.left.value)}, e.comparators[0], "T"
        if isinstance(e.ops[0], ast.NotIn):
            return {ord(e.left.value)}, e.comparators[0], "F"
    return None


def _char_test(F: Fn, folder: Folder, e: ast.AST, depth: int = 0, at=None):
    """a condition atom that looks for characters in a value -> (code points looked for, looks anywhere in the value,
    searched expr, label of the 'found' edge, description); regex tests, membership tests, and calls to a one-expression
    predicate helper that is such a test on its parameter (mapped back to the argument)."""
    a = _search_atom(F, folder, e, at)
    if a is not None:
        meth, rx, arg, found = a
        sn = _SEARCH_NODE[0]
        cls: set[int] = set()
        shape = "unfoldable pattern"
        if rx is not None:
            try:
                cls, (lo, hi) = single_class(rx, 256)
                shape = f"pattern {rx.pattern!r}: class of {len(cls)} code point(s), repeat {lo}..{'inf' if hi >= 10**9 else hi}"
                if lo != 1:
                    cls = set() if lo > 1 else cls
            except Unfoldable as ex:
                shape = f"pattern {rx.pattern!r}: not a single character class ({ex})"
        return cls, meth == "search", arg, found, f"uses .{meth}(); {shape}", True, sn
    m = _membership_atom(e)
    if m is not None:
        return m[0], True, m[1], m[2], "membership test", False, None
    if isinstance(e, ast.Call) and isinstance(e.func, ast.Attribute) and e.func.attr == "isdisjoint" and len(e.args) == 1 and not e.keywords:
        # CHARS.isdisjoint(value): true when none of the characters occurs anywhere in the value
        try:
            chars = folder.expr(F.fi.module, e.func.value)
        except AnalysisError:
            chars = None
        if isinstance(chars, (set, frozenset, str, tuple, list)) and chars and all(isinstance(c_, str) and len(c_) == 1 for c_ in chars):
            return {ord(c_) for c_ in chars}, True, e.args[0], "F", "isdisjoint over the characters", False, None
    if isinstance(e, ast.Call) and isinstance(e.func, ast.Name) and e.func.id == "any" and len(e.args) == 1 and isinstance(e.args[0], (ast.GeneratorExp, ast.ListComp)) and len(e.args[0].generators) == 1:
        # any(c in value for c in "\r\n")
        g = e.args[0].generators[0]
        el = e.args[0].elt
        if not g.ifs and isinstance(g.target, ast.Name) and isinstance(el, ast.Compare) and len(el.ops) == 1 and isinstance(el.ops[0], ast.In) and astq.is_name(el.left, g.target.id):
            try:
                chars = folder.expr(F.fi.module, g.iter)
            except AnalysisError:
                chars = None
            if isinstance(chars, (set, frozenset, str, tuple, list)) and chars and all(isinstance(c_, str) and len(c_) == 1 for c_ in chars):
                return {ord(c_) for c_ in chars}, True, el.comparators[0], "T", "any(c in value ..) over the characters", False, None
            # any(ch in "\r\n" for ch in value): every character of the value is looked at
            try:
                chars = folder.expr(F.fi.module, el.comparators[0])
            except AnalysisError:
                chars = None
            if isinstance(chars, (set, frozenset, str, tuple, list)) and chars and all(isinstance(c_, str) and len(c_) == 1 for c_ in chars):
                return {ord(c_) for c_ in chars}, True, g.iter, "T", "any(ch in CHARS for ch in value)", False, None
    if isinstance(e, ast.Call) and depth < 2:
        callee = callee_of(F, e)
        if callee is not None and callee is not F.fi:
            rets = astq.returns_of(callee.node)
            if len(rets) == 1 and rets[0].value is not None and len([x for x in callee.node.body if not (isinstance(x, ast.Expr) and isinstance(x.value, ast.Constant))]) == 1:  # type: ignore[attr-defined]
                Fc = fn_of(F.repo, callee)
                v, flip = rets[0].value, False
                while isinstance(v, ast.UnaryOp) and isinstance(v.op, ast.Not):
                    v, flip = v.operand, not flip
                if isinstance(v, ast.Call) and isinstance(v.func, ast.Name) and v.func.id == "bool" and len(v.args) == 1:
                    v = v.args[0]
                inner = _char_test(Fc, folder, v, depth + 1)
                amap = call_args(callee, e)
                if inner is not None and isinstance(inner[2], ast.Name) and inner[2].id in amap:
                    _saw(callee)
                    found = inner[3] if not flip else ("F" if inner[3] == "T" else "T")
                    return inner[0], inner[1], amap[inner[2].id], found, f"{callee.qualname}(): {inner[4]}", inner[5], None
    return None


def _refusals(ctx: Ctx, F: Fn, folder: Folder, report: bool = True) -> list[tuple[t.Any, ast.AST, str, set[int], t.Any]]:
    """the condition atoms of a function that refuse characters in a value: (test node, searched expr, label of the
    not-found edge, code points that are refused).  A test only counts when it looks anywhere in the value and its found
    edge cannot complete normally; the obligations about that are recorded here."""
    cfg = F.cfg
    fi = F.fi
    out = []
    for tn in cfg.tests():
        if tn.kind != "test":
            continue
        ct = _char_test(F, folder, tn.ast, 0, tn)
        if ct is None:
            continue
        cls, srch, arg, found, shape, is_rx, sn = ct
        if report and is_rx:
            ctx.ob("R5.1", "the pattern is applied with search (anywhere in the value)", srch, f"`{norm(tn.ast)}` {shape}", fi, tn.ast, f"search method in `{norm(arg)}` test")
        fs = cfg.succ(tn, found)
        r = cfg.reach(fs) if fs else set()
        refuses = bool(fs) and cfg.exit.id not in r
        raised = sorted({astq.raised_name(n.ast) or "?" for n in cfg.nodes if n.id in r and isinstance(n.ast, ast.Raise)})
        if report:
            ctx.ob("R5.1", "a found CR/LF refuses the value (no normal completion)", refuses, f"found edge `{found}` of `{norm(tn.ast)}` reaches the normal exit: {not refuses}; raises {raised}", fi, tn.ast, "found edge raises")
        out.append((tn, arg, "F" if found == "T" else "T", cls if srch and refuses else set(), sn or tn))  # an unsound test refuses nothing
    return out


def _checker_params(ctx: Ctx, callee: FuncInfo, folder: Folder) -> dict[str, set[int]]:
    """parameters of a helper that it refuses CR/LF in: the helper cannot complete normally unless the not-found edges of
    its searches on the (unrebound) parameter are taken.  parameter -> refused code points."""
    Fc = fn_of(ctx.repo, callee)
    out: dict[str, set[int]] = {}
    tests = _refusals(ctx, Fc, folder)
    for p in callee.params:
        mine = [(tn, nf, cls) for tn, arg, nf, cls, sn in tests if astq.is_name(arg, p) and all(d.kind == "param" for d in Fc.rd.reaching(sn, p))]
        got: set[int] = set()
        for tn, nf, cls in mine:
            found = "F" if nf == "T" else "T"
            # every normal completion passes this test and leaves it through the not-found edge
            if Fc.cfg.exit.id not in Fc.cfg.reach(avoid_nodes=[tn]) and Fc.cfg.exit.id not in Fc.cfg.reach(Fc.cfg.succ(tn, found)):
                got |= cls
        if mine:
            out[p] = got  # empty: the helper tests the parameter but does not soundly refuse anything
    return out


def _alias_roots(F: Fn, at, v: ast.Name, depth: int = 0) -> list[tuple[str, t.Any]]:
    """(name, node where it is read) for the locals that v stands for through plain `a = b` bindings."""
    bs = bindings(F, at, v)
    if depth < 4 and bs and all(b.kind == "value" and b.path == () and isinstance(b.expr, ast.Name) and b.node is not None for b in bs):
        out: list[tuple[str, t.Any]] = []
        for b in bs:
            out += _alias_roots(F, b.node, b.expr, depth + 1)  # type: ignore[arg-type]
        return out
    return [(v.id, at)]


def _sanitiser_obs(ctx: Ctx, san: FuncInfo, folder: Folder, depth: int = 0) -> None:
    repo = ctx.repo
    ctx.saw(san)
    F = fn_of(repo, san)
    cfg = F.cfg
    good = _refusals(ctx, F, folder)
    # checks delegated to a helper: `_refuse_newlines(text)` as a statement (or anywhere in an expression)
    delegated: list[tuple[t.Any, ast.AST, set[int]]] = []
    for c in astq.calls(san.node, nested=False):
        callee = callee_of(F, c)
        if callee is None or callee is san:
            continue
        cn = cfg.node_of(c)
        if cn is None:
            continue
        cp = _checker_params(ctx, callee, folder)
        for p, a in call_args(callee, c).items():
            if p in cp and isinstance(a, ast.Name):
                ctx.saw(callee)
                delegated.append((cn, a, cp[p]))
    rets = astq.returns_of(san.node)
    ctx.floor("R5.1", f"returns of {san.name}", len(rets), 1)
    if not good and not delegated and not any(isinstance(v, ast.Call) and callee_of(F, v) is not None for r_ in rets for v, _ in _expansions(F, F.node(r_), r_.value)):
        raise AnalysisError(f"{san.name}: no test that refuses CR/LF found, neither in the function nor in a helper it calls (slot)")
    for r_ in rets:
        rn0 = F.node(r_)
        for v, rn in _expansions(F, rn0, r_.value, names=False):
            cons = f"sanitiser return {norm(v) if v is not None else None}"
            if isinstance(v, ast.Call) and depth < 2:
                callee = callee_of(F, v)
                if callee is not None and callee is not san and not any(isinstance(x, (ast.Yield, ast.YieldFrom)) for x in walk_no_nested(callee.node)):
                    # the value is produced by a helper: that helper has to be a sanitiser itself
                    _sanitiser_obs(ctx, callee, folder, depth + 1)
                    continue
            if not isinstance(v, ast.Name):
                ctx.ob("R5.1", f"`{norm(r_)}` returns a checked value", False, "the returned expression is not a local that passed the CR/LF search (computed at the return, never searched)", san, r_, cons + " checked")
                continue
            covered: set[int] | None = None
            for nm, at_ in _alias_roots(F, rn, v):
                # what is returned may be a plain alias (`result = text`): the search has to be on the value it stands for
                cov: set[int] = set()
                for tn, arg, nf, cls, sn in good:
                    if isinstance(arg, ast.Name) and arg.id == nm and cfg.edge_dominates(tn, nf, rn) and same_binding(F, sn, at_, nm):
                        cov |= cls
                for cn, arg, cls in delegated:
                    if isinstance(arg, ast.Name) and arg.id == nm and cn is not rn and cfg.node_dominates(cn, rn) and same_binding(F, cn, at_, nm):
                        cov |= cls
                covered = cov if covered is None else covered & cov
            covered = covered or set()
            ok = {13, 10} <= covered
            fact = f"searches on the same binding of `{v.id}` whose not-found edge dominates the return refuse CR: {13 in covered}, LF: {10 in covered}"
            if not ok:
                cand = [(tn, nf) for tn, arg, nf, cls, sn in good if isinstance(arg, ast.Name) and arg.id == v.id]
                if cand:
                    t0, nf0 = cand[0]
                    if not cfg.edge_dominates(t0, nf0, rn):
                        p_ = cfg.path(cfg.entry, rn, avoid_edges=[(t0, nf0)])
                        fact += "; path that skips the search: " + cfg.fmt_path(p_ or [])
                    elif not same_binding(F, t0, rn, v.id):
                        fact += f"; `{v.id}` is rebound between the search and the return"
            ctx.ob("R5.1", f"`{norm(r_)}` returns a checked value", ok, fact, san, r_, cons + " checked")
            ok, fact = _str_typed(F, rn, v)
            ctx.ob("R5.1", f"`{norm(r_)}` returns a str", ok, fact, san, r_, cons + " is str")


def _r51_sanitiser(ctx: Ctx) -> None:
    _sanitiser_obs(ctx, ctx.repo.func(_SAN[0]), Folder(ctx.repo))


# =====================================================================
# R5.2: the WSGI header list is the sanitised storage


def _resp(ctx: Ctx) -> ClassInfo:
    return ctx.repo.cls("wrappers.response.Response")


def _self_call(e: ast.AST | None, name: str) -> bool:
    return isinstance(e, ast.Call) and isinstance(e.func, ast.Attribute) and e.func.attr == name and astq.is_name(e.func.value, "self")


def _name_from(F: Fn, at, e: ast.AST | None, pred, path: tuple[int, ...] | None = (), up=None) -> bool:
    """e satisfies pred directly, or is a local whose every reaching definition binds (at position `path`) an expression
    satisfying pred.  `up` = (caller Fn, call node, {parameter: argument}) when F is a helper that was followed: a
    parameter is then what the caller passed.  pred(expr, node, F) is asked in the function the expression lives in."""
    if e is None:
        return False
    if pred(e, at, F) and path in ((), None):
        return True
    if path and len(path) == 1 and isinstance(e, ast.Subscript) and isinstance(e.slice, ast.Constant) and e.slice.value == path[0]:
        return _name_from(F, at, e.value, pred, (), up)  # `triple[i]` instead of unpacking
    if isinstance(e, ast.Name):
        bs = bindings(F, at, e)
        if not bs:
            return False
        for b in bs:
            if b.kind == "param" and up is not None and e.id in up[2] and _name_from(up[0], up[1], up[2][e.id], pred, path, None):
                continue
            if b.kind != "value" or b.expr is None or b.node is None:
                return False
            if pred(b.expr, b.node, F) and (path is None or b.path == path):
                continue
            if b.path == () and not pred(b.expr, b.node, F) and isinstance(b.expr, (ast.Name, ast.Subscript)) and _name_from(F, b.node, b.expr, pred, path, up):
                continue  # a plain alias
            if path and b.path == path and isinstance(b.expr, ast.Name) and _name_from(F, b.node, b.expr, pred, (), up):
                continue  # unpacked from a local that holds the whole result
            return False
        return True
    return False


def _tuple_items(F: Fn, at, e: ast.AST | None, depth: int = 0) -> list[tuple[ast.AST, t.Any]] | None:
    """the items of a tuple value with the node each is evaluated in: a display, a concatenation of tuples, or a local
    holding one; None when the shape is not a tuple put together from displays."""
    if e is None or depth > 4:
        return None
    if isinstance(e, ast.Tuple):
        return None if any(isinstance(x, ast.Starred) for x in e.elts) else [(x, at) for x in e.elts]
    if isinstance(e, ast.BinOp) and isinstance(e.op, ast.Add):
        a, b = _tuple_items(F, at, e.left, depth + 1), _tuple_items(F, at, e.right, depth + 1)
        return None if a is None or b is None else a + b
    if isinstance(e, ast.Name):
        bs = bindings(F, at, e)
        if len(bs) == 1 and bs[0].kind == "value" and bs[0].path == () and bs[0].node is not None:
            return _tuple_items(F, bs[0].node, bs[0].expr, depth + 1)
    return None


def _headers_api_only(ctx: Ctx, F: Fn, ident: str, hcls: ClassInfo, depth: int = 0) -> list[str]:
    """uses of local `ident` (a Headers object) that are not the Headers interface."""
    repo = ctx.repo
    bad: list[str] = []
    for n in walk_no_nested(F.fi.node):
        if not (isinstance(n, ast.Name) and n.id == ident and isinstance(n.ctx, ast.Load)):
            continue
        p = astq.parent(n)
        if isinstance(p, ast.Attribute) and p.value is n:
            _, what = repo.lookup(hcls, p.attr)
            if not isinstance(what, FuncInfo):
                bad.append(f"`{norm(p)}` is not a Headers method")
        elif isinstance(p, ast.Subscript) and p.value is n:
            pass
        elif isinstance(p, (ast.For, ast.comprehension)) and p.iter is n:
            pass
        elif isinstance(p, (ast.Return, ast.Compare, ast.BoolOp, ast.UnaryOp, ast.If, ast.IfExp, ast.While)):
            pass
        elif isinstance(p, ast.Call) and (any(a is n for a in p.args) or any(k.value is n for k in p.keywords)):
            fq = F.call_fq(p)
            if fq and fq.startswith("builtins."):
                continue
            callee = callee_of(F, p)
            if callee is None or depth >= 2:
                bad.append(f"passed to `{norm(p.func)}` (not followed)")
                continue
            inner = [q for q, a in call_args(callee, p).items() if a is n]
            if not inner:
                bad.append(f"passed to `{norm(p.func)}` beyond its parameters")
                continue
            ctx.saw(callee)
            bad += [f"in {callee.qualname}: {b}" for b in _headers_api_only(ctx, fn_of(repo, callee), inner[0], hcls, depth + 1)]
        else:
            bad.append(f"`{norm(p)[:60]}` (alias or unknown use)")
    return bad


def _r52(ctx: Ctx) -> None:
    repo = ctx.repo
    resp = _resp(ctx)
    hcls = repo.cls("datastructures.headers.Headers")
    gwr = method(repo, resp, "get_wsgi_response")
    F = fn_of(repo, gwr)
    rets = astq.returns_of(gwr.node)
    ctx.floor("R5.2", "returns of get_wsgi_response", len(rets), 1)
    def triple(Fx: Fn, r: ast.Return, up, depth: int = 0) -> None:
        def is_wsgi_list(e: ast.AST, at_, F_=None) -> bool:
            F_ = F_ or Fx
            return isinstance(e, ast.Call) and isinstance(e.func, ast.Attribute) and e.func.attr == "to_wsgi_list" and not e.args and _name_from(F_, at_, e.func.value, lambda x, _a, _f=None: _self_call(x, "get_wsgi_headers"), (), up if F_ is Fx else None)

        for v, rn in _expansions(Fx, Fx.node(r), r.value):
            callee = callee_of(Fx, v) if isinstance(v, ast.Call) and depth < 1 else None
            if callee is not None and callee is not Fx.fi and astq.returns_of(callee.node):
                # the triple is put together by a helper from what it is handed
                ctx.saw(callee)
                Fq = fn_of(repo, callee)
                for r2 in astq.returns_of(callee.node):
                    triple(Fq, r2, (Fx, rn, call_args(callee, v)), depth + 1)
                continue
            items = _tuple_items(Fx, rn, v)
            ok = items is not None and len(items) == 3
            facts = []
            if ok:
                (it, n_it), (st, n_st), (hd, n_hd) = items  # type: ignore[misc]
                h_ok = _name_from(Fx, n_hd, hd, is_wsgi_list, (), up)
                i_ok = _name_from(Fx, n_it, it, lambda e, _a, _f=None: _self_call(e, "get_app_iter"), (), up)
                s_ok = _name_from(Fx, n_st, st, lambda e, _a, _f=None: is_self_attr(e, "status"), (), up)
                facts = [f"headers `{norm(hd)}` is to_wsgi_list() of self.get_wsgi_headers(..): {h_ok}", f"iterable `{norm(it)}` is self.get_app_iter(..): {i_ok}", f"status `{norm(st)}` is self.status: {s_ok}"]
                ok = h_ok and i_ok and s_ok
            ctx.ob("R5.2", "get_wsgi_response returns (get_app_iter(..), self.status, get_wsgi_headers(..).to_wsgi_list())", ok, "; ".join(facts) or f"`{norm(r)}` is not a 3-tuple", gwr, r if Fx is F else gwr.node, "wsgi triple")

    for r in rets:
        triple(F, r, None)
    # __call__ hands exactly that triple to the server
    call = method(repo, resp, "__call__")
    Fc = fn_of(repo, call)
    sr = call.params[2] if len(call.params) >= 3 else None
    # (call node in __call__, status argument, headers argument): start_response called directly, or through one package
    # helper that is handed the callable and calls it with two of its own parameters
    srs: list[tuple[ast.Call, ast.AST, ast.AST]] = []
    star_first: list[t.Any] = [None]
    star_call: list[t.Any] = [None]
    star_at: list[t.Any] = [None]
    for c in astq.calls(call.node, nested=False):
        if sr is None:
            break
        if isinstance(c.func, ast.Name) and c.func.id == sr and len(c.args) >= 2:
            srs.append((c, c.args[0], c.args[1]))
            continue
        if isinstance(c.func, ast.Name) and c.func.id == sr and len(c.args) == 1 and isinstance(c.args[0], ast.Starred) and isinstance(c.args[0].value, ast.Name):
            # start_response(*rest) where `first, *rest = <the triple>`: rest is (status, headers)
            rest = c.args[0].value
            ds = Fc.rd.reaching(Fc.node(c), rest.id)
            shapes = []
            for d in ds:
                tg = d.stmt.targets[0] if isinstance(d.stmt, ast.Assign) and len(d.stmt.targets) == 1 else None
                if isinstance(tg, (ast.Tuple, ast.List)) and len(tg.elts) == 2 and isinstance(tg.elts[1], ast.Starred) and astq.is_name(tg.elts[1].value, rest.id) and isinstance(tg.elts[0], ast.Name) and d.node is not None:
                    shapes.append((d, tg.elts[0].id))
            if shapes and len(shapes) == len(ds):
                d0, first = shapes[0]
                whole = ast.Subscript(value=d0.value, slice=ast.Constant(value=1), ctx=ast.Load())
                whole2 = ast.Subscript(value=d0.value, slice=ast.Constant(value=2), ctx=ast.Load())
                star_first[0] = (first, d0)
                srs.append((c, whole, whole2))
                star_at[0] = d0.node
            continue
        if any(astq.is_name(a, sr) for a in [*c.args, *[k.value for k in c.keywords]]):
            callee = callee_of(Fc, c)
            if callee is None:
                continue
            if c.args and isinstance(c.args[-1], ast.Starred) and not c.keywords and not any(isinstance(a, ast.Starred) for a in c.args[:-1]):
                # helper(start_response, *triple): the items of the triple land in the parameters after the explicit ones
                whole_e = c.args[-1].value
                ps_ = list(callee.params)
                if callee.cls is not None and "staticmethod" not in callee.decorators:
                    ps_ = ps_[1:]
                k_ = len(c.args) - 1
                slot = {p_: i_ - k_ for i_, p_ in enumerate(ps_) if k_ <= i_ < k_ + 3}
                inner_ = [p_ for p_, a in zip(ps_, c.args[:-1]) if astq.is_name(a, sr)]
                Fq = fn_of(repo, callee)
                for c2 in astq.calls(callee.node, nested=False):
                    if isinstance(c2.func, ast.Name) and c2.func.id in inner_ and len(c2.args) >= 2 and all(isinstance(a, ast.Name) and a.id in slot and all(d.kind == "param" for d in Fq.rd.reaching(Fq.node(c2), a.id)) for a in c2.args[:2]):
                        if Fq.cfg.exit.id not in Fq.cfg.reach(avoid_nodes=[Fq.node(c2)]):
                            ctx.saw(callee)
                            srs.append((c, ast.Subscript(value=whole_e, slice=ast.Constant(value=slot[c2.args[0].id]), ctx=ast.Load()), ast.Subscript(value=whole_e, slice=ast.Constant(value=slot[c2.args[1].id]), ctx=ast.Load())))  # type: ignore[attr-defined]
                            rets_q = astq.returns_of(callee.node)
                            passes_body = bool(rets_q) and all(isinstance(r.value, ast.Name) and slot.get(r.value.id) == 0 and all(d.kind == "param" for d in Fq.rd.reaching(Fq.node(r), r.value.id)) for r in rets_q)
                            star_call[0] = (c, passes_body)
                continue
            amap = call_args(callee, c)
            inner = [p_ for p_, a in amap.items() if astq.is_name(a, sr)]
            Fq = fn_of(repo, callee)
            for c2 in astq.calls(callee.node, nested=False):
                if isinstance(c2.func, ast.Name) and c2.func.id in inner and len(c2.args) >= 2 and all(isinstance(a, ast.Name) and a.id in amap and all(d.kind == "param" for d in Fq.rd.reaching(Fq.node(c2), a.id)) for a in c2.args[:2]):
                    if Fq.cfg.exit.id not in Fq.cfg.reach(avoid_nodes=[Fq.node(c2)]):
                        ctx.saw(callee)
                        srs.append((c, amap[c2.args[0].id], amap[c2.args[1].id]))  # type: ignore[attr-defined]
    ok = len(srs) == 1
    fact = f"{len(srs)} call(s) of the start_response parameter"
    if ok:
        c0, a_status, a_headers = srs[0]
        cn = star_at[0] or Fc.node(c0)
        s_ok = _name_from(Fc, cn, a_status, lambda e, _a, _f=None: _self_call(e, "get_wsgi_response"), (1,))
        h_ok = _name_from(Fc, cn, a_headers, lambda e, _a, _f=None: _self_call(e, "get_wsgi_response"), (2,))
        r_ok = all(_name_from(Fc, Fc.node(r), r.value, lambda e, _a, _f=None: _self_call(e, "get_wsgi_response"), (0,)) for r in astq.returns_of(call.node)) and bool(astq.returns_of(call.node))
        if not r_ok and star_call[0] is not None:
            # `return self._helper(start_response, *triple)`: the helper hands back the item that is the iterable
            c_star, passes_body = star_call[0]
            r_ok = passes_body and bool(astq.returns_of(call.node)) and all(r.value is c_star for r in astq.returns_of(call.node))
        if not r_ok and star_first[0] is not None:
            first, d0 = star_first[0]
            r_ok = bool(astq.returns_of(call.node)) and all(astq.is_name(r.value, first) and {d.node for d in Fc.rd.reaching(Fc.node(r), first)} == {d0.node} for r in astq.returns_of(call.node))
        fact = f"start_response gets element 1 (status): {s_ok}, element 2 (headers): {h_ok}; the returned iterable is element 0: {r_ok}"
        ok = s_ok and h_ok and r_ok
    ctx.ob("R5.2", "Response.__call__ passes status and headers of get_wsgi_response to start_response and returns its iterable", ok, fact, call, srs[0][0] if srs else call.node, "call hands over the triple")

    gwh = method(repo, resp, "get_wsgi_headers")
    Fh = fn_of(repo, gwh)
    rets = astq.returns_of(gwh.node)
    ctx.floor("R5.2", "returns of get_wsgi_headers", len(rets), 1)
    hfq = hcls.fq

    def is_copy(e: ast.AST, _at=None, _f=None) -> bool:
        if isinstance(e, ast.Call) and Fh.call_fq(e) == hfq and len(e.args) == 1 and is_self_attr(e.args[0], "headers"):
            return True
        return isinstance(e, ast.Call) and isinstance(e.func, ast.Attribute) and e.func.attr == "copy" and is_self_attr(e.func.value, "headers")

    names = set()
    for r in rets:
        ok = isinstance(r.value, ast.Name) and _name_from(Fh, Fh.node(r), r.value, is_copy)
        if isinstance(r.value, ast.Name):
            names.add(r.value.id)
        ctx.ob("R5.2", "get_wsgi_headers returns a Headers copy of self.headers", ok, f"`{norm(r)}`: every binding of the returned local is Headers(self.headers) / self.headers.copy(): {ok}", gwh, r, f"wsgi headers object {norm(r.value) if r.value is not None else None}")
    for nm in sorted(names):
        bad = _headers_api_only(ctx, Fh, nm, hcls)
        ctx.ob("R5.2", f"`{nm}` is modified only through the Headers interface", not bad, f"uses outside the interface: {bad}" if bad else "attribute uses are Headers methods, item access goes through __getitem__/__setitem__/__delitem__, helpers it is passed to do the same", gwh, gwh.node, f"headers api only {nm}")
    twl = method(repo, hcls, "to_wsgi_list")
    it = method(repo, hcls, "__iter__")
    ctx.saw(twl, it)

    def storage(a: ast.AST | None) -> bool:
        return astq.is_name(a, "self") or is_self_attr(a, _LIST_ATTR[0])

    def lists_storage(e: ast.AST | None) -> bool:
        """a fresh list (or iterator) of exactly the stored pairs, in order."""
        if isinstance(e, ast.Call) and isinstance(e.func, ast.Name) and e.func.id in ("list", "iter") and len(e.args) == 1:
            return storage(e.args[0]) or lists_storage(e.args[0])
        if isinstance(e, ast.Call) and isinstance(e.func, ast.Attribute) and e.func.attr == "copy" and not e.args and is_self_attr(e.func.value, _LIST_ATTR[0]):
            return True
        if isinstance(e, ast.Subscript) and isinstance(e.slice, ast.Slice) and e.slice.lower is None and e.slice.upper is None and e.slice.step is None and is_self_attr(e.value, _LIST_ATTR[0]):
            return True
        if isinstance(e, ast.List) and len(e.elts) == 1 and isinstance(e.elts[0], ast.Starred):
            return storage(e.elts[0].value)
        if isinstance(e, ast.ListComp) and len(e.generators) == 1 and not e.generators[0].ifs and storage(e.generators[0].iter):
            tg, el = e.generators[0].target, e.elt
            if isinstance(tg, ast.Name) and astq.is_name(el, tg.id):
                return True
            if isinstance(tg, ast.Tuple) and isinstance(el, ast.Tuple) and [norm(x) for x in tg.elts] == [norm(x) for x in el.elts] and all(isinstance(x, ast.Name) for x in tg.elts):
                return True
        return False

    Ftw = fn_of(repo, twl)

    def filled_from_storage(r: ast.Return) -> bool:
        """`rv = []` ... `rv.extend(self)` ... `return rv`: a fresh list that receives the stored pairs once, and nothing else."""
        v = r.value
        if not isinstance(v, ast.Name):
            return False
        rn = Ftw.node(r)
        bs = bindings(Ftw, rn, v)
        if not bs or not all(b.kind == "value" and b.path == () and is_empty_literal(b.expr) and isinstance(b.expr, (ast.List, ast.Call)) for b in bs):
            return False
        fills, other = [], []
        for n in walk_no_nested(twl.node):
            if isinstance(n, ast.Call) and isinstance(n.func, ast.Attribute) and astq.is_name(n.func.value, v.id):
                if n.func.attr == "extend" and len(n.args) == 1 and (storage(n.args[0]) or lists_storage(n.args[0])):
                    fills.append(Ftw.node(n))
                else:
                    other.append(n)
            elif isinstance(n, ast.AugAssign) and astq.is_name(n.target, v.id):
                if isinstance(n.op, ast.Add) and (storage(n.value) or lists_storage(n.value)):
                    fills.append(Ftw.node(n))
                else:
                    other.append(n)
        if not fills and len(other) == 1:
            # `for item in self: rv.append(item)`: one unconditional pass that appends every pair as it is
            c = other[0]
            lp = astq.parent(astq.parent(c)) if isinstance(astq.parent(c), ast.Expr) else None
            if (isinstance(c, ast.Call) and c.func.attr == "append" and len(c.args) == 1 and isinstance(lp, ast.For) and not lp.orelse and len(lp.body) == 1 and (storage(lp.iter) or lists_storage(lp.iter))):
                tg, a = lp.target, c.args[0]
                same = (isinstance(tg, ast.Name) and astq.is_name(a, tg.id)) or (isinstance(tg, ast.Tuple) and isinstance(a, ast.Tuple) and [norm(x) for x in tg.elts] == [norm(x) for x in a.elts] and all(isinstance(x, ast.Name) for x in tg.elts))
                ln = Ftw.cfg.node_of(lp)
                return bool(same and ln is not None and Ftw.cfg.node_dominates(ln, rn))
            return False
        return len(fills) == 1 and not other and fills[0].ast is not None and not any(x.kind == "loop" and Ftw.cfg.edge_dominates(x, "T", fills[0]) for x in Ftw.cfg.nodes) and Ftw.cfg.node_dominates(fills[0], rn)

    r1 = astq.returns_of(twl.node)
    ok1 = bool(r1) and all(not isinstance(r.value, ast.Call) or not (isinstance(r.value.func, ast.Name) and r.value.func.id == "iter") for r in r1) and all(lists_storage(r.value) or filled_from_storage(r) for r in r1)
    r2 = astq.returns_of(it.node)
    yields = [n for n in walk_no_nested(it.node) if isinstance(n, (ast.Yield, ast.YieldFrom))]
    if yields:
        ok2 = not r2 and len(yields) == 1 and isinstance(yields[0], ast.YieldFrom) and is_self_attr(yields[0].value, _LIST_ATTR[0])
    else:
        Fit = fn_of(repo, it)

        def iter_of_storage(v: ast.AST | None, vn) -> bool:
            """iter(<the list>) / <the list>.__iter__() / iter(<fresh copy of the list>), the list possibly through a local."""
            if isinstance(v, ast.Call) and isinstance(v.func, ast.Attribute) and v.func.attr == "__iter__" and not v.args:
                return _self_attr_alias(Fit, vn, v.func.value) == _LIST_ATTR[0]
            if isinstance(v, ast.Call) and isinstance(v.func, ast.Attribute) and v.func.attr == "__iter__" and astq.is_name(v.func.value, "list") and len(v.args) == 1:
                return _self_attr_alias(Fit, vn, v.args[0]) == _LIST_ATTR[0]  # list.__iter__(self._list)
            if isinstance(v, ast.Call) and isinstance(v.func, ast.Name) and v.func.id == "iter" and len(v.args) == 1:
                a = v.args[0]
                return _self_attr_alias(Fit, vn, a) == _LIST_ATTR[0] or (lists_storage(a) and not astq.names_in(a) - {"self", "list", "iter"})
            return False

        ok2 = bool(r2) and all(iter_of_storage(v, vn) for r in r2 for v, vn in _expansions(Fit, Fit.node(r), r.value))
    via_iter = any(isinstance(x, ast.Name) and x.id == "self" and not isinstance(astq.parent(x), ast.Attribute) for x in walk_no_nested(twl.node))
    ok2 = ok2 or not via_iter
    ctx.ob("R5.2", "to_wsgi_list lists the stored pairs", ok1 and ok2, f"to_wsgi_list returns list(self): {ok1}; Headers.__iter__ returns iter(self._list): {ok2}", twl, twl.node, "to_wsgi_list is the storage")



# =====================================================================
# R5.3: body-less agreement (guard algebra over status x method)

STATUSES = range(100, 600)
METHODS = ("GET", "HEAD", "POST")
CL = {"content-length"}


def _must_be_bodyless(s: Sigma) -> bool:
    return s.method == "HEAD" or 100 <= s.status < 200 or s.status in (204, 304)


class _Subst(ast.NodeTransformer):
    """a helper's expression rewritten into the caller's terms: parameters -> argument expressions, single-assignment
    locals of a straight-line helper -> their values."""

    def __init__(self, env: dict[str, ast.AST], keep: set[str]):
        self.env, self.keep, self.unknown = env, keep, []  # type: ignore[var-annotated]

    def visit_Name(self, n: ast.Name) -> ast.AST:
        if n.id in self.env:
            return self.env[n.id]
        if n.id not in self.keep:
            self.unknown.append(n.id)
        return n

    def visit_Lambda(self, n: ast.Lambda) -> ast.AST:
        self.unknown.append("<lambda>")
        return n


def _detached_copy(x: ast.AST) -> ast.AST:
    """a deep copy of the expression alone.  copy.deepcopy would follow the `_parent` links (those of the shared
    Load/Store/operator singletons lead into arbitrary modules) and drag whole module trees along."""
    shared = (ast.expr_context, ast.operator, ast.boolop, ast.unaryop, ast.cmpop)

    def cp(n: t.Any, parent: t.Any) -> t.Any:
        if isinstance(n, ast.AST):
            if isinstance(n, shared):
                return n
            new = n.__class__()
            for k, v in n.__dict__.items():
                if k != "_parent":
                    new.__dict__[k] = cp(v, new)
            new._parent = parent  # type: ignore[attr-defined]
            return new
        if isinstance(n, list):
            return [cp(i_, parent) for i_ in n]
        return n

    return cp(x, getattr(x, "_parent", None))


def _wrapping_helper(F: Fn, e: ast.Call, depth: int) -> tuple[ast.AST | None, ast.AST | None] | None:
    """`self._wrap(X)` / `_wrap(X, self.close)` where the package helper's only return is `ClosingIterator(<param>, ...)`
    -> (X, CB) written in the caller's terms.  None when the callee is no such helper; AnalysisError when the callee does
    return a ClosingIterator but in a shape that cannot be carried over to the caller (never a finding)."""
    callee = callee_of(F, e)
    if callee is None or callee is F.fi or any(isinstance(x, (ast.Yield, ast.YieldFrom)) for x in walk_no_nested(callee.node)):
        return None
    Fq = fn_of(F.repo, callee)
    rets = astq.returns_of(callee.node)
    inner = []
    for r in rets:
        for v, vn in _expansions(Fq, Fq.node(r), r.value):
            inner.append((r, v, _closing_iterator_arg(Fq, v, depth + 1)))
    if not any(ca is not None for _, _, ca in inner):
        return None
    why = None
    body = [s_ for s_ in callee.node.body if not (isinstance(s_, ast.Expr) and isinstance(s_.value, ast.Constant))]  # type: ignore[attr-defined]
    if len(inner) != 1 or len(rets) != 1:
        why = f"{len(inner)} returned values"
    elif not all(isinstance(s_, (ast.Assign, ast.AnnAssign, ast.Return)) for s_ in body):
        why = "the helper is not straight-line code"
    if why is None:
        env: dict[str, ast.AST] = {}
        args = call_args(callee, e)
        ps = list(callee.params)
        is_method = callee.cls is not None and isinstance(e.func, ast.Attribute) and "staticmethod" not in callee.decorators
        a_ = callee.node.args  # type: ignore[attr-defined]
        pos = [*a_.posonlyargs, *a_.args]
        defaults: dict[str, ast.AST] = {p.arg: d for p, d in zip(pos[len(pos) - len(a_.defaults):], a_.defaults)}
        defaults.update({p.arg: d for p, d in zip(a_.kwonlyargs, a_.kw_defaults) if d is not None})
        keep: set[str] = set()
        for i, p in enumerate(ps):
            if i == 0 and is_method:
                if astq.is_name(e.func.value, "self") and p == "self":  # type: ignore[attr-defined]
                    keep.add(p)
                else:
                    env[p] = e.func.value  # type: ignore[attr-defined]
            elif p in args:
                env[p] = args[p]
            elif p in defaults and isinstance(defaults[p], ast.Constant):
                env[p] = defaults[p]
        if any(isinstance(a, ast.Starred) for a in e.args) or any(k.arg is None for k in e.keywords) or a_.vararg or a_.kwarg:
            why = "star arguments"
        keep |= set(callee.module.assigns) | set(getattr(callee.module, "imports", {}) or {})
        if ".<locals>." in callee.qualname:
            # a function defined inside the caller: its free names are the caller's own names, read when it is called
            bound = set(ps) | {d.name for n_ in Fq.cfg.nodes for d in Fq.rd.gen[n_.id]}
            keep |= {x.id for x in ast.walk(callee.node) if isinstance(x, ast.Name) and x.id not in bound}
        sub = _Subst(env, keep)
        for s_ in body:
            if why is not None or isinstance(s_, ast.Return):
                break
            tg = s_.targets[0] if isinstance(s_, ast.Assign) and len(s_.targets) == 1 else s_.target if isinstance(s_, ast.AnnAssign) else None
            if not isinstance(tg, ast.Name) or getattr(s_, "value", None) is None or tg.id in env or tg.id in ps:
                why = f"`{norm(s_)[:60]}` in the helper"
                break
            import copy as _copy
            env[tg.id] = sub.visit(_detached_copy(s_.value))
        if why is None:
            import copy as _copy
            x, cb = inner[0][2]  # type: ignore[misc]
            x2 = sub.visit(_detached_copy(x)) if x is not None else None
            cb2 = sub.visit(_detached_copy(cb)) if cb is not None else None
            unknown = [u for u in sub.unknown if u not in __builtins_names__]
            if not unknown:
                _saw(callee)
                return x2, cb2
            why = f"names {sorted(set(unknown))} of the helper have no meaning in the caller"
    raise AnalysisError(f"{F.fi.qualname}: `{norm(e)[:80]}` lands in {callee.qualname}, which returns a ClosingIterator, but its arguments cannot be carried over to the caller: {why} (shape not understood)")


__builtins_names__ = set(dir(__import__("builtins")))


def _closing_iterator_arg(F: Fn, e: ast.AST | None, depth: int = 0) -> tuple[ast.AST | None, ast.AST | None] | None:
    """`ClosingIterator(X, CB)` -> (X, CB), also through a private helper whose return is that call (X, CB then in the
    caller's terms); None when e is not that call."""
    if isinstance(e, ast.Call) and (F.call_fq(e) or "").endswith("wsgi.ClosingIterator"):
        x = astq.arg_or_kw(e, 0, "iterable")
        cb = astq.arg_or_kw(e, 1, "callbacks")
        return x, cb
    if isinstance(e, ast.Call) and depth < 2:
        return _wrapping_helper(F, e, depth)
    return None


def _body_leaves(F: Fn, G: GuardEval, s: Sigma, reach: set[int], at, e: ast.AST | None, depth: int = 0) -> list[ast.AST | None]:
    """the expressions the served body `e` (evaluated in node at) can stand for under valuation s: conditional expressions
    are decided by s where s decides them, the ClosingIterator wrapper is stripped, locals are replaced by the bindings
    that can reach the use under s."""
    if e is None or depth > 8:
        return [e]
    if isinstance(e, ast.IfExp):
        c = G.truth(e.test, at, s)
        out: list[ast.AST | None] = []
        if c is not False:
            out += _body_leaves(F, G, s, reach, at, e.body, depth + 1)
        if c is not True:
            out += _body_leaves(F, G, s, reach, at, e.orelse, depth + 1)
        return out
    if isinstance(e, ast.Call) and norm(e.func).endswith("cast") and len(e.args) == 2:
        return _body_leaves(F, G, s, reach, at, e.args[1], depth + 1)
    ca = _closing_iterator_arg(F, e)
    if ca is not None and ca[0] is not None:
        return _body_leaves(F, G, s, reach, at, ca[0], depth + 1)
    if isinstance(e, ast.Name):
        ds = list(F.rd.reaching(at, e.id))
        out = []
        for d in ds:
            if d.node is None or d.kind not in ("assign", "walrus") or d.index is not None:
                out.append(None)
                continue
            if d.node.id not in reach:
                continue
            others = [o.node for o in ds if o is not d and o.node is not None]
            if at.id in G.reach(s, d.node, avoid_nodes=others):
                out += _body_leaves(F, G, s, reach, d.node, d.value, depth + 1)
        return out
    return [e]


def _r53(ctx: Ctx) -> None:
    repo = ctx.repo
    resp = _resp(ctx)
    gai = method(repo, resp, "get_app_iter")
    F = fn_of(repo, gai)
    G = GuardEval(F)
    if not G.evaluable:
        raise AnalysisError("get_app_iter: no branch atom over status / request method found (slot: the decision moved elsewhere)")
    rets = [(F.node(r), r) for r in astq.returns_of(gai.node)]
    groups: dict[str, list[Sigma]] = {"HEAD": [], "1xx": [], "204": [], "304": [], "other statuses, GET/POST": []}
    for st in STATUSES:
        for m in METHODS:
            s = Sigma(st, m)
            g = "HEAD" if m == "HEAD" else "1xx" if st < 200 else "204" if st == 204 else "304" if st == 304 else "other statuses, GET/POST"
            groups[g].append(s)
    verdict: dict[Sigma, tuple[bool, bool]] = {}  # (every reachable return is empty, every reachable return carries the body)
    for ss in groups.values():
        for s in ss:
            reach = G.reach(s)
            all_empty = all_full = True
            n = 0
            for rn, r in rets:
                if rn.id not in reach:
                    continue
                n += 1
                for v in _body_leaves(F, G, s, reach, rn, r.value):
                    if is_empty_literal(v):
                        all_full = False
                    else:
                        all_empty = False
            verdict[s] = (all_empty and n > 0, all_full and n > 0)
    for g, ss in groups.items():
        want_empty = g != "other statuses, GET/POST"
        bad = [s for s in ss if not (verdict[s][0] if want_empty else verdict[s][1])]
        ex = f"; e.g. status {bad[0].status} {bad[0].method}" if bad else ""
        ctx.ob("R5.3", f"get_app_iter: {g}: the body is {'empty' if want_empty else 'the response body'} on every path", not bad,
               f"{len(ss)} status x method combinations evaluated over the branch atoms {sorted(norm(n.ast) for n in F.cfg.nodes if n.id in G.evaluable)}; {len(bad)} where a reachable return {'is not the empty iterable' if want_empty else 'is an empty iterable'}{ex}",
               gai, gai.node, f"body suppression {g}")

    gwh = method(repo, resp, "get_wsgi_headers")
    Fh = fn_of(repo, gwh)
    Gh = GuardEval(Fh)
    hnames = {r.value.id for r in astq.returns_of(gwh.node) if isinstance(r.value, ast.Name)}
    st_sites, rm_sites = _header_sites(Fh, hnames, CL)
    stores = [Fh.node(x.node) for x in st_sites if not x.via]
    removes = [Fh.node(x.node) for x in rm_sites if not x.via]
    ctx.floor("R5.3", "Content-Length stores + removals in get_wsgi_headers", len(st_sites) + len(rm_sites), 2)
    cfg = Fh.cfg
    # stores / removals that live in a helper the headers object is handed to: the call statement stands for them, under
    # the conditions the helper itself imposes (evaluated with the arguments bound)
    by_call: dict[int, tuple[t.Any, ast.Call, list[_Site], list[_Site]]] = {}
    for x, is_store in [*[(x, True) for x in st_sites], *[(x, False) for x in rm_sites]]:
        if x.via:
            c = x.via[0][1]
            ent = by_call.setdefault(id(c), (Fh.node(c), c, [], []))
            (ent[2] if is_store else ent[3]).append(x)

    n_atoms = len(Gh.evaluable) + sum(len(g_.evaluable) for g_ in (Gh.sub(c, cn) for cn, c, _, _ in by_call.values()) if g_ is not None)
    if not n_atoms:
        raise AnalysisError("get_wsgi_headers: no branch atom over the status found, neither in the function nor in the helpers that touch Content-Length (slot)")

    ctx.floor("R5.3", "status/method atoms in get_app_iter + get_wsgi_headers", len(G.evaluable) + n_atoms, 2)

    def effects(s: Sigma) -> tuple[list[t.Any], list[t.Any]]:
        ss, rr = list(stores), list(removes)
        for cn, c, sts, rms in by_call.values():
            g = Gh.sub(c, cn)
            deep = g is None or any(len(x.via) > 1 for x in sts + rms)
            if sts and (deep or any(g.F.node(x.node).id in g.reach(s) for x in sts)):
                ss.append(cn)
            if rms and not deep and g.F.cfg.exit.id not in g.reach(s, avoid_nodes=[g.F.node(x.node) for x in rms]):
                rr.append(cn)
        return ss, rr

    kept, computed = [], []
    for st in STATUSES:
        s = Sigma(st, "GET")
        reach = Gh.reach(s)
        ss, rr = effects(s)
        if st < 200 or st == 204:
            if cfg.exit.id in Gh.reach(s, avoid_nodes=rr):
                kept.append(st)
            if any(x.id in reach and cfg.exit.id in Gh.reach(s, x, avoid_nodes=[r_ for r_ in rr if r_ is not x]) for x in ss):
                computed.append(st)
        elif st == 304:
            if any(x.id in reach for x in ss):
                computed.append(st)
    removes = removes + [ent[0] for ent in by_call.values() if ent[3]]
    stores = stores + [ent[0] for ent in by_call.values() if ent[2]]
    ctx.ob("R5.3", "get_wsgi_headers: 1xx / 204: a Content-Length is removed on every path", not kept,
           f"removal statements: {[norm(n.ast) for n in removes]}; statuses with a path to the return that skips them: {_ranges(kept)}", gwh, removes[0].ast if removes else gwh.node, "content-length removed for 1xx/204")
    ctx.ob("R5.3", "get_wsgi_headers: 1xx / 204 / 304: no Content-Length is computed", not computed,
           f"Content-Length stores: {[norm(n.ast) for n in stores]}; statuses under which one is reachable (and survives): {_ranges(computed)}", gwh, stores[0].ast if stores else gwh.node, "no automatic content-length for 1xx/204/304")


def _ranges(xs: list[int]) -> str:
    if not xs:
        return "none"
    out, lo, prev = [], xs[0], xs[0]
    for x in xs[1:] + [None]:  # type: ignore[list-item]
        if x is not None and x == prev + 1:
            prev = x
            continue
        out.append(str(lo) if lo == prev else f"{lo}-{prev}")
        if x is not None:
            lo = prev = x
    return ", ".join(out)



# =====================================================================
# R5.4: computed lengths measure encoded bytes


class _Len:
    """provenance evaluator for `a length measured over bytes` inside the Response classes."""

    def __init__(self, ctx: Ctx, resp: ClassInfo):
        self.ctx = ctx
        self.repo = ctx.repo
        self.resp = resp
        self.writers = self._response_writers()

    # -- which methods (re)bind self.response ------------------------------
    def _response_writers(self) -> set[str]:
        meths: dict[str, FuncInfo] = {}
        for k in reversed(self.repo.mro(self.resp)):
            if isinstance(k, ClassInfo):
                meths.update({n: f for n, f in k.methods.items() if "." not in n})
        direct = set()
        calls: dict[str, set[str]] = {}
        for name, fi in meths.items():
            calls[name] = {c.func.attr for c in astq.calls(fi.node, nested=False) if isinstance(c.func, ast.Attribute) and astq.is_name(c.func.value, "self")}
            for n in walk_no_nested(fi.node):
                tg = n.targets if isinstance(n, ast.Assign) else [n.target] if isinstance(n, (ast.AugAssign, ast.AnnAssign)) else []
                if any(is_self_attr(x, "response") or (isinstance(x, (ast.Tuple, ast.List)) and any(is_self_attr(y, "response") for y in x.elts)) for x in tg):
                    direct.add(name)
        out = set(direct)
        changed = True
        while changed:
            changed = False
            for name, cs in calls.items():
                if name not in out and cs & out:
                    out.add(name)
                    changed = True
        return out

    # -- bytes-typed single values ------------------------------------------
    def bytes_value(self, F: Fn, at, e: ast.AST | None, depth: int = 0) -> tuple[bool, str]:
        if e is None or depth > 14:
            return False, "unknown value"
        if isinstance(e, ast.Constant) and isinstance(e.value, bytes):
            return True, "bytes literal"
        if isinstance(e, ast.Call) and isinstance(e.func, ast.Attribute) and e.func.attr == "encode":
            return True, ".encode() result"
        if isinstance(e, ast.Call) and norm(e.func).endswith("cast") and len(e.args) == 2:
            return self.bytes_value(F, at, e.args[1], depth + 1)
        if isinstance(e, ast.Call) and callee_of(F, e) is not None and callee_of(F, e) is not F.fi:
            # one level of helper extraction: every return of the helper is bytes (its parameters judged inside it by
            # the isinstance tests it makes, a declared `bytes | str` value that is not a str being bytes)
            callee = callee_of(F, e)
            assert callee is not None
            rets = astq.returns_of(callee.node)
            if rets and not any(isinstance(x, (ast.Yield, ast.YieldFrom)) for x in walk_no_nested(callee.node)):
                Fc = fn_of(self.repo, callee)
                whys = []
                for r in rets:
                    ok, why = self.bytes_value(Fc, Fc.node(r), r.value, depth + 2)
                    if not ok:
                        return False, f"{callee.qualname}: `{norm(r)}`: {why}"
                    whys.append(why)
                self.ctx.saw(callee)
                return True, f"{callee.qualname}() -> " + " | ".join(sorted(set(whys)))
        if isinstance(e, ast.Call) and isinstance(e.func, ast.Attribute) and e.func.attr == "join" and isinstance(e.func.value, ast.Constant) and isinstance(e.func.value.value, bytes) and len(e.args) == 1:
            ok, why = self.bytes_iterable(F, at, e.args[0], depth + 1)
            return ok, f"bytes join over {why}"
        if isinstance(e, ast.IfExp):
            test, yes, no = e.test, e.body, e.orelse
            while isinstance(test, ast.UnaryOp) and isinstance(test.op, ast.Not):
                test, yes, no = test.operand, no, yes
            ia = isinstance_atom(test)
            if ia is not None and isinstance(ia[0], ast.Name) and ia[1] == {"str"} and astq.is_name(no, ia[0].id):
                # `x.encode() if isinstance(x, str) else x`: the declared `bytes | str` value that is not a str is bytes
                a = self.bytes_value(F, at, yes, depth + 1)
                return a[0], f"{a[1]} where `{ia[0].id}` is a str, else `{ia[0].id}` itself"
            if ia is not None and isinstance(ia[0], ast.Name) and ia[1] <= {"bytes", "bytearray", "memoryview"} and astq.is_name(yes, ia[0].id):
                b_ = self.bytes_value(F, at, no, depth + 1)
                return b_[0], f"`{ia[0].id}` itself where it is bytes, else {b_[1]}"
            a = self.bytes_value(F, at, yes, depth + 1)
            b_ = self.bytes_value(F, at, no, depth + 1)
            return a[0] and b_[0], (f"{a[1]} / {b_[1]}" if a[0] and b_[0] else b_[1] if a[0] else a[1])
        if isinstance(e, ast.Name):
            bs = bindings(F, at, e)
            if not bs:
                return False, f"`{e.id}` has no local binding"
            enc_nodes = [b.node for b in bs if b.kind == "value" and b.node is not None and isinstance(b.expr, ast.Call) and isinstance(b.expr.func, ast.Attribute) and b.expr.func.attr == "encode"]
            for b in bs:
                taken = b.kind == "value" and b.path == () and b.node is not None and isinstance(b.expr, ast.Call) and isinstance(b.expr.func, ast.Name) and b.expr.func.id == "next" and len(b.expr.args) >= 1
                if taken and self.bytes_iterable(F, b.node, b.expr.args[0], depth + 1)[0]:
                    pass  # an item taken from an encoded iterable
                elif taken:
                    # `item = next(it)`: an item as it comes (declared `bytes | str`): bytes once it is known not to be a str
                    safe = []
                    for t_ in F.cfg.tests():
                        ia = isinstance_atom(t_.ast) if t_.kind == "test" else None
                        if ia and isinstance(ia[0], ast.Name) and ia[0].id == e.id:
                            if ia[1] == {"str"}:
                                safe.append((t_, "F"))
                            elif ia[1] <= {"bytes", "bytearray", "memoryview"}:
                                safe.append((t_, "T"))
                    start = [s_ for s_, l_ in b.node.succs if l_ != "exc"]
                    if at.id in F.cfg.reach(start, avoid_nodes=[x for x in enc_nodes if x is not at] + [b.node], avoid_edges=safe):
                        return False, f"`{e.id}` (taken with next()) can still be the unencoded str here"
                elif b.kind == "value" and b.path == () and b.node is not None:
                    ok, why = self.bytes_value(F, b.node, b.expr, depth + 1)
                    if not ok:
                        return False, f"`{e.id}` <- {why}"
                elif b.kind == "iter" and b.path == () and b.node is not None and self.bytes_iterable(F, b.node, b.expr, depth + 1)[0]:
                    pass  # an item of an encoded iterable
                elif b.kind == "iter" and bound_in_enclosing_comp(e, stop=F.fi.node) is not None:
                    return False, f"`{e.id}` is an item of `{norm(b.expr) if b.expr is not None else '?'}`, taken as it comes (a str item stays a str)"
                elif b.kind in ("param", "iter") and b.path in ((), None):
                    # a declared `bytes | str` item: bytes once it is known not to be a str
                    safe = []
                    for t in F.cfg.tests():
                        ia = isinstance_atom(t.ast) if t.kind == "test" else None
                        if ia and isinstance(ia[0], ast.Name) and ia[0].id == e.id:
                            if ia[1] == {"str"}:
                                safe.append((t, "F"))
                            elif ia[1] <= {"bytes", "bytearray", "memoryview"}:
                                safe.append((t, "T"))
                    start = None if b.kind == "param" else F.cfg.succ(b.node, "T") if b.node is not None else None
                    leak = at.id in F.cfg.reach(start, avoid_nodes=enc_nodes, avoid_edges=safe)
                    if leak:
                        return False, f"`{e.id}` can still be the unencoded str here (no isinstance(.., str) test or .encode() rebinding on some path)"
                else:
                    return False, f"`{e.id}` is bound to `{norm(b.expr) if b.expr is not None else b.kind}`"
            return True, f"`{e.id}` is bytes on every path (encoded, or not a str)"
        return False, f"`{norm(e)}` is not known to be bytes"

    # -- iterables of bytes -----------------------------------------------
    def encoded_list(self, F: Fn, at, e: ast.AST | None, depth: int = 0) -> tuple[bool, str]:
        if isinstance(e, ast.Call) and isinstance(e.func, ast.Name) and e.func.id in ("list", "tuple") and len(e.args) == 1:
            return self.bytes_iterable(F, at, e.args[0], depth + 1)
        if isinstance(e, (ast.List, ast.Tuple)) and e.elts:
            for x in e.elts:
                ok, why = self.bytes_value(F, at, x, depth + 1)
                if not ok:
                    return False, why
            return True, "list of bytes"
        if isinstance(e, (ast.ListComp, ast.GeneratorExp)):
            return self.bytes_value(F, at, e.elt, depth + 1)
        return False, f"`{norm(e) if e is not None else None}` is not an encoded list"

    def bytes_iterable(self, F: Fn, at, e: ast.AST | None, depth: int = 0) -> tuple[bool, str]:
        if e is None or depth > 14:
            return False, "unknown iterable"
        if _self_call(e, "iter_encoded"):
            return True, "self.iter_encoded()"
        if is_self_attr(e, "response"):
            return self.response_encoded_at(F, at)
        if isinstance(e, ast.Call) and isinstance(e.func, ast.Name) and e.func.id in ("list", "tuple", "iter") and len(e.args) == 1:
            return self.bytes_iterable(F, at, e.args[0], depth + 1)
        if isinstance(e, (ast.List, ast.Tuple, ast.ListComp, ast.GeneratorExp)):
            return self.encoded_list(F, at, e, depth + 1)
        if isinstance(e, ast.Name):
            bs = bindings(F, at, e)
            if not bs:
                return False, f"`{e.id}` has no local binding"
            for b in bs:
                if b.kind == "param":
                    ok, why = _param_from_callers(F, e.id, self.bytes_iterable, depth)
                    if not ok:
                        return False, why
                    continue
                if not (b.kind == "value" and b.path == () and b.node is not None):
                    return False, f"`{e.id}` is bound to `{norm(b.expr) if b.expr is not None else b.kind}`"
                ok, why = self.bytes_iterable(F, b.node, b.expr, depth + 1)
                if not ok:
                    return False, f"`{e.id}` <- {why}"
            return True, f"`{e.id}` is an encoded iterable"
        return False, f"`{norm(e)}` is not the encoded body (iter_encoded(), or self.response right after it was replaced by its encoded copy)"

    def response_encoded_at(self, F: Fn, at) -> tuple[bool, str]:
        """self.response, read in node `at`, is the list of encoded items: a dominating `self.response = <encoded list>`
        with no other writer of self.response in between."""
        cfg = F.cfg
        assigns = [n for n in cfg.nodes if isinstance(n.ast, (ast.Assign, ast.AnnAssign)) and any(is_self_attr(x, "response") for x in (n.ast.targets if isinstance(n.ast, ast.Assign) else [n.ast.target]))]
        wcalls = []
        for c in astq.calls(F.fi.node, nested=False):
            if isinstance(c.func, ast.Attribute) and astq.is_name(c.func.value, "self") and c.func.attr in self.writers:
                n = cfg.node_of(c)
                if n is not None:
                    wcalls.append(n)
        for a in assigns:
            ok, why = self.encoded_list(F, a, a.ast.value)
            if not ok or not cfg.node_dominates(a, at) or a is at:
                continue
            others = [w for w in assigns + wcalls if w is not a]
            after = cfg.reach(cfg.succ(a, None))
            inter = [w for w in others if w.id in after and at.id in cfg.reach(w, avoid_nodes=[a]) and w is not at]
            if not inter:
                return True, f"self.response was bound to `{norm(a.ast.value)}` (L{a.lineno}) on every path here and not rebound since"
        return False, "`self.response` holds the raw items here (str items are counted in characters): no dominating `self.response = list(self.iter_encoded())` without a later rebinding"

    # -- lengths ------------------------------------------------------------
    def length(self, F: Fn, at, e: ast.AST | None, depth: int = 0) -> tuple[bool, str]:
        if e is None or depth > 14:
            return False, "unknown length"
        if isinstance(e, ast.Call) and isinstance(e.func, ast.Name) and e.func.id in ("str", "int") and len(e.args) == 1:
            return self.length(F, at, e.args[0], depth + 1)
        # the number written out by other means than str(): f"{n}", "%d" % n, "{}".format(n), format(n)
        if isinstance(e, ast.JoinedStr) and len(e.values) == 1 and isinstance(e.values[0], ast.FormattedValue) and e.values[0].format_spec is None and e.values[0].conversion in (-1, 115):
            return self.length(F, at, e.values[0].value, depth + 1)
        if isinstance(e, ast.BinOp) and isinstance(e.op, ast.Mod) and isinstance(e.left, ast.Constant) and e.left.value in ("%d", "%s", "%i"):
            inner = e.right.elts[0] if isinstance(e.right, ast.Tuple) and len(e.right.elts) == 1 else e.right
            return self.length(F, at, inner, depth + 1)
        if isinstance(e, ast.Call) and isinstance(e.func, ast.Attribute) and e.func.attr == "format" and isinstance(e.func.value, ast.Constant) and e.func.value.value in ("{}", "{0}", "{:d}", "{0:d}") and len(e.args) == 1 and not e.keywords:
            return self.length(F, at, e.args[0], depth + 1)
        if isinstance(e, ast.Call) and isinstance(e.func, ast.Name) and e.func.id == "format" and len(e.args) == 1:
            return self.length(F, at, e.args[0], depth + 1)
        if isinstance(e, ast.Call) and isinstance(e.func, ast.Name) and e.func.id == "len" and len(e.args) == 1:
            ok, why = self.bytes_value(F, at, e.args[0], depth + 1)
            return ok, f"len of {why}"
        if isinstance(e, ast.Call) and isinstance(e.func, ast.Name) and e.func.id == "sum" and e.args:
            a = e.args[0]
            if isinstance(a, ast.Call) and isinstance(a.func, ast.Name) and a.func.id == "map" and len(a.args) == 2 and astq.is_name(a.args[0], "len"):
                ok, why = self.bytes_iterable(F, at, a.args[1], depth + 1)
                return ok, f"sum of len over {why}"
            if isinstance(a, (ast.GeneratorExp, ast.ListComp)) and len(a.generators) == 1 and isinstance(a.elt, ast.Call) and isinstance(a.elt.func, ast.Name) and a.elt.func.id == "len" and len(a.elt.args) == 1 and isinstance(a.generators[0].target, ast.Name) and astq.is_name(a.elt.args[0], a.generators[0].target.id):
                ok, why = self.bytes_iterable(F, at, a.generators[0].iter, depth + 1)
                return ok, f"sum of len over {why}"
            return False, f"`{norm(e)}`: not a sum of item lengths"
        if isinstance(e, ast.IfExp):
            if astq.is_none(e.orelse) and not astq.is_none(e.body):
                return self.length(F, at, e.body, depth + 1)  # `<length> if available else None`
            if astq.is_none(e.body) and not astq.is_none(e.orelse):
                return self.length(F, at, e.orelse, depth + 1)
            a = self.length(F, at, e.body, depth + 1)
            b_ = self.length(F, at, e.orelse, depth + 1)
            return a[0] and b_[0], (f"{a[1]} / {b_[1]}" if a[0] and b_[0] else b_[1] if a[0] else a[1])
        if isinstance(e, ast.Call) and norm(e.func).endswith("cast") and len(e.args) == 2:
            return self.length(F, at, e.args[1], depth + 1)
        if isinstance(e, ast.Call) and callee_of(F, e) is not None and callee_of(F, e) is not F.fi:
            callee = callee_of(F, e)
            assert callee is not None
            self.ctx.saw(callee)
            Fc = fn_of(self.repo, callee)
            rets = astq.returns_of(callee.node)
            if not rets:
                return False, f"{callee.qualname} returns nothing"
            whys = []
            for r in rets:
                if r.value is None or astq.is_none(r.value):
                    continue
                ok, why = self.length(Fc, Fc.node(r), r.value, depth + 1)
                if not ok:
                    return False, f"{callee.qualname}: `{norm(r)}`: {why}"
                whys.append(why)
            return bool(whys), f"{callee.qualname}() -> " + "; ".join(whys)
        if isinstance(e, ast.BinOp) and isinstance(e.op, ast.Sub):
            return self.range_length(F, at, e)
        if isinstance(e, ast.Name):
            ds = F.rd.reaching(at, e.id)
            if ds and any(d.kind == "aug" for d in ds) and bound_in_enclosing_comp(e, stop=F.fi.node) is None:
                # an accumulation loop: `n = 0` ... `n += len(item)`
                whys = set()
                for d in ds:
                    if d.kind == "assign" and d.index is None and isinstance(d.value, ast.Constant) and d.value.value == 0:
                        continue
                    if d.kind == "aug" and isinstance(d.stmt, ast.AugAssign) and isinstance(d.stmt.op, ast.Add) and d.node is not None:
                        ok, why = self.length(F, d.node, d.value, depth + 1)
                        if not ok:
                            return False, f"`{norm(d.stmt)}`: {why}"
                        whys.add(why)
                        continue
                    return False, f"`{e.id}` is bound to `{norm(d.value) if d.value is not None else d.kind}` (not a computed length)"
                return True, "accumulated " + "; ".join(sorted(whys))
            bs = bindings(F, at, e)
            if not bs:
                return False, f"`{e.id}` has no local binding"
            whys = set()
            for b in bs:
                if b.kind == "param":
                    ok, why = _param_from_callers(F, e.id, lambda Fo, cn, a, d_: self.length(Fo, cn, a, d_), depth)
                    if not ok:
                        return False, why
                    whys.add(why)
                    continue
                if not (b.kind == "value" and b.path == () and b.node is not None):
                    return False, f"`{e.id}` is bound to `{norm(b.expr) if b.expr is not None else b.kind}` (not a computed length)"
                if astq.is_none(b.expr) and any(b2.expr is not None and not astq.is_none(b2.expr) for b2 in bs):
                    continue  # "no length available" next to a computed one (the single-exit form of `return None`)
                ok, why = self.length(F, b.node, b.expr, depth + 1)
                if not ok:
                    return False, f"`{e.id}` <- {why}"
                whys.add(why)
            return True, "; ".join(sorted(whys))
        return False, f"`{norm(e)}` is not a length measured over encoded bytes"

    def range_length(self, F: Fn, at, e: ast.BinOp) -> tuple[bool, str]:
        """stop - start of the tuple returned by range_for_length (indexed or unpacked), to be matched with what the
        range wrapper is built from."""
        l, r = _range_elem(F, at, e.left), _range_elem(F, at, e.right)
        if l is None or r is None or l[0] != r[0] or (l[1], r[1]) != (1, 0):
            return False, f"`{norm(e)}` is not stop - start of one tuple returned by Range.range_for_length(..)"
        return True, f"RANGE:{l[0]}"


def _range_whole(F: Fn, at, e: ast.AST | None, depth: int = 0) -> int | None:
    """identity of the range_for_length(..) call whose result e is."""
    if e is None or depth > 4:
        return None
    if isinstance(e, ast.Call) and isinstance(e.func, ast.Attribute) and e.func.attr == "range_for_length":
        return id(e)
    if isinstance(e, ast.Name):
        bs = bindings(F, at, e)
        got = set()
        for b in bs:
            if b.kind == "value" and b.path == () and b.node is not None:
                got.add(_range_whole(F, b.node, b.expr, depth + 1))
            elif b.kind == "value" and len(b.path) == 1 and b.node is not None and callee_of(F, b.expr) is not None:
                # unpacked from the pair a helper returns: that item of every returned tuple (None = "no range")
                callee = callee_of(F, b.expr)
                Fq = fn_of(F.repo, callee)
                for r in astq.returns_of(callee.node):
                    v = r.value
                    if isinstance(v, ast.Tuple) and b.path[0] < len(v.elts) and not any(isinstance(x, ast.Starred) for x in v.elts):
                        if astq.is_none(v.elts[b.path[0]]):
                            continue
                        got.add(_range_whole(Fq, Fq.node(r), v.elts[b.path[0]], depth + 1))
                    else:
                        got.add(None)
            else:
                got.add(None)
        if len(got) == 1:
            return got.pop()
    return None


def _range_elem(F: Fn, at, e: ast.AST | None, depth: int = 0) -> tuple[int, int] | None:
    """(range_for_length call, index) when e is element 0 / 1 of its result: `t[i]`, or a local unpacked from it."""
    if e is None or depth > 4:
        return None
    if isinstance(e, ast.Subscript) and isinstance(e.slice, ast.Constant) and e.slice.value in (0, 1):
        w = _range_whole(F, at, e.value)
        return (w, e.slice.value) if w is not None else None
    if isinstance(e, ast.Name):
        bs = bindings(F, at, e)
        got = set()
        for b in bs:
            if b.kind != "value" or b.node is None:
                return None
            if len(b.path) == 1 and b.path[0] in (0, 1):
                w = _range_whole(F, b.node, b.expr)
                got.add((w, b.path[0]) if w is not None else None)
            elif b.path == ():
                got.add(_range_elem(F, b.node, b.expr, depth + 1))
            else:
                return None
        if len(got) == 1:
            return got.pop()
    return None


def _range_len(L: _Len, F: Fn, at, e: ast.AST | None, depth: int = 0) -> int | None:
    """identity of the range_for_length call when e is its stop - start (directly or through locals)."""
    if e is None or depth > 4:
        return None
    if isinstance(e, ast.BinOp) and isinstance(e.op, ast.Sub):
        ok, why = L.range_length(F, at, e)
        return int(why.split("RANGE:", 1)[1]) if ok else None
    if isinstance(e, ast.Name):
        bs = bindings(F, at, e)
        got = {_range_len(L, F, b.node, b.expr, depth + 1) if b.kind == "value" and b.path == () and b.node is not None else None for b in bs}
        if len(got) == 1:
            return got.pop()
    return None


def _cl_store_sites(ctx: Ctx, resp: ClassInfo) -> list[tuple[FuncInfo, ast.AST, ast.AST]]:
    out = []
    seen = set()
    for k in ctx.repo.mro(resp):
        if not isinstance(k, ClassInfo):
            continue
        for name, fi in k.methods.items():
            if id(fi.node) in seen:
                continue
            seen.add(id(fi.node))
            for n, h, key, v in header_stores(fi.node, CL):
                out.append((fi, n, v))
            for n in walk_no_nested(fi.node):
                if isinstance(n, ast.Assign) and any(is_self_attr(x, "content_length") for x in n.targets):
                    out.append((fi, n, n.value))
    return out


def _r54(ctx: Ctx) -> None:
    repo = ctx.repo
    resp = _resp(ctx)
    L = _Len(ctx, resp)
    sites = _cl_store_sites(ctx, resp)
    ctx.floor("R5.4", "Content-Length stores in the Response classes", len(sites), 3)  # 5 today; stores may be merged into a helper
    for fi, site, v in sites:
        F = fn_of(repo, fi)
        at = F.node(site)
        ok, why = L.length(F, at, v)
        extra = ""
        if ok and "RANGE:" in why:
            ok, extra = _range_feeds_wrapper(ctx, L, F, at, site, v, int(why.split("RANGE:", 1)[1].split(";")[0]))
            why = "stop - start of the tuple returned by range_for_length"
        ctx.ob("R5.4", f"{fi.qualname}: `{norm(site)[:80]}` stores a length measured over bytes", ok, why + extra, fi, site, f"content-length {norm(site)}")
    # set_data: the measured value is the body
    sd = method(repo, resp, "set_data")
    Fs = fn_of(repo, sd)
    for fi, site, v in sites:
        if fi is not sd:
            continue
        bodies = [n for n in Fs.cfg.nodes if isinstance(n.ast, ast.Assign) and any(is_self_attr(x, "response") for x in n.ast.targets)]
        ok = len(bodies) == 1
        fact = f"{len(bodies)} body assignment(s)"
        if ok:
            b = bodies[0]
            sn_ = Fs.node(site)
            # what is measured: the local inside len(..), or the local list handed to a length helper / sum
            measured = [x for x in ast.walk(v) if isinstance(x, ast.Name) and isinstance(x.ctx, ast.Load) and Fs.rd.reaching(sn_, x.id)]
            # what is stored: [x] of that local, or that local list itself (a one-item list of encoded bytes)
            bv = b.ast.value
            stored = [bv.elts[0].id] if isinstance(bv, (ast.List, ast.Tuple)) and len(bv.elts) == 1 and isinstance(bv.elts[0], ast.Name) else [bv.id] if isinstance(bv, ast.Name) else []
            names = [x.id for x in measured if x.id in stored]
            same = bool(names) and all(same_binding(Fs, b, sn_, nm) for nm in names) and len({x.id for x in measured}) == 1
            ok = same
            fact = f"body `{norm(b.ast)}` stores `{stored}`, the length is taken over `{sorted({x.id for x in measured})}`; the same binding at both places: {same}"
        ctx.ob("R5.4", "set_data: the measured bytes are the stored body", ok, fact, sd, site, "set_data measures the body")
    # the encoder and the stream handed to the server
    ie = method(repo, resp, "iter_encoded")
    Fi = fn_of(repo, ie)
    rets = astq.returns_of(ie.node)
    enc_fi = None
    ok = bool(rets)
    for r in rets:
        c = r.value
        fq = Fi.call_fq(c) if isinstance(c, ast.Call) else None
        f2 = repo.try_func(fq) if fq and fq.startswith("werkzeug.") else None
        if f2 is None or not (isinstance(c, ast.Call) and len(c.args) == 1 and is_self_attr(c.args[0], "response")):
            ok = False
        else:
            enc_fi = f2
    ctx.ob("R5.4", "iter_encoded encodes self.response", ok, f"returns {[norm(r.value) for r in rets if r.value is not None]}", ie, ie.node, "iter_encoded source")
    if enc_fi is not None:
        ctx.saw(enc_fi)
        Fe = fn_of(repo, enc_fi)
        ys = [n for n in walk_no_nested(enc_fi.node) if isinstance(n, ast.Yield)]
        yfs = [n for n in walk_no_nested(enc_fi.node) if isinstance(n, ast.YieldFrom)]
        # the encoder written as a generator function (yield per item, or `yield from` a lazy mapping of the items), or as a
        # function returning a generator expression / map over the items
        streams: list[tuple[ast.AST, ast.AST | None]] = [(y, y.value) for y in yfs]
        if not ys and not yfs:
            streams += [(r, v) for r in astq.returns_of(enc_fi.node) for v, _ in _expansions(Fe, Fe.node(r), r.value)]
        ctx.floor("R5.4", "yields of the encoder", len(ys) + len(streams), 1)
        for y in ys:
            okv, why = L.bytes_value(Fe, Fe.node(y), y.value)
            g = _gtext(Fe, Fe.node(y))
            ctx.ob("R5.4", f"{enc_fi.qualname}: `{norm(y)}` yields bytes", okv, f"{why}; under {g}", enc_fi, y, f"encoder yield {norm(y)} under {g}")
        for holder, v in streams:
            hn = Fe.node(holder)
            if isinstance(v, (ast.GeneratorExp, ast.ListComp)):
                okv, why = L.bytes_value(Fe, hn, v.elt)
                whole = len(v.generators) == 1 and not v.generators[0].ifs and isinstance(v.generators[0].iter, ast.Name) and v.generators[0].iter.id in enc_fi.params
                ctx.ob("R5.4", f"{enc_fi.qualname}: `{norm(v)[:70]}` produces bytes for every item", okv and whole, f"{why}; one unfiltered pass over the parameter: {whole}", enc_fi, holder, f"encoder items {norm(v.elt)}")
            elif isinstance(v, ast.Call) and isinstance(v.func, ast.Name) and v.func.id == "map" and len(v.args) == 2:
                # map(f, items): f is a package helper that returns bytes for its (declared `bytes | str`) argument
                fcall = ast.Call(func=v.args[0], args=[ast.Name(id="_item", ctx=ast.Load())], keywords=[])
                okv, why = L.bytes_value(Fe, hn, fcall) if callee_of(Fe, fcall) is not None else (False, f"`{norm(v.args[0])}` is not a function of the package")
                whole = isinstance(v.args[1], ast.Name) and v.args[1].id in enc_fi.params
                ctx.ob("R5.4", f"{enc_fi.qualname}: `{norm(v)[:70]}` produces bytes for every item", okv and whole, f"{why}; one pass over the parameter: {whole}", enc_fi, holder, f"encoder items {norm(v)}")
            else:
                ctx.ob("R5.4", f"{enc_fi.qualname}: `{norm(holder)[:70]}` produces bytes for every item", False, "neither a generator expression nor a map over the items", enc_fi, holder, f"encoder stream {norm(holder)}")
    gai = method(repo, resp, "get_app_iter")
    Fg = fn_of(repo, gai)
    n_body = 0
    for r in astq.returns_of(gai.node):
        for v, vn in _expansions(Fg, Fg.node(r), r.value):
            ca = _closing_iterator_arg(Fg, v)
            if ca is None or ca[0] is None:
                continue
            for ex, _ in _expansions(Fg, vn, ca[0]):
                if ex is None or is_empty_literal(ex):
                    continue
                n_body += 1
                ctx.ob("R5.4", "the body handed to the server is the measured encoded stream", _self_call(ex, "iter_encoded"), f"wrapped iterable `{norm(ex)}`", gai, r, f"served body {norm(ex)}")
    ctx.floor("R5.4", "non-empty bodies wrapped by get_app_iter", n_body, 1)


def _status_established(cfg, wn, t_, lab: str) -> tuple[bool, str] | None:
    """the guard (t_, lab) says `self.status_code == K`; is `self.status_code = K` established before node wn?
    None when the guard is no such test."""
    if t_.kind != "test":
        return None
    cp = astq.cmp_parts(t_.ast)
    # `self.status_code == 206` holding on the way to the wrapping: the true edge of ==, or the false edge of !=
    if cp and isinstance(cp[1], (ast.Eq, ast.NotEq)) and (is_self_attr(cp[2], "status_code") and isinstance(cp[0], ast.Constant)):
        cp = (cp[2], cp[1], cp[0])
    if cp and isinstance(cp[1], (ast.Eq, ast.NotEq)) and (lab == "T") == isinstance(cp[1], ast.Eq) and is_self_attr(cp[0], "status_code") and isinstance(cp[2], ast.Constant):
        sets = [n for n in cfg.nodes if isinstance(n.ast, ast.Assign) and any(is_self_attr(x, "status_code") for x in n.ast.targets) and isinstance(n.ast.value, ast.Constant) and n.ast.value.value == cp[2].value]
        g = any(cfg.node_dominates(n, wn) and not any(o is not n and isinstance(o.ast, ast.Assign) and any(is_self_attr(x, "status_code") or is_self_attr(x, "status") for x in o.ast.targets) and o.id in cfg.reach(n) and wn.id in cfg.reach(o) for o in cfg.nodes) for n in sets)
        return g, f"; wrapper applies only when `{norm(t_.ast)}`, established before: {g}"
    return None


def _range_feeds_wrapper(ctx: Ctx, L: _Len, F: Fn, at, site: ast.AST, v: ast.AST, base: int) -> tuple[bool, str]:
    """the announced range length and the range start are what the body wrapper is built with, on every path after the store."""
    repo = ctx.repo
    cfg = F.cfg
    # (a) the wrapper is built right here: self.response = _RangeWrapper(self.response, start, length)
    direct = []
    for n in cfg.nodes:
        if isinstance(n.ast, ast.Assign) and any(is_self_attr(x, "response") for x in n.ast.targets) and isinstance(n.ast.value, ast.Call) and (F.call_fq(n.ast.value) or "").endswith("_RangeWrapper"):
            direct.append(n)
    if direct:
        if len(direct) != 1:
            return False, f"; {len(direct)} places build a _RangeWrapper"
        wn = direct[0]
        bc = wn.ast.value
        a_body, a_start, a_len = (astq.arg_or_kw(bc, 0, "iterable"), astq.arg_or_kw(bc, 1, "start_byte"), astq.arg_or_kw(bc, 2, "byte_range"))
        fwd = is_self_attr(a_body, "response") and _range_elem(F, wn, a_start) == (base, 0) and _range_len(L, F, wn, a_len) == base
        always = cfg.exit.id not in cfg.reach(at, avoid_nodes=[wn]) or cfg.node_dominates(wn, at)
        guard_ok, gfact = True, ""
        here = {(t_.id, lab) for t_, lab in cfg.guards(at)}
        for t_, lab in cfg.guards(wn):
            if (t_.id, lab) in here:
                continue  # a condition of the store as well
            r_ = _status_established(cfg, wn, t_, lab)
            if r_ is None:
                if t_.kind == "test":
                    guard_ok, gfact = False, f"; wrapping is conditional on `{norm(t_.ast)}`:{lab}"
            else:
                guard_ok, gfact = guard_ok and r_[0], r_[1]
        return fwd and always and guard_ok, f"; `{norm(wn.ast)[:80]}` is built from the same start and length: {fwd}, on every path after the store: {always}{gfact}"
    # (b) through a wrapper method that is handed start and length
    wraps = []
    for c in astq.calls(F.fi.node, nested=False):
        if isinstance(c.func, ast.Attribute) and astq.is_name(c.func.value, "self") and len(c.args) == 2 and not c.keywords:
            cn = cfg.node_of(c)
            if cn is not None and _range_elem(F, cn, c.args[0]) == (base, 0):
                wraps.append(c)
    if len(wraps) != 1:
        return False, f"; {len(wraps)} call(s) passing the start of that range and a length to a wrapper method"
    w = wraps[0]
    wn = F.node(w)
    same_len = _range_len(L, F, wn, w.args[1]) == base
    always = cfg.exit.id not in cfg.reach(at, avoid_nodes=[wn]) or cfg.node_dominates(wn, at)
    callee = method(repo, L.resp, w.func.attr)  # type: ignore[union-attr]
    ctx.saw(callee)
    Fw = fn_of(repo, callee)
    ps = callee.params
    built = [n for n in Fw.cfg.nodes if isinstance(n.ast, ast.Assign) and any(is_self_attr(x, "response") for x in n.ast.targets)]
    fwd = False
    guard_ok = True
    gfact = ""
    if len(built) == 1 and isinstance(built[0].ast.value, ast.Call) and len(ps) >= 3:
        bc = built[0].ast.value
        fwd = (Fw.call_fq(bc) or "").endswith("_RangeWrapper") and len(bc.args) == 3 and is_self_attr(bc.args[0], "response") and astq.is_name(bc.args[1], ps[1]) and astq.is_name(bc.args[2], ps[2])
        # a status test around the wrapping must have been satisfied by the caller before the call
        for t_, lab in Fw.cfg.guards(built[0]):
            if t_.kind != "test":
                continue
            r_ = _status_established(cfg, wn, t_, lab)
            if r_ is None:
                guard_ok = False
                gfact = f"; wrapping is conditional on `{norm(t_.ast)}`:{lab}"
            else:
                guard_ok, gfact = guard_ok and r_[0], r_[1]
    ok = same_len and always and fwd and guard_ok
    return ok, f"; `{norm(w)}` gets the same start and length: {same_len}, on every path after the store: {always}; {callee.qualname} builds _RangeWrapper(self.response, start, length) from them: {fwd}{gfact}"



def _gtext(F: Fn, node) -> list[str]:
    """dominating branch edges of a node, as stable text."""
    return sorted(f"{t.text() if t.kind == 'loop' else norm(t.ast)}:{l}" for t, l in F.cfg.guards(node))


# =====================================================================
# R5.5: Location is a URI

IRI_TO_URI = "werkzeug.urls.iri_to_uri"
URLJOIN = "urllib.parse.urljoin"


def _uri_ok(F: Fn, at, e: ast.AST | None, depth: int = 0, env: dict[str, tuple[bool, str]] | None = None) -> tuple[bool, str]:
    """e is a URI: iri_to_uri(..), urljoin of URIs, or a local / helper result that is one on every path.  `env` gives the
    verdict for parameters of a followed helper (judged at the call site)."""
    if e is None or depth > 8:
        return False, "unknown value"
    if isinstance(e, ast.NamedExpr):
        return _uri_ok(F, at, e.value, depth + 1, env)
    if isinstance(e, ast.IfExp):
        a = _uri_ok(F, at, e.body, depth + 1, env)
        b = _uri_ok(F, at, e.orelse, depth + 1, env)
        return a[0] and b[0], (f"{a[1]} | {b[1]}" if a[0] and b[0] else b[1] if a[0] else a[1])
    if isinstance(e, ast.Call):
        fq = F.call_fq(e)
        if fq == IRI_TO_URI:
            return True, "iri_to_uri(..)"
        if fq == URLJOIN and len(e.args) == 2:
            a = _uri_ok(F, at, e.args[0], depth + 1, env)
            b = _uri_ok(F, at, e.args[1], depth + 1, env)
            return a[0] and b[0], f"urljoin({a[1]}, {b[1]})"
        if norm(e.func).endswith("cast") and len(e.args) == 2:
            return _uri_ok(F, at, e.args[1], depth + 1, env)
        callee = callee_of(F, e)
        if callee is not None and callee is not F.fi and not any(isinstance(x, (ast.Yield, ast.YieldFrom)) for x in walk_no_nested(callee.node)):
            # one level of helper extraction: every return of the helper is a URI, its parameters judged by what is passed here
            rets = astq.returns_of(callee.node)
            if rets:
                Fc = fn_of(F.repo, callee)
                sub = {p: _uri_ok(F, at, a, depth + 1, env) for p, a in call_args(callee, e).items()}
                whys = set()
                for r in rets:
                    ok, why = _uri_ok(Fc, Fc.node(r), r.value, depth + 2, sub)
                    if not ok:
                        return False, f"{callee.qualname}: `{norm(r)}`: {why}"
                    whys.add(why)
                _saw(callee)
                return True, f"{callee.qualname}() -> " + " | ".join(sorted(whys))
        return False, f"`{norm(e)[:50]}` is neither iri_to_uri nor urljoin of URIs"
    if isinstance(e, ast.Name):
        bs = bindings(F, at, e)
        if not bs:
            return False, f"`{e.id}` has no local binding"
        whys = set()
        for b in bs:
            if b.kind == "param" and env is not None and e.id in env:
                ok, why = env[e.id]
                if not ok:
                    return False, f"parameter `{e.id}` <- {why}"
                whys.add(why)
                continue
            if not (b.kind == "value" and b.path == () and b.node is not None):
                return False, f"`{e.id}` can be `{norm(b.expr) if b.expr is not None else b.kind}` here (the raw header value: bound by `{'for' if b.kind == 'iter' else b.kind}`)"
            ok, why = _uri_ok(F, b.node, b.expr, depth + 1, env)
            if not ok:
                return False, f"`{e.id}` <- {why}"
            whys.add(why)
        return True, " | ".join(sorted(whys))
    return False, f"`{norm(e)[:50]}` is not converted with iri_to_uri"


class _Site(t.NamedTuple):
    F: Fn  # function that contains the statement
    node: ast.AST  # the store / removal statement or call
    key: str
    value: ast.AST | None
    via: tuple[tuple[Fn, ast.Call], ...]  # the chain of calls (outermost first) that hands the headers object down


def _header_sites(F: Fn, hnames: set[str], keys: set[str], via: tuple[tuple[Fn, ast.Call], ...] = ()) -> tuple[list[_Site], list[_Site]]:
    """stores and removals of the given header keys on the headers object held by the locals `hnames`: in the function
    itself and in the package helpers the object is passed to (two levels)."""
    stores = [_Site(F, n, k, v, via) for n, h, k, v in header_stores(F.fi.node, keys) if isinstance(h, ast.Name) and h.id in hnames]
    removals = [_Site(F, n, k, None, via) for n, h, k in header_removals(F.fi.node, keys) if isinstance(h, ast.Name) and h.id in hnames]
    if len(via) < 2:
        for c in astq.calls(F.fi.node, nested=False):
            if not any(isinstance(a, ast.Name) and a.id in hnames for a in [*c.args, *[k.value for k in c.keywords]]):
                continue
            callee = callee_of(F, c)
            if callee is None or callee is F.fi or any(callee is f.fi for f, _ in via):
                continue
            inner = {p for p, a in call_args(callee, c).items() if isinstance(a, ast.Name) and a.id in hnames}
            if not inner:
                continue
            st, rm = _header_sites(fn_of(F.repo, callee), inner, keys, via + ((F, c),))
            if st or rm:
                _saw(callee)
            stores += st
            removals += rm
    return stores, removals


def _site_env(site: _Site, check) -> dict[str, tuple[bool, str]] | None:
    """verdicts for the parameters of the helper that contains the site, judged along the chain of calls."""
    env: dict[str, tuple[bool, str]] | None = None
    callee_F = None
    for i, (Fo, c) in enumerate(site.via):
        callee_F = site.via[i + 1][0] if i + 1 < len(site.via) else site.F
        env = {p: check(Fo, Fo.node(c), a, 1, env) for p, a in call_args(callee_F.fi, c).items()}
    return env


def _r55(ctx: Ctx) -> None:
    repo = ctx.repo
    resp = _resp(ctx)
    gwh = method(repo, resp, "get_wsgi_headers")
    F = fn_of(repo, gwh)
    hnames = {r.value.id for r in astq.returns_of(gwh.node) if isinstance(r.value, ast.Name)}
    keys = {"location", "content-location"}
    sites, _ = _header_sites(F, hnames, keys)
    ctx.floor("R5.5", "Location / Content-Location stores in get_wsgi_headers", len({s_.key for s_ in sites}), 2)
    for site in sites:
        Fs, n, k, v = site.F, site.node, site.key, site.value
        at = Fs.node(n)
        ok, why = _uri_ok(Fs, at, v, 0, _site_env(site, _uri_ok))
        ctx.ob("R5.5", f"`{norm(n)}` stores a URI", ok, f"value provenance: {why}", Fs.fi, n, f"uri stored {norm(n)}")
    # presence: on every path of the function on which the header value exists, one of the stores of that key happens
    groups: dict[tuple[int, str], list[_Site]] = {}
    for site in sites:
        groups.setdefault((id(site.F), site.key), []).append(site)
    for (_, k), grp in groups.items():
        Fs = grp[0].F
        nodes = [Fs.node(x.node) for x in grp]
        # the locals the stored values are made from (followed through their bindings): a None test on one of them is the
        # presence test of the header
        names: set[str] = set()
        work = [(Fs.node(x.node), x.value) for x in grp]
        seen_b = set()
        while work:
            at_, e_ = work.pop()
            for nm in [n_ for n_ in ast.walk(e_) if isinstance(n_, ast.Name) and isinstance(n_.ctx, ast.Load)] if e_ is not None else []:
                if (at_.id, nm.id) in seen_b:
                    continue
                seen_b.add((at_.id, nm.id))
                if Fs.rd.reaching(at_, nm.id):
                    names.add(nm.id)
                for b in bindings(Fs, at_, nm):
                    if b.kind == "value" and b.node is not None and b.expr is not None and len(seen_b) < 200:
                        work.append((b.node, b.expr))
        absent = []
        for tn in Fs.cfg.tests():
            nt = none_test(tn.ast) if tn.kind == "test" else None
            if nt is not None and isinstance(nt[0], ast.Name) and nt[0].id in names:
                absent.append((tn, "F" if nt[1] == "T" else "T"))
        skipped = Fs.cfg.exit.id in Fs.cfg.reach(avoid_nodes=nodes, avoid_edges=absent)
        cond = []
        if skipped:
            p_ = Fs.cfg.path(Fs.cfg.entry, Fs.cfg.exit, avoid_nodes=nodes, avoid_edges=absent)
            cond.append("a path on which the value exists reaches the end without the store: " + Fs.cfg.fmt_path(p_ or [])[-300:])
        # a helper that holds the store must itself be reached whenever the value exists
        for Fo, c in grp[0].via:
            for tn, lab in Fo.cfg.guards(Fo.node(c)):
                if tn.kind != "test":
                    continue
                nt = none_test(tn.ast)
                if nt is None or nt[1] != lab or not isinstance(nt[0], ast.Name):
                    cond.append(f"{norm(tn.ast)}:{lab}")
        n0 = grp[0].node
        ctx.ob("R5.5", f"the {k} store happens whenever the header is present", not cond, f"conditions other than presence of the header value: {cond}" if cond else f"stores {[norm(x.node) for x in grp]}; presence tests on {sorted(names)}", Fs.fi, n0, f"uri store unconditional {k}")


# =====================================================================
# R5.6: close chaining


def _self_attr_iterated(F: Fn, at, e: ast.AST | None, depth: int = 0, env: dict[str, str] | None = None) -> str | None:
    """`self.<attr>` that e iterates in its own order: the attribute, list/tuple/iter of it, or a local alias of these
    (env: parameters of a followed helper that receive such an attribute at the call)."""
    if e is None or depth > 4:
        return None
    if isinstance(e, ast.Attribute) and astq.is_name(e.value, "self"):
        return e.attr
    if isinstance(e, ast.Call) and isinstance(e.func, ast.Name) and e.func.id in ("list", "tuple", "iter") and len(e.args) == 1 and not e.keywords:
        return _self_attr_iterated(F, at, e.args[0], depth + 1, env)
    # copies in the same order: `xs[:]`, `xs.copy()`, `[*xs]`
    if isinstance(e, ast.Subscript) and isinstance(e.slice, ast.Slice) and e.slice.lower is None and e.slice.upper is None and e.slice.step is None:
        return _self_attr_iterated(F, at, e.value, depth + 1, env)
    if isinstance(e, ast.Call) and isinstance(e.func, ast.Attribute) and e.func.attr == "copy" and not e.args and not e.keywords:
        return _self_attr_iterated(F, at, e.func.value, depth + 1, env)
    if isinstance(e, (ast.List, ast.Tuple)) and len(e.elts) == 1 and isinstance(e.elts[0], ast.Starred):
        return _self_attr_iterated(F, at, e.elts[0].value, depth + 1, env)
    if isinstance(e, ast.Name):
        bs = bindings(F, at, e)
        got = {(env or {}).get(e.id) if b.kind == "param" else _self_attr_iterated(F, b.node, b.expr, depth + 1, env) if b.kind == "value" and b.path == () and b.node is not None else None for b in bs}
        if len(got) == 1:
            return got.pop()
    return None


def _appends_item(c: ast.Call, ident: str, F: Fn | None = None) -> bool:
    """`xs.append(ident)` / `xs.extend([ident])` / `xs.insert(len(xs), ident)`: the call adds exactly that parameter (or a
    local that is a plain alias of it) at the end."""
    f = c.func
    if not isinstance(f, ast.Attribute) or c.keywords:
        return False

    def it(x: ast.AST, depth: int = 0) -> bool:
        if not isinstance(x, ast.Name):
            return False
        if F is None:
            return x.id == ident
        cn = F.cfg.node_of(c)
        bs = bindings(F, cn, x) if cn is not None else []

        def root(F_: Fn, b, d_: int) -> bool:
            if b.kind == "param":
                return d_ == 0 and x.id == ident or d_ > 0
            return False

        if x.id == ident and bs and all(b.kind == "param" for b in bs):
            return True
        # a plain alias chain down to the parameter
        cur, at_, n_ = x, cn, 0
        while n_ < 4 and at_ is not None:
            bs = bindings(F, at_, cur)
            if bs and all(b.kind == "param" for b in bs):
                return cur.id == ident
            if len(bs) == 1 and bs[0].kind == "value" and bs[0].path == () and isinstance(bs[0].expr, ast.Name):
                cur, at_, n_ = bs[0].expr, bs[0].node, n_ + 1
                continue
            return False
        return False

    if f.attr == "append" and len(c.args) == 1:
        return it(c.args[0])
    if f.attr == "extend" and len(c.args) == 1 and isinstance(c.args[0], (ast.List, ast.Tuple)) and len(c.args[0].elts) == 1:
        return it(c.args[0].elts[0])
    if f.attr == "insert" and len(c.args) == 2 and isinstance(c.args[0], ast.Call) and isinstance(c.args[0].func, ast.Name) and c.args[0].func.id == "len" and len(c.args[0].args) == 1 and norm(c.args[0].args[0]) == norm(f.value):
        return it(c.args[1])
    return False


def _self_attr_alias(F: Fn, at, e: ast.AST | None, depth: int = 0) -> str | None:
    """`self.<attr>` itself or a local that is bound to it (the same object, so in-place changes reach the attribute)."""
    if e is None or depth > 4:
        return None
    if isinstance(e, ast.Attribute) and astq.is_name(e.value, "self"):
        return e.attr
    if isinstance(e, ast.Name):
        bs = bindings(F, at, e)
        got = {_self_attr_alias(F, b.node, b.expr, depth + 1) if b.kind == "value" and b.path == () and b.node is not None else None for b in bs}
        if len(got) == 1:
            return got.pop()
    return None


def _unconditional_helpers(F: Fn) -> list[tuple[Fn, dict[str, str]]]:
    """(helper, {parameter: attr of self it receives}) for the package helpers that F calls on every normal path (one
    level of extraction)."""
    out = []
    for c in astq.calls(F.fi.node, nested=False):
        callee = callee_of(F, c)
        cn = F.cfg.node_of(c)
        if callee is None or callee is F.fi or cn is None:
            continue
        if F.cfg.exit.id not in F.cfg.reach(avoid_nodes=[cn]):
            _saw(callee)
            env = {p_: a_ for p_, a_ in ((p_, _self_attr_iterated(F, cn, x)) for p_, x in call_args(callee, c).items()) if a_ is not None}
            out.append((fn_of(F.repo, callee), env))
    return out


def _body_close_ref(Fr: Fn, at_, x: ast.AST | None, depth: int = 0) -> bool:
    """x is the close attribute of self.response (read directly, through getattr, or through a local holding it)."""
    if isinstance(x, ast.NamedExpr):
        x = x.value
    if isinstance(x, ast.Attribute) and x.attr == "close" and _self_attr_alias(Fr, at_, x.value) == "response":
        return True
    if isinstance(x, ast.Call) and isinstance(x.func, ast.Name) and x.func.id == "getattr" and len(x.args) >= 2 and _self_attr_alias(Fr, at_, x.args[0]) == "response" and astq.const_str(x.args[1]) == "close":
        return True
    if isinstance(x, ast.Name) and depth < 4:
        bs = bindings(Fr, at_, x)
        return bool(bs) and all(b.kind == "value" and b.path == () and b.node is not None and _body_close_ref(Fr, b.node, b.expr, depth + 1) for b in bs)
    return False


def _closes_body(Fr: Fn) -> tuple[bool, str, ast.AST | None]:
    """every normal path of the function calls the close of self.response, unless the body has none."""

    def body_close(at_, x: ast.AST | None, depth: int = 0) -> bool:
        return _body_close_ref(Fr, at_, x, depth)

    bc = []
    for c in astq.calls(Fr.fi.node, nested=False):
        cn = Fr.cfg.node_of(c)
        if cn is not None and not c.args and not c.keywords and body_close(cn, c.func):
            bc.append(cn)
    # a generator of functions to call (`yield self.response.close`): the yield stands for the call when the function is
    # consumed by a loop that calls every item (checked by the caller through _generator_consumers)
    for y in walk_no_nested(Fr.fi.node):
        if isinstance(y, ast.Yield) and y.value is not None:
            yn = Fr.cfg.node_of(y)
            if yn is not None and body_close(yn, y.value):
                bc.append(yn)
    gone = []
    for tn in Fr.cfg.tests():
        if tn.kind != "test":
            continue
        e = tn.ast
        if isinstance(e, ast.Name):
            # the condition was computed into a local first: `closable = hasattr(self.response, "close")`
            bs = bindings(Fr, tn, e)
            if len(bs) == 1 and bs[0].kind == "value" and bs[0].path == () and isinstance(bs[0].expr, ast.Call) and isinstance(bs[0].expr.func, ast.Name) and bs[0].expr.func.id in ("hasattr", "callable"):
                e = bs[0].expr
        if isinstance(e, ast.Call) and isinstance(e.func, ast.Name) and e.func.id == "hasattr" and len(e.args) == 2 and _self_attr_alias(Fr, tn, e.args[0]) == "response" and astq.const_str(e.args[1]) == "close":
            gone.append((tn, "F"))
        elif isinstance(e, ast.Call) and isinstance(e.func, ast.Name) and e.func.id == "callable" and len(e.args) == 1 and body_close(tn, e.args[0]):
            gone.append((tn, "F"))
        else:
            nt = none_test(e)
            if nt is not None and body_close(tn, nt[0]):
                gone.append((tn, "F" if nt[1] == "T" else "T"))
    skipping = Fr.cfg.exit.id in Fr.cfg.reach(avoid_nodes=bc, avoid_edges=gone)
    return (bool(bc) and not skipping,
            f"{len(bc)} call(s) of the close of self.response; a normal path skips them although the body has a close: {skipping} (edges on which it has none: {[norm(tn.ast) + ':' + lab for tn, lab in gone]})",
            bc[0].ast if bc else None)


def _generator_consumers(F: Fn) -> list[tuple[t.Any, Fn]]:
    """(loop node, generator helper) for the `for f in self._gen(): f()` loops of F over a package generator function."""
    out = []
    for n in F.cfg.nodes:
        if n.kind == "loop" and isinstance(n.ast, ast.For) and isinstance(n.ast.target, ast.Name) and isinstance(n.ast.iter, ast.Call):
            callee = callee_of(F, n.ast.iter)
            if callee is not None and callee is not F.fi and any(isinstance(x, (ast.Yield, ast.YieldFrom)) for x in walk_no_nested(callee.node)):
                tgt = n.ast.target.id
                if any(isinstance(c.func, ast.Name) and c.func.id == tgt for s_ in n.ast.body for c in astq.calls(s_, nested=False)):
                    _saw(callee)
                    out.append((n, fn_of(F.repo, callee)))
    return out


def _call_loops(F: Fn, env: dict[str, str] | None = None) -> list[tuple[t.Any, str]]:
    """(loop node, attr) for every `for f in <self.attr>: ... f() ...` loop of the function."""
    out = []
    for n, G in _generator_consumers(F):
        # the loop runs over a generator helper: what that yields from (on each of its normal paths) is what is called
        for y in walk_no_nested(G.fi.node):
            if isinstance(y, ast.YieldFrom):
                yn = G.cfg.node_of(y)
                attr = _self_attr_iterated(G, yn, y.value) if yn is not None else None
                if attr is not None and G.cfg.exit.id not in G.cfg.reach(avoid_nodes=[yn]):
                    out.append((n, attr))
    for n in F.cfg.nodes:
        if n.kind == "join" and isinstance(n.ast, ast.While):
            m_ = _next_loop_attr(F, n, env)
            if m_ is not None:
                out.append((n, m_[0]))
    for n in F.cfg.nodes:
        if n.kind == "loop" and isinstance(n.ast, ast.For):
            fe = _for_entry(F, n, env)
            if fe is not None and any(fe[1](c) for s_ in n.ast.body for c in astq.calls(s_, nested=False)):
                out.append((n, fe[0]))
        elif n.kind == "join" and isinstance(n.ast, ast.While):
            m_ = _index_loop_attr(F, n, env)
            if m_ is not None:
                out.append((n, m_[0]))
    return out


def _for_entry(F: Fn, n, env: dict[str, str] | None):
    """a `for` loop that visits the entries of self.<attr> once each, in order: (attr, is_entry_call) where
    is_entry_call(call) says that the call invokes the entry of the current iteration.  Shapes: `for f in XS`,
    `for i, f in enumerate(XS)`, `for i in range(len(XS))` with the entry read as `XS[i]` (XS the attribute, a copy or a
    local alias of it; the entry possibly taken into a local in the body first)."""
    L = n.ast
    tg, it = L.target, L.iter
    if isinstance(tg, ast.Name):
        attr = _self_attr_iterated(F, n, it, 0, env)
        if attr is not None:
            return attr, (lambda c, f=tg.id: isinstance(c.func, ast.Name) and c.func.id == f)
    is_call = isinstance(it, ast.Call) and isinstance(it.func, ast.Name) and not it.keywords
    if is_call and it.func.id == "enumerate" and len(it.args) == 1 and isinstance(tg, ast.Tuple) and len(tg.elts) == 2 and isinstance(tg.elts[1], ast.Name):
        attr = _self_attr_iterated(F, n, it.args[0], 0, env)
        if attr is not None:
            return attr, (lambda c, f=tg.elts[1].id: isinstance(c.func, ast.Name) and c.func.id == f)
    if is_call and it.func.id == "range" and isinstance(tg, ast.Name):
        a = list(it.args)
        partial = None

        def const_int(x: ast.AST, v: int) -> bool:
            return isinstance(x, ast.Constant) and type(x.value) is int and x.value == v

        if len(a) == 3:
            if not const_int(a[2], 1):
                partial = f"step `{norm(a[2])}`"
            a = a[:2]
        if len(a) == 2:
            if not const_int(a[0], 0):
                partial = f"start `{norm(a[0])}`"
            a = a[1:]
        if len(a) == 1 and isinstance(a[0], ast.Call) and isinstance(a[0].func, ast.Name) and a[0].func.id == "len" and len(a[0].args) == 1:
            attr = _self_attr_iterated(F, n, a[0].args[0], 0, env)
            idx = tg.id
            if attr is None:
                return None
            if partial is not None:
                return attr, (lambda c: True), f"the index does not run over every entry ({partial})"
            stores_idx = [x for s_ in L.body for x in [s_, *walk_no_nested(s_)] if isinstance(x, ast.Name) and x.id == idx and isinstance(x.ctx, ast.Store)]
            if stores_idx:
                return None

            def entry(e: ast.AST | None) -> bool:
                if not (isinstance(e, ast.Subscript) and astq.is_name(e.slice, idx)):
                    return False
                cn = F.cfg.node_of(e)
                return _self_attr_iterated(F, cn if cn is not None else n, e.value, 0, env) == attr

            def is_entry_call(c: ast.Call) -> bool:
                f = c.func
                if entry(f):
                    return True
                if isinstance(f, ast.Name):
                    cn = F.cfg.node_of(c)
                    bs = bindings(F, cn, f) if cn is not None else []
                    return len(bs) == 1 and bs[0].kind == "value" and bs[0].path == () and entry(bs[0].expr) and any(bs[0].node is F.cfg.node_of(s_) for s_ in L.body)
                return False

            return attr, is_entry_call
    return None


def _next_loop_attr(F: Fn, head, env: dict[str, str] | None) -> tuple[str, bool, str] | None:
    """`it = iter(xs)` ... `while (f := next(it, END)) is not END: f()`: (attribute of self that xs is, the loop calls every
    entry once and has no other way out, why not); None when the loop is not of that kind."""
    W = head.ast
    t_ = W.test
    body = list(W.body)
    if isinstance(t_, ast.Constant) and t_.value is True and len(body) >= 2:
        # `while True: f = next(it, END)` / `if f is END: break` / ... : the same loop with the test spelled in the body
        st0, st1 = body[0], body[1]
        tgt0 = st0.targets[0] if isinstance(st0, ast.Assign) and len(st0.targets) == 1 else None
        if isinstance(tgt0, ast.Name) and isinstance(st1, ast.If) and not st1.orelse and len(st1.body) == 1 and isinstance(st1.body[0], ast.Break):
            c1 = st1.test
            if isinstance(c1, ast.Compare) and len(c1.ops) == 1 and isinstance(c1.ops[0], ast.Is) and astq.is_name(c1.left, tgt0.id):
                t_ = ast.Compare(left=ast.NamedExpr(target=tgt0, value=st0.value), ops=[ast.IsNot()], comparators=[c1.comparators[0]])
                body = body[2:]
    if isinstance(t_, ast.Constant) and t_.value is True and body and isinstance(body[0], ast.Try):
        # `while True:` / `try: f = next(it)` / `except StopIteration: break` / ... : exhaustion spelled as the exception
        tr = body[0]
        st0 = tr.body[0] if len(tr.body) == 1 else None
        tgt0 = st0.targets[0] if isinstance(st0, ast.Assign) and len(st0.targets) == 1 else None
        h = tr.handlers[0] if len(tr.handlers) == 1 else None
        if (isinstance(tgt0, ast.Name) and h is not None and not tr.orelse and not tr.finalbody and (dotted(h.type) or "").rsplit(".", 1)[-1] == "StopIteration"
                and len(h.body) == 1 and isinstance(h.body[0], ast.Break) and isinstance(st0.value, ast.Call) and astq.is_name(st0.value.func, "next") and len(st0.value.args) == 1 and not st0.value.keywords):
            end_ = ast.Name(id="<exhausted>", ctx=ast.Load())
            t_ = ast.Compare(left=ast.NamedExpr(target=tgt0, value=ast.Call(func=st0.value.func, args=[st0.value.args[0], end_], keywords=[])), ops=[ast.IsNot()], comparators=[end_])
            body = body[1:]
    if not (isinstance(t_, ast.Compare) and len(t_.ops) == 1 and isinstance(t_.ops[0], ast.IsNot) and isinstance(t_.left, ast.NamedExpr) and isinstance(t_.left.target, ast.Name)):
        return None
    f, v, end = t_.left.target.id, t_.left.value, t_.comparators[0]
    if not (isinstance(v, ast.Call) and isinstance(v.func, ast.Name) and v.func.id == "next" and len(v.args) == 2 and norm(v.args[1]) == norm(end) and isinstance(v.args[0], ast.Name)):
        return None
    attr = _self_attr_iterated(F, head, v.args[0], 0, env)  # iter(self.attr) bound to the local before the loop
    if attr is None:
        return None
    exits = [norm(x) for s_ in body for x in [s_, *walk_no_nested(s_)] if isinstance(x, (ast.Break, ast.Return, ast.Raise, ast.Continue))]
    if exits or W.orelse:
        return attr, False, f"early exits in the loop: {exits}"
    if any(isinstance(x, ast.Name) and x.id in (f, v.args[0].id) and isinstance(x.ctx, ast.Store) for s_ in body for x in [s_, *walk_no_nested(s_)]):
        return attr, False, "the entry or the iterator is rebound in the loop"
    if any(isinstance(s_, ast.Expr) and isinstance(s_.value, ast.Call) and astq.is_name(s_.value.func, f) and not s_.value.args and not s_.value.keywords for s_ in body):
        return attr, True, ""
    return attr, False, "the entry is not called in every iteration"


def _index_loop_attr(F: Fn, head, env: dict[str, str] | None) -> tuple[str, bool, str] | None:
    """`i = 0` ... `while i < len(xs): xs[i]() ; i += 1` (the entry possibly taken into a local first): (attribute of self
    that xs is, the loop calls every entry once in order and has no other way out, why not); None for other loops."""
    W = head.ast
    cp = astq.cmp_parts(W.test)
    if cp is None:
        return None
    l, op, r = cp
    if isinstance(op, ast.Gt):
        l, op, r = r, ast.Lt(), l
    if not (isinstance(op, (ast.Lt, ast.NotEq)) and isinstance(l, ast.Name) and isinstance(r, ast.Call) and isinstance(r.func, ast.Name) and r.func.id == "len" and len(r.args) == 1):
        return None
    idx, xs = l.id, r.args[0]
    attr = _self_attr_iterated(F, head, xs, 0, env)
    if attr is None:
        return None
    body = list(W.body)
    exits = [norm(x) for s_ in body for x in [s_, *walk_no_nested(s_)] if isinstance(x, (ast.Break, ast.Return, ast.Raise, ast.Continue))]
    if exits or W.orelse:
        return attr, False, f"early exits in the loop: {exits}"
    # the index: starts at 0 before the loop, is advanced by one exactly once per iteration, at the top level of the body
    steps = [k for k, s_ in enumerate(body) if isinstance(s_, ast.AugAssign) and astq.is_name(s_.target, idx) and isinstance(s_.op, ast.Add) and isinstance(s_.value, ast.Constant) and s_.value.value == 1]
    others = [x for s_ in body for x in [s_, *walk_no_nested(s_)] if isinstance(x, ast.Name) and x.id == idx and isinstance(x.ctx, ast.Store)]
    if len(steps) != 1 or len(others) != 1:
        return attr, False, f"`{idx}` is not advanced by exactly one, once per iteration"
    ds = F.rd.reaching(head, idx)
    outside = [d for d in ds if d.kind != "aug"]
    if not outside or not all(d.kind == "assign" and d.index is None and isinstance(d.value, ast.Constant) and d.value.value == 0 and type(d.value.value) is int for d in outside):
        return attr, False, f"`{idx}` does not start at 0"

    def entry(e: ast.AST | None) -> bool:
        return isinstance(e, ast.Subscript) and astq.is_name(e.slice, idx) and norm(e.value) == norm(xs)

    # the entry is read before the index moves on, and called at the top level of the body
    for k, s_ in enumerate(body):
        if isinstance(s_, ast.Expr) and isinstance(s_.value, ast.Call) and not s_.value.args and not s_.value.keywords:
            f = s_.value.func
            if entry(f) and k < steps[0]:
                return attr, True, ""
            if isinstance(f, ast.Name):
                reads = [j for j, s2 in enumerate(body) if isinstance(s2, ast.Assign) and len(s2.targets) == 1 and astq.is_name(s2.targets[0], f.id) and entry(s2.value)]
                stores = [x for s2 in body for x in [s2, *walk_no_nested(s2)] if isinstance(x, ast.Name) and x.id == f.id and isinstance(x.ctx, ast.Store)]
                if len(reads) == 1 and len(stores) == 1 and reads[0] < steps[0] and reads[0] < k:
                    return attr, True, ""
    return attr, False, "the entry at the index is not called in every iteration before the index moves on"



def _expansions(F: Fn, at, e: ast.AST | None, depth: int = 0, names: bool = True) -> list[tuple[ast.AST | None, t.Any]]:
    """the expressions a returned / passed value can stand for: conditional expressions are split, casts stripped, a
    local is replaced by its plain bindings (each with the CFG node that evaluates it)."""
    if isinstance(e, ast.IfExp) and depth < 6:
        return _expansions(F, at, e.body, depth + 1, names) + _expansions(F, at, e.orelse, depth + 1, names)
    if isinstance(e, ast.Call) and norm(e.func).endswith("cast") and len(e.args) == 2 and depth < 6:
        return _expansions(F, at, e.args[1], depth + 1, names)
    if isinstance(e, ast.Name) and depth < 6 and names:
        bs = bindings(F, at, e)
        if bs and all(b.kind == "value" and b.path == () and b.node is not None and b.expr is not None for b in bs):
            out: list[tuple[ast.AST | None, t.Any]] = []
            for b in bs:
                out += _expansions(F, b.node, b.expr, depth + 1)
            return out
    return [(e, at)]


def _ifexp_conditions(F: Fn, at, e: ast.AST | None, leaf: ast.AST | None, depth: int = 0) -> list[tuple[ast.AST, bool, t.Any]] | None:
    """the tests of the conditional expressions (with the side taken and the node that evaluates them) under which the
    expansion `leaf` of e is the value; None when leaf is not among the expansions of e."""
    if e is leaf:
        return []
    if depth > 6 or e is None:
        return None
    if isinstance(e, ast.IfExp):
        for side, val in ((e.body, True), (e.orelse, False)):
            sub = _ifexp_conditions(F, at, side, leaf, depth + 1)
            if sub is not None:
                return [(e.test, val, at), *sub]
        return None
    if isinstance(e, ast.Call) and norm(e.func).endswith("cast") and len(e.args) == 2:
        return _ifexp_conditions(F, at, e.args[1], leaf, depth + 1)
    if isinstance(e, ast.Name):
        for b in bindings(F, at, e):
            if b.kind == "value" and b.path == () and b.node is not None and b.expr is not None:
                sub = _ifexp_conditions(F, b.node, b.expr, leaf, depth + 1)
                if sub is not None:
                    return sub
    return None


def _loop_runs_all(F: Fn, attr: str | None, env: dict[str, str] | None = None) -> tuple[bool, str, ast.AST | None]:
    """a `for f in self.<attr>: f()` loop that every normal path passes and that has no early exit."""
    loops = [n for n, a in _call_loops(F, env) if attr is None or a == attr]
    if len(loops) != 1:
        return False, f"{len(loops)} loop(s) calling the entries of self.{attr or '<callbacks>'}", None
    lp = loops[0]
    if isinstance(lp.ast, ast.While):
        m_ = _next_loop_attr(F, lp, env) or _index_loop_attr(F, lp, env)
        always = F.cfg.exit.id not in F.cfg.reach(avoid_nodes=[lp])
        good = m_ is not None and m_[1]
        return good and always, f"loop `while {norm(lp.ast.test)}` calls each entry once, in order, with no other way out: {good}{' (' + m_[2] + ')' if m_ and m_[2] else ''}; on every normal path: {always}", lp.ast
    fe = _for_entry(F, lp, env)
    if fe is not None and len(fe) > 2:
        return False, f"loop `{lp.text()}`: {fe[2]}", lp.ast
    if fe is not None:
        is_entry_call = fe[1]
    else:  # a loop over a generator helper: the loop variable is the entry
        is_entry_call = lambda c, f=lp.ast.target.id: isinstance(c.func, ast.Name) and c.func.id == f  # noqa: E731
    early = [norm(x) for s in lp.ast.body for x in [s, *walk_no_nested(s)] if isinstance(x, (ast.Break, ast.Return, ast.Raise))]
    skipped = [norm(x) for s in lp.ast.body for x in [s, *walk_no_nested(s)] if isinstance(x, ast.Continue)]
    # the call happens in every iteration: from the loop head's body edge, the head is not reached again without passing a call
    call_nodes = [F.cfg.node_of(c) for s in lp.ast.body for c in astq.calls(s, nested=False) if is_entry_call(c)]
    cns = [n for n in call_nodes if n is not None]
    starts = [n for n in F.cfg.succ(lp, "T") if not any(n is c for c in cns)]
    every_iter = bool(cns) and (not starts or lp.id not in F.cfg.reach(starts, avoid_nodes=cns))
    always = F.cfg.exit.id not in F.cfg.reach(avoid_nodes=[lp])
    ok = not early and every_iter and always
    return ok, f"loop `{lp.text()}` calls each entry: {every_iter}; early exits in the loop: {early + skipped}; on every normal path: {always}", lp.ast


# -- "this list expression holds X whenever X exists" ----------------------
#
# leaf(F, at, e)       : e (evaluated in CFG node `at`) is X itself
# absent(F, at, e)     : the truth value of condition atom e that means "there is no X" (True / False), or None
#
# The evaluator follows list displays, starred items, list()/tuple() copies, concatenation, conditional expressions,
# local names (every reaching binding), `+=`, and in-place insert/append/extend between a binding and the use.  A binding
# that does not hold X is harmless only if it is made where X is known to be absent, or if the use cannot be reached from
# it except through an in-place addition, a rebinding, or an edge on which X is absent.


def _absent_edges(F: Fn, absent) -> list[tuple[t.Any, str]]:
    out = []
    for tn in F.cfg.tests():
        if tn.kind != "test":
            continue
        v = absent(F, tn, tn.ast)
        if v is not None:
            out.append((tn, "T" if v else "F"))
    return out


def _defs_of(F: Fn, ident: str) -> list[t.Any]:
    return [d for n in F.cfg.nodes for d in F.rd.gen[n.id] if d.name == ident]


def _list_has(F: Fn, at, e: ast.AST | None, leaf, absent, depth: int = 0) -> tuple[bool, str]:
    if e is None or depth > 8:
        return False, "unknown value"
    if leaf(F, at, e):
        return True, f"`{norm(e)[:40]}`"
    if isinstance(e, ast.Starred):
        return _list_has(F, at, e.value, leaf, absent, depth + 1)
    if isinstance(e, ast.NamedExpr):
        return _list_has(F, at, e.value, leaf, absent, depth + 1)
    if isinstance(e, (ast.List, ast.Tuple, ast.Set)):
        for x in e.elts:
            ok, why = _list_has(F, at, x, leaf, absent, depth + 1)
            if ok:
                return True, f"item {why} of `{norm(e)[:50]}`"
        return False, f"`{norm(e)[:50]}` has no such item"
    if isinstance(e, ast.Call) and isinstance(e.func, ast.Name) and e.func.id in ("list", "tuple", "iter") and len(e.args) == 1 and not e.keywords:
        return _list_has(F, at, e.args[0], leaf, absent, depth + 1)
    if isinstance(e, ast.Call) and norm(e.func).endswith("cast") and len(e.args) == 2:
        return _list_has(F, at, e.args[1], leaf, absent, depth + 1)
    if isinstance(e, ast.BoolOp) and isinstance(e.op, ast.Or) and all(is_empty_literal(x) for x in e.values[1:]):
        return _list_has(F, at, e.values[0], leaf, absent, depth + 1)  # `xs or ()`: falsy means nothing to hold
    if isinstance(e, ast.Call) and not e.keywords and e.args and (F.call_fq(e) or "") == "itertools.chain":
        # chain(a, b, ...): the items of a, then of b, ... - a concatenation
        why = "no argument"
        for x in e.args:
            if isinstance(x, ast.Starred):
                return False, f"`{norm(e)[:50]}`: starred argument (not modelled)"
            ok, why = _list_has(F, at, x, leaf, absent, depth + 1)
            if ok:
                return True, f"{why} in `{norm(e)[:50]}`"
        return False, why
    if isinstance(e, ast.Call) and depth < 6:
        # one level of helper extraction: the list is built by a package helper; what the helper says about its
        # parameters is read as a statement about the arguments passed here
        callee = callee_of(F, e)
        if callee is not None and callee is not F.fi and not any(isinstance(x, (ast.Yield, ast.YieldFrom)) for x in walk_no_nested(callee.node)):
            amap = call_args(callee, e)
            Fc = fn_of(F.repo, callee)

            def back(F2: Fn, at2, x: ast.AST, lvl: int = 0) -> ast.AST | None:
                """x with the helper's (unrebound) parameters replaced by the caller's arguments and its singly, plainly
                bound locals by their values (in the caller's terms as well); None if x mentions other locals."""
                if F2 is not Fc or lvl > 3:
                    return None
                local_vals: dict[str, ast.AST] = {}
                for n_ in ast.walk(x):
                    if isinstance(n_, ast.Name) and isinstance(n_.ctx, ast.Load):
                        ds = list(Fc.rd.reaching(at2, n_.id))
                        if ds and not (all(d.kind == "param" for d in ds) and n_.id in amap):
                            d = ds[0]
                            if len(ds) == 1 and d.kind in ("assign", "walrus") and d.index is None and d.value is not None and d.node is not None:
                                y = back(F2, d.node, d.value, lvl + 1)
                                if y is not None:
                                    local_vals[n_.id] = y
                                    continue
                            return None
                fresh = ast.parse(ast.unparse(x), mode="eval").body

                class Sub(ast.NodeTransformer):
                    def visit_Name(self, n_: ast.Name):  # noqa: N802
                        if n_.id in local_vals:
                            return local_vals[n_.id]
                        return amap[n_.id] if n_.id in amap and Fc.rd.reaching(at2, n_.id) else n_

                return Sub().visit(fresh)

            def leaf2(F2: Fn, at2, x: ast.AST) -> bool:
                y = back(F2, at2, x)
                return y is not None and leaf(F, at, y)

            def absent2(F2: Fn, at2, x: ast.AST) -> bool | None:
                y = back(F2, at2, x)
                return absent(F, at, y) if y is not None else None

            rets = astq.returns_of(callee.node)
            if rets:
                edges = _absent_edges(Fc, absent2)
                whys = set()
                for r in rets:
                    rn = Fc.node(r)
                    if any(Fc.cfg.edge_dominates(tn, lab, rn) for tn, lab in edges):
                        continue  # returned where there is nothing to hold
                    ok, why = _list_has(Fc, rn, r.value, leaf2, absent2, depth + 2)
                    if not ok:
                        return False, f"{callee.qualname}: `{norm(r)}`: {why}"
                    whys.add(why)
                _saw(callee)
                return True, f"{callee.qualname}() -> " + " | ".join(sorted(whys))
    if isinstance(e, ast.BinOp) and isinstance(e.op, ast.Add):
        a = _list_has(F, at, e.left, leaf, absent, depth + 1)
        if a[0]:
            return a
        return _list_has(F, at, e.right, leaf, absent, depth + 1)
    if isinstance(e, ast.IfExp):
        test, sides = e.test, {True: e.body, False: e.orelse}
        while isinstance(test, ast.UnaryOp) and isinstance(test.op, ast.Not):
            test, sides = test.operand, {True: sides[False], False: sides[True]}
        gone = absent(F, at, test)
        whys = []
        for v, side in sides.items():
            if gone is not None and v == gone:
                continue
            ok, why = _list_has(F, at, side, leaf, absent, depth + 1)
            if not ok:
                return False, why
            whys.append(why)
        return True, " / ".join(whys)
    if isinstance(e, ast.Name):
        defs = F.rd.reaching(at, e.id)
        if not defs:
            return False, f"`{e.id}` has no local binding"
        if any(not _is_insertion_slice(sl, e.id) for _, sl, _ in _slice_stores(F, e.id)):
            return False, f"`{e.id}` is partly overwritten by an item / slice assignment (not modelled)"
        edges = _absent_edges(F, absent)
        events = _add_events(F, e.id, leaf, absent, depth)
        everyone = _defs_of(F, e.id)
        whys = set()
        for d in defs:
            if d.kind == "param" and F.cfg.entry.succs and leaf(F, F.cfg.entry.succs[0][0], e):
                whys.add(f"the parameter `{e.id}` itself")  # still unrebound on this path: it is X
                continue
            if d.kind in ("assign", "walrus") and d.index is None and d.value is not None and d.node is not None:
                ok, why = _list_has(F, d.node, d.value, leaf, absent, depth + 1)
                if ok:
                    whys.add(why)
                    continue
            elif d.kind == "aug" and d.value is not None and d.node is not None:
                ok, why = _list_has(F, d.node, d.value, leaf, absent, depth + 1)
                if not ok:
                    ok, why = _list_has(F, d.node, e, leaf, absent, depth + 1)  # what it held before the `+=`
                if ok:
                    whys.add(why)
                    continue
            if d.node is not None and any(F.cfg.edge_dominates(tn, lab, d.node) for tn, lab in edges):
                whys.add("bound where there is nothing to hold")
                continue
            avoid = [x for x in events if x is not at] + [o.node for o in everyone if o.node is not None and o.node is not d.node and o.node is not at]
            r = F.cfg.reach(d.node, avoid_nodes=avoid, avoid_edges=edges)
            if at.id in r and at is not d.node:
                what = "the parameter" if d.kind == "param" else f"`{norm(d.value)[:40]}` (L{d.node.lineno})" if d.value is not None and d.node is not None else d.kind
                return False, f"`{e.id}` bound to {what} reaches L{at.lineno} without it being added"
            whys.add("added in place before the use")
        return True, " | ".join(sorted(whys))
    return False, f"`{norm(e)[:50]}` does not hold it"


def _add_events(F: Fn, ident: str, leaf, absent, depth: int) -> list[t.Any]:
    """CFG nodes that add X in place to the list held by local `ident`."""
    out = []
    for c in astq.calls(F.fi.node, nested=False):
        f = c.func
        if not (isinstance(f, ast.Attribute) and astq.is_name(f.value, ident) and c.args):
            continue
        cn = F.cfg.node_of(c)
        if cn is None:
            continue
        if f.attr in ("insert", "append") and _list_has(F, cn, ast.List(elts=[c.args[-1]], ctx=ast.Load()), leaf, absent, depth + 1)[0]:
            out.append(cn)
        elif f.attr in ("extend", "__iadd__") and _list_has(F, cn, c.args[-1], leaf, absent, depth + 1)[0]:
            out.append(cn)
    for n, sl, val in _slice_stores(F, ident):
        # `xs[:0] = [x]` / `xs[len(xs):] = [x]`: an insertion that removes nothing
        if _is_insertion_slice(sl, ident) and _list_has(F, n, val, leaf, absent, depth + 1)[0]:
            out.append(n)
    return out


def _slice_stores(F: Fn, ident: str) -> list[tuple[t.Any, ast.AST, ast.AST]]:
    out = []
    for n in F.cfg.nodes:
        if isinstance(n.ast, ast.Assign):
            for tg in n.ast.targets:
                if isinstance(tg, ast.Subscript) and astq.is_name(tg.value, ident):
                    out.append((n, tg.slice, n.ast.value))
    return out


def _is_insertion_slice(sl: ast.AST, ident: str) -> bool:
    if not isinstance(sl, ast.Slice) or sl.step is not None:
        return False
    lo, hi = sl.lower, sl.upper
    zero = lambda x: x is None or (isinstance(x, ast.Constant) and x.value == 0)  # noqa: E731
    if hi is not None and isinstance(hi, ast.Constant) and hi.value == 0 and zero(lo):
        return True  # xs[:0] / xs[0:0]
    is_len = isinstance(lo, ast.Call) and isinstance(lo.func, ast.Name) and lo.func.id == "len" and len(lo.args) == 1 and astq.is_name(lo.args[0], ident)
    return bool(is_len and hi is None)  # xs[len(xs):]


# -- "the wrapped iterable's close runs at most once" -----------------------
#
# A *closer* of a function is a CFG node whose execution invokes the close of self.response: a direct call of it
# (`self.response.close()`, through getattr or a local holding it), a call of a package helper / method of self that has a
# closer itself (Response.close is the obvious one), or a loop that calls what a generator helper yields when that yields
# the body's close.  Two closers on one path (or one closer in a cycle) close the body twice unless self.response is
# replaced in between.


def _rebinds_body(F: Fn) -> list[t.Any]:
    out = []
    for n in F.cfg.nodes:
        tgts = n.ast.targets if isinstance(n.ast, ast.Assign) else [n.ast.target] if isinstance(n.ast, (ast.AnnAssign, ast.AugAssign)) else []
        if any(is_self_attr(y, "response") for x in tgts for y in ([x] if not isinstance(x, (ast.Tuple, ast.List)) else x.elts)):
            out.append(n)
    return out


def _closer_nodes(F: Fn, depth: int = 0, _seen: frozenset[str] = frozenset()) -> list[tuple[t.Any, str]]:
    """(CFG node, description) for every closer of F."""
    out: list[tuple[t.Any, str]] = []
    seen = _seen | {F.fi.fq}
    for c in astq.calls(F.fi.node, nested=False):
        cn = F.cfg.node_of(c)
        if cn is None:
            continue
        if not c.args and not c.keywords and _body_close_ref(F, cn, c.func):
            out.append((cn, f"`{norm(c)}`"))
            continue
        if depth < 3:
            callee = callee_of(F, c)
            if callee is not None and callee.fq not in seen and not any(isinstance(x, (ast.Yield, ast.YieldFrom)) for x in walk_no_nested(callee.node)):
                Fq = fn_of(F.repo, callee)
                # only closers from which the helper can still return normally: a helper that closes and then raises hands
                # nothing on to the caller's later code
                sub = [(n_, tx) for n_, tx in _closer_nodes(Fq, depth + 1, seen) if Fq.cfg.exit.id in Fq.cfg.reach(n_)]
                if sub:
                    _saw(callee)
                    out.append((cn, f"`{norm(c)}` ({callee.qualname} -> {sub[0][1]})"))
    for n, G in _generator_consumers(F):
        ys = []
        for y in walk_no_nested(G.fi.node):
            if isinstance(y, ast.Yield) and y.value is not None:
                yn = G.cfg.node_of(y)
                if yn is not None and _body_close_ref(G, yn, y.value):
                    ys.append((yn, f"`yield {norm(y.value)}`"))
        if ys:
            # the loop calls each yielded function once: the loop node stands for one close per such yield that one path
            # of the generator passes
            twice = _closed_twice(G, ys)
            out.append((n, f"`{n.text()}` ({G.fi.qualname}: {ys[0][1]}{', twice on one path' if twice else ''})"))
            if twice:
                out.append((n, f"`{n.text()}` (second yield of the body's close in {G.fi.qualname})"))
    return out


def _closed_twice(F: Fn, closers: list[tuple[t.Any, str]]) -> tuple[str, str] | None:
    """a pair of closers (possibly the same one, in a cycle) that one path passes without self.response being replaced."""
    reb = _rebinds_body(F)
    for i, (a, ta) in enumerate(closers):
        # a `for f in <generator>: f()` loop head is passed once per item: only what follows the loop counts as "later"
        nxt = [s_ for s_, lab in a.succs if not (a.kind == "loop" and lab == "T")]
        later = F.cfg.reach([s_ for s_ in nxt if not any(s_ is r for r in reb)], avoid_nodes=reb + ([a] if a.kind == "loop" else []))
        for j, (b, tb) in enumerate(closers):
            if (b.id in later or (b is a and i != j)) and not any(b is r for r in reb):
                return ta, tb
    return None


def _any_alias_of_body(F: Fn, at, e: ast.AST | None, depth: int = 0) -> bool:
    """some value e can stand for is self.response itself (the same object)."""
    if e is None or depth > 4:
        return False
    if isinstance(e, ast.IfExp):
        return _any_alias_of_body(F, at, e.body, depth + 1) or _any_alias_of_body(F, at, e.orelse, depth + 1)
    if isinstance(e, ast.NamedExpr):
        return _any_alias_of_body(F, at, e.value, depth + 1)
    if isinstance(e, ast.Call) and norm(e.func).endswith("cast") and len(e.args) == 2:
        return _any_alias_of_body(F, at, e.args[1], depth + 1)
    if is_self_attr(e, "response"):
        return True
    if isinstance(e, ast.Name):
        return any(b.kind == "value" and b.path == () and b.node is not None and _any_alias_of_body(F, b.node, b.expr, depth + 1) for b in bindings(F, at, e))
    return False


def _carried_closes(F: Fn, at, e: ast.AST | None, depth: int = 0) -> int:
    """how many entries of the callbacks value e (a single callable or a display / concatenation / copy of callables) close
    the body when called: self.close and the body's own close each count once.  Shapes that are not displays count what
    they can be shown to hold (0 or 1), so the count is a lower bound."""
    if e is None or depth > 6:
        return 0
    if isinstance(e, ast.NamedExpr):
        return _carried_closes(F, at, e.value, depth + 1)
    if is_self_attr(e, "close") or (not isinstance(e, ast.Name) and _body_close_ref(F, at, e)):
        return 1
    if isinstance(e, ast.Starred):
        return _carried_closes(F, at, e.value, depth + 1)
    if isinstance(e, (ast.List, ast.Tuple, ast.Set)):
        return sum(_carried_closes(F, at, x, depth + 1) for x in e.elts)
    if isinstance(e, ast.BinOp) and isinstance(e.op, ast.Add):
        return _carried_closes(F, at, e.left, depth + 1) + _carried_closes(F, at, e.right, depth + 1)
    if isinstance(e, ast.IfExp):
        return max(_carried_closes(F, at, e.body, depth + 1), _carried_closes(F, at, e.orelse, depth + 1))
    if isinstance(e, ast.Call) and isinstance(e.func, ast.Name) and e.func.id in ("list", "tuple", "iter") and len(e.args) == 1 and not e.keywords:
        return _carried_closes(F, at, e.args[0], depth + 1)
    if isinstance(e, ast.Call) and norm(e.func).endswith("cast") and len(e.args) == 2:
        return _carried_closes(F, at, e.args[1], depth + 1)
    if isinstance(e, ast.Name):
        best = 0
        for b in bindings(F, at, e):
            if b.kind == "value" and b.path == () and b.node is not None:
                best = max(best, _carried_closes(F, b.node, b.expr, depth + 1))
        if best == 0:
            held = _list_has(F, at, e, lambda F_, at_, x: is_self_attr(x, "close") or (not isinstance(x, ast.Name) and _body_close_ref(F_, at_, x)), lambda F_, at_, x: None)
            best = 1 if held[0] else 0
        return best
    return 0


def _r56(ctx: Ctx) -> None:
    repo = ctx.repo
    resp = _resp(ctx)
    gai = method(repo, resp, "get_app_iter")
    F = fn_of(repo, gai)
    rets = astq.returns_of(gai.node)
    ctx.floor("R5.6", "returns of get_app_iter", len(rets), 1)
    AL = Aliases(F.cfg, F.rd)

    def is_close(F_: Fn, at_, x: ast.AST) -> bool:
        return is_self_attr(x, "close")

    def never(F_: Fn, at_, x: ast.AST) -> bool | None:
        return None

    for r in rets:
        rn = F.node(r)
        for v, vn in _expansions(F, rn, r.value):
            ca = _closing_iterator_arg(F, v)
            if ca is not None:
                cb = ca[1]
                ok, why = _list_has(F, vn, ast.List(elts=[cb], ctx=ast.Load()), is_close, never) if cb is not None else (False, "no callbacks argument")
                ctx.ob("R5.6", f"get_app_iter: `{norm(r)}` chains Response.close", ok, f"callbacks argument `{norm(cb) if cb is not None else None}` contains self.close: {ok} ({why})", gai, r, f"closing iterator callbacks {norm(cb) if cb is not None else None}")
                continue
            g = _gtext(F, vn)  # where the value is produced: the return itself, or the binding of the result variable
            pt = guard_has(AL.guard_set(vn), "self.direct_passthrough", True)
            if not pt:
                # chosen by a conditional expression: `self.response if self.direct_passthrough else ...`
                from ..guards import canon as _canon

                conds = _ifexp_conditions(F, rn, r.value, v) or []
                pt = any(_canon(AL.expand(t_, n_)) == (_canon(ast.parse("self.direct_passthrough", mode="eval").body)[0], val_ == _canon(ast.parse("self.direct_passthrough", mode="eval").body)[1]) for t_, val_, n_ in conds)
            what = norm(v) if v is not None else "None"
            cons = f"raw return {what} under direct_passthrough" if pt and is_self_attr(v, "response") else f"raw return {what} under {g}"
            ctx.ob("R5.6", f"get_app_iter: `{norm(r)}` chains Response.close", False,
                   f"the server gets `{what}` itself{' (direct_passthrough)' if pt else ''}: closing it never reaches Response.close, so callbacks registered with call_on_close do not run (guards {g})", gai, r, cons)

    # at most once: what the returned iterator carries (self.close among the callbacks, the iterable's own close when the
    # iterable is self.response itself) plus what get_app_iter has already called on the way to the return
    direct = _closer_nodes(F)
    reb = _rebinds_body(F)
    n_wrapped = 0
    for r in rets:
        rn = F.node(r)
        for v, vn in _expansions(F, rn, r.value):
            ca = _closing_iterator_arg(F, v)
            if ca is None:
                continue
            n_wrapped += 1
            it_, cb = ca
            carried = _carried_closes(F, vn, cb)
            own = 1 if _any_alias_of_body(F, vn, it_) else 0
            before = [txt for d, txt in direct if d is vn or d is rn or (not any(d is x for x in reb) and (vn.id in F.cfg.reach([s_ for s_, _ in d.succs if not any(s_ is x for x in reb)], avoid_nodes=reb)))]
            total = carried + own + len(before)
            ctx.ob("R5.6", f"get_app_iter: `{norm(r)}` closes the wrapped iterable at most once", total <= 1,
                   f"closes of self.response on a path that ends in `{norm(v)}`: {carried} carried by the callbacks `{norm(cb) if cb is not None else None}` (self.close / the body's close)"
                   f" + {own} for the wrapped iterable's own close, which ClosingIterator adds (`{norm(it_) if it_ is not None else None}` can be self.response itself: {bool(own)})"
                   f" + {len(before)} called by get_app_iter before the return {before} = {total} (Response.close and ClosingIterator.close each run what they hold once)",
                   gai, r, f"closes body at most once {norm(v)}")
    if n_wrapped:
        ctx.floor("R5.6", "ClosingIterator returns of get_app_iter judged for at-most-once", n_wrapped, 1)

    ci = repo.cls("wsgi.ClosingIterator")
    close = method(repo, ci, "close")
    init = method(repo, ci, "__init__")
    Fc = fn_of(repo, close)
    cparts = [(Fc, None)] + _unconditional_helpers(Fc)
    attrs = sorted({a for Fx, env_ in cparts for _, a in _call_loops(Fx, env_)})
    if len(attrs) != 1:
        raise AnalysisError(f"ClosingIterator.close: expected one loop calling the entries of one attribute, found {attrs} (slot)")
    cattr = attrs[0]
    ctried = [(Fx, *_loop_runs_all(Fx, cattr, env_)) for Fx, env_ in cparts]
    cbest = next((x for x in ctried if x[1]), next((x for x in ctried if x[3] is not None), ctried[0]))
    ctx.ob("R5.6", "ClosingIterator.close runs every callback", cbest[1], cbest[2], close, cbest[3] if cbest[0] is Fc and cbest[3] is not None else close.node, "closing iterator close loop")
    Fi = fn_of(repo, init)
    ps = init.params
    if len(ps) < 3:
        raise AnalysisError("ClosingIterator.__init__: (self, iterable, callbacks) parameters not found (slot)")
    p_it, p_cb = ps[1], ps[2]
    stores = [n for n in Fi.cfg.nodes if isinstance(n.ast, (ast.Assign, ast.AnnAssign)) and getattr(n.ast, "value", None) is not None and any(is_self_attr(x, cattr) for x in (n.ast.targets if isinstance(n.ast, ast.Assign) else [n.ast.target]))]
    if not stores:
        raise AnalysisError(f"ClosingIterator.__init__: no `self.{cattr} = ...` store found (slot)")

    def is_param(F_: Fn, at_, x: ast.AST, name: str) -> bool:
        if not astq.is_name(x, name):
            return False
        ds = F_.rd.reaching(at_, name)
        return bool(ds) and all(d.kind == "param" for d in ds)

    def leaf_cb(F_: Fn, at_, x: ast.AST) -> bool:
        return is_param(F_, at_, x, p_cb)

    def absent_cb(F_: Fn, at_, x: ast.AST) -> bool | None:
        nt = none_test(x)
        if nt is not None and is_param(F_, at_, nt[0], p_cb):
            return nt[1] != "T"
        return None

    def leaf_own(F_: Fn, at_, x: ast.AST, depth: int = 0) -> bool:
        if isinstance(x, ast.NamedExpr):
            x = x.value
        if isinstance(x, ast.Call) and isinstance(x.func, ast.Name) and x.func.id == "getattr" and len(x.args) >= 2 and is_param(F_, at_, x.args[0], p_it) and astq.const_str(x.args[1]) == "close":
            return True
        if isinstance(x, ast.Attribute) and x.attr == "close" and is_param(F_, at_, x.value, p_it):
            return True
        if isinstance(x, ast.Name) and depth < 4:
            bs = bindings(F_, at_, x)
            return bool(bs) and all(b.kind == "value" and b.path == () and b.node is not None and b.expr is not None and leaf_own(F_, b.node, b.expr, depth + 1) for b in bs)
        return False

    def absent_own(F_: Fn, at_, x: ast.AST) -> bool | None:
        if isinstance(x, ast.Call) and isinstance(x.func, ast.Name) and x.func.id == "hasattr" and len(x.args) == 2 and is_param(F_, at_, x.args[0], p_it) and astq.const_str(x.args[1]) == "close":
            return False
        if isinstance(x, ast.Call) and isinstance(x.func, ast.Name) and x.func.id == "callable" and len(x.args) == 1 and leaf_own(F_, at_, x.args[0]):
            return False
        nt = none_test(x)
        if nt is not None and leaf_own(F_, at_, nt[0]):
            return nt[1] != "T"
        if isinstance(x, (ast.Call, ast.NamedExpr)) and leaf_own(F_, at_, x):
            return False  # `if getattr(iterable, "close", None):` - the lookup itself tested for truth
        return None

    keeps, owns = [], []
    for st in stores:
        use, v = st, st.ast.value
        if isinstance(v, ast.Name):
            # the attribute shares the list with the local: additions after the store count as long as the local is not
            # rebound before the function ends, so the list is judged where the function ends
            later = Fi.cfg.reach(st)
            if not any(d.node is not None and d.node is not st and d.node.id in later for d in _defs_of(Fi, v.id)) and Fi.rd.reaching(Fi.cfg.exit, v.id):
                use = Fi.cfg.exit
        for leaf_, absent_, acc in ((leaf_cb, absent_cb, keeps), (leaf_own, absent_own, owns)):
            # what the local holds at the store itself decides first (one of several stores, each on its own branch: the
            # paths through the other stores are not this store's business); additions after the store are the fallback
            res = _list_has(Fi, st, v, leaf_, absent_)
            if not res[0] and use is not st:
                res = _list_has(Fi, use, v, leaf_, absent_)
            if not res[0]:
                # added in place through the attribute itself after the store: `self._callbacks.insert(0, close)`
                evs = []
                for c in astq.calls(init.node, nested=False):
                    f = c.func
                    cn = Fi.cfg.node_of(c)
                    if not (isinstance(f, ast.Attribute) and is_self_attr(f.value, cattr) and c.args and cn is not None):
                        continue
                    if f.attr in ("insert", "append") and _list_has(Fi, cn, ast.List(elts=[c.args[-1]], ctx=ast.Load()), leaf_, absent_)[0]:
                        evs.append(cn)
                    elif f.attr == "extend" and _list_has(Fi, cn, c.args[-1], leaf_, absent_)[0]:
                        evs.append(cn)
                for n_ in Fi.cfg.nodes:
                    # `self._callbacks[:0] = [close]` / `self._callbacks[len(self._callbacks):] = [...]`: insertion by slice
                    if isinstance(n_.ast, ast.Assign) and len(n_.ast.targets) == 1 and isinstance(n_.ast.targets[0], ast.Subscript) and is_self_attr(n_.ast.targets[0].value, cattr):
                        sl = n_.ast.targets[0].slice
                        ins = isinstance(sl, ast.Slice) and sl.step is None and (
                            (sl.upper is not None and isinstance(sl.upper, ast.Constant) and sl.upper.value == 0 and (sl.lower is None or (isinstance(sl.lower, ast.Constant) and sl.lower.value == 0)))
                            or (sl.upper is None and isinstance(sl.lower, ast.Call) and isinstance(sl.lower.func, ast.Name) and sl.lower.func.id == "len" and len(sl.lower.args) == 1 and is_self_attr(sl.lower.args[0], cattr)))
                        if ins and _list_has(Fi, n_, n_.ast.value, leaf_, absent_)[0]:
                            evs.append(n_)
                others = [o for o in stores if o is not st]
                if evs and Fi.cfg.exit.id not in Fi.cfg.reach(st, avoid_nodes=evs + others, avoid_edges=_absent_edges(Fi, absent_)):
                    res = (True, f"added to self.{cattr} in place after the store")
            acc.append(res)
    st0 = stores[0]
    ctx.ob("R5.6", "ClosingIterator.__init__ keeps the callbacks it is given", all(k[0] for k in keeps),
           f"what is stored into self.{cattr} holds `{p_cb}` (a single callable as an item, an iterable spread) unless `{p_cb}` is None: " + "; ".join(f"`{norm(s_.ast)}`: {k[1]}" for s_, k in zip(stores, keeps)), init, st0.ast, "closing iterator keeps callbacks")
    ctx.ob("R5.6", "ClosingIterator.__init__ adds the wrapped iterable's own close", all(k[0] for k in owns),
           f"what is stored into self.{cattr} holds getattr({p_it}, 'close', ..) whenever that exists: " + "; ".join(f"`{norm(s_.ast)}`: {k[1]}" for s_, k in zip(stores, owns)), init, st0.ast, "closing iterator own close")

    coc = method(repo, resp, "call_on_close")
    Fo = fn_of(repo, coc)
    regs_ = []
    for c in astq.calls(coc.node, nested=False):
        if isinstance(c.func, ast.Attribute) and len(coc.params) > 1 and _appends_item(c, coc.params[1], Fo):
            a = _self_attr_alias(Fo, Fo.node(c), c.func.value)
            if a is not None:
                regs_.append((c, a))
    if len(coc.params) > 1:
        # `self._on_close += [func]`: the in-place extension by a one-item display
        for n_ in Fo.cfg.nodes:
            st_ = n_.ast
            if isinstance(st_, ast.AugAssign) and isinstance(st_.op, ast.Add) and isinstance(st_.value, (ast.List, ast.Tuple)) and len(st_.value.elts) == 1 and isinstance(st_.target, (ast.Attribute, ast.Name)):
                x = st_.value.elts[0]
                is_param = isinstance(x, ast.Name) and x.id == coc.params[1] and all(d.kind == "param" for d in Fo.rd.reaching(n_, x.id))
                a = _self_attr_alias(Fo, n_, st_.target)
                if is_param and a is not None:
                    regs_.append((st_, a))
    if not regs_ and len(coc.params) > 1:
        # the append lives in a private helper that is handed the function
        for c in astq.calls(coc.node, nested=False):
            callee = callee_of(Fo, c)
            if callee is None or callee is coc:
                continue
            inner = [p_ for p_, a in call_args(callee, c).items() if astq.is_name(a, coc.params[1])]
            Fq = fn_of(repo, callee)
            for c2 in astq.calls(callee.node, nested=False):
                if isinstance(c2.func, ast.Attribute) and any(_appends_item(c2, p_) and all(d.kind == "param" for d in Fq.rd.reaching(Fq.node(c2), p_)) for p_ in inner):
                    a = _self_attr_alias(Fq, Fq.node(c2), c2.func.value)
                    if a is not None and Fq.cfg.exit.id not in Fq.cfg.reach(avoid_nodes=[Fq.node(c2)]):
                        ctx.saw(callee)
                        regs_.append((c, a))
    on_close_attr = regs_[0][1] if regs_ else "_on_close"
    always = bool(regs_) and Fo.cfg.exit.id not in Fo.cfg.reach(avoid_nodes=[Fo.node(c) for c, _ in regs_])
    ctx.ob("R5.6", "call_on_close registers the function in self._on_close", bool(regs_) and always, f"appends its argument to self.{on_close_attr}: {bool(regs_)}; on every path: {always}", coc, coc.node, "call_on_close registers")

    rc = method(repo, resp, "close")
    Fr = fn_of(repo, rc)
    # the two duties of close(), each done in close() itself or in a helper that close() calls on every normal path
    parts = [(Fr, None)] + _unconditional_helpers(Fr)  # type: ignore[list-item]
    # a generator helper whose items close() calls one by one in a loop that every normal path runs to the end
    gparts = [(G, None) for n, G in _generator_consumers(Fr) if Fr.cfg.exit.id not in Fr.cfg.reach(avoid_nodes=[n])
              and not any(isinstance(x, (ast.Break, ast.Return, ast.Raise, ast.Continue)) for s_ in n.ast.body for x in [s_, *walk_no_nested(s_)])]
    tried = [(Fx, *_loop_runs_all(Fx, on_close_attr, env_)) for Fx, env_ in parts]
    best = next((x for x in tried if x[1]), next((x for x in tried if x[3] is not None), tried[0]))
    ctx.ob("R5.6", "Response.close runs every registered callback", best[1], best[2] + ("" if best[0] is Fr else f" (in {best[0].fi.qualname}, which close() always calls)"), rc, best[3] if best[0] is Fr and best[3] is not None else rc.node, "response close loop")
    tried2 = [(Fx, *_closes_body(Fx)) for Fx, _ in parts + gparts]  # type: ignore[operator]
    best2 = next((x for x in tried2 if x[1]), next((x for x in tried2 if x[3] is not None), tried2[0]))
    ctx.ob("R5.6", "Response.close closes the body iterable", best2[1], best2[2] + ("" if best2[0] is Fr else f" (in {best2[0].fi.qualname}, which close() always calls)"), rc, best2[3] if best2[0] is Fr and best2[3] is not None else rc.node, "response close closes body")

    rclosers = _closer_nodes(Fr)
    twice = _closed_twice(Fr, rclosers)
    ctx.ob("R5.6", "Response.close closes the body iterable at most once", twice is None,
           f"{len(rclosers)} place(s) in close() (helpers followed) that invoke the close of self.response: {[x for _, x in rclosers]}; two of them (or one in a cycle) on one path without self.response being replaced: {list(twice) if twice else None}",
           rc, rc.node, "response close closes body once")

    ms = method(repo, resp, "make_sequence")
    Fm = fn_of(repo, ms)

    def replacements(Fx: Fn) -> list[t.Any]:
        return [n for n in Fx.cfg.nodes if isinstance(n.ast, ast.Assign) and any(is_self_attr(x, "response") or (isinstance(x, (ast.Tuple, ast.List)) and any(is_self_attr(y, "response") for y in x.elts)) for x in n.ast.targets)]

    repl = replacements(Fm)
    if not repl:
        # the buffering was extracted: the method of self that make_sequence calls and that replaces self.response is
        # judged in its place (capture, replacement and registration all live there)
        moved = []
        for c in astq.calls(ms.node, nested=False):
            callee = callee_of(Fm, c)
            if callee is not None and callee is not ms and isinstance(c.func, ast.Attribute) and astq.is_name(c.func.value, "self") and callee.cls is not None and callee.params[:1] == ["self"]:
                Fq = fn_of(repo, callee)
                if replacements(Fq) and not any(x is Fq for x in moved):
                    moved.append(Fq)
        if len(moved) == 1:
            Fm = moved[0]
            ms = Fm.fi
            ctx.saw(ms)
            repl = replacements(Fm)
    ctx.floor("R5.6", "replacements of self.response in make_sequence", len(repl), 1)

    def captured_by_helper(rp_) -> str | None:
        """`close, self.response = self._helper()`: the helper returns (getattr(self.response, "close", None), new body):
        the name that receives the old iterable's close, or None."""
        tg = rp_.ast.targets[0] if len(rp_.ast.targets) == 1 else None
        if not isinstance(tg, (ast.Tuple, ast.List)) or any(isinstance(x, ast.Starred) for x in tg.elts):
            return None
        callee = callee_of(Fm, rp_.ast.value)
        if callee is None:
            return None
        Fq = fn_of(repo, callee)
        rets = astq.returns_of(callee.node)
        for i, x in enumerate(tg.elts):
            if not isinstance(x, ast.Name):
                continue
            good = bool(rets)
            for r in rets:
                v = r.value
                if not (isinstance(v, ast.Tuple) and len(v.elts) == len(tg.elts) and isinstance(v.elts[i], ast.Name)):
                    good = False
                    break
                bs = bindings(Fq, Fq.node(r), v.elts[i])
                if not (bs and all(b.kind == "value" and b.path == () and isinstance(b.expr, ast.Call) and isinstance(b.expr.func, ast.Name) and b.expr.func.id == "getattr" and len(b.expr.args) >= 2
                                   and _self_attr_alias(Fq, b.node, b.expr.args[0]) == "response" and astq.const_str(b.expr.args[1]) == "close" for b in bs)):
                    good = False
                    break
            if good:
                ctx.saw(callee)
                return x.id
        return None

    def registers(Fx: Fn, ident: str, depth: int = 0) -> tuple[list[t.Any], list[tuple[t.Any, str]]]:
        """(nodes of Fx that register the value of local `ident` as a close callback, edges on which it is None)."""
        regs = []
        for c in astq.calls(Fx.fi.node, nested=False):
            f = c.func
            cn = Fx.cfg.node_of(c)
            if cn is None:
                continue
            direct = isinstance(f, ast.Attribute) and ((f.attr == "call_on_close" and astq.is_name(f.value, "self")) or (f.attr == "append" and _self_attr_alias(Fx, cn, f.value) == on_close_attr))
            if direct and len(c.args) == 1 and astq.is_name(c.args[0], ident):
                regs.append(cn)
            elif not direct and depth < 1 and any(astq.is_name(a, ident) for a in [*c.args, *[k.value for k in c.keywords]]):
                # a private helper that registers its parameter unless that is None
                callee = callee_of(Fx, c)
                if callee is None or callee is Fx.fi:
                    continue
                Fq = fn_of(repo, callee)
                for p_, a in call_args(callee, c).items():
                    if astq.is_name(a, ident):
                        r2, gone2 = registers(Fq, p_, depth + 1)
                        unrebound = all(all(d.kind == "param" for d in Fq.rd.reaching(x, p_)) for x in r2)
                        if r2 and unrebound and Fq.cfg.exit.id not in Fq.cfg.reach(avoid_nodes=r2, avoid_edges=gone2):
                            ctx.saw(callee)
                            regs.append(cn)
        gone = []
        for tn in Fx.cfg.tests():
            nt = none_test(tn.ast) if tn.kind == "test" else None
            if nt and astq.is_name(nt[0], ident):
                gone.append((tn, "F" if nt[1] == "T" else "T"))
        return regs, gone

    try_caps: dict[str, set[t.Any]] = {}

    def close_of_body(at_, x: ast.AST | None) -> bool:
        if isinstance(x, ast.Call) and isinstance(x.func, ast.Name) and x.func.id == "getattr" and len(x.args) >= 2 and _self_attr_alias(Fm, at_, x.args[0]) == "response" and astq.const_str(x.args[1]) == "close":
            return True
        return isinstance(x, ast.Attribute) and x.attr == "close" and _self_attr_alias(Fm, at_, x.value) == "response"

    for rp in repl:
        caps = []
        # `try: close = self.response.close / except AttributeError: close = None`: the local holds the close or None
        for nm in sorted({d.name for n in Fm.cfg.nodes for d in Fm.rd.gen[n.id] if d.kind == "assign" and d.node is not None and d.node is not rp and close_of_body(d.node, d.value)}):
            ds = Fm.rd.reaching(rp, nm)
            if ds and all(d.kind == "assign" and d.index is None and d.node is not None and d.node is not rp and (close_of_body(d.node, d.value) or astq.is_none(d.value)) for d in ds) and len(ds) > 1:
                try_caps[nm] = {d.node for d in ds}
        for n in Fm.cfg.nodes:
            if isinstance(n.ast, (ast.Assign, ast.AnnAssign)) and getattr(n.ast, "value", None) is not None and n is not rp and Fm.cfg.node_dominates(n, rp):
                tg = n.ast.targets[0] if isinstance(n.ast, ast.Assign) and len(n.ast.targets) == 1 else getattr(n.ast, "target", None)
                v = n.ast.value
                if isinstance(tg, ast.Name) and isinstance(v, ast.Call) and isinstance(v.func, ast.Name) and v.func.id == "getattr" and len(v.args) >= 2 and _self_attr_alias(Fm, n, v.args[0]) == "response" and astq.const_str(v.args[1]) == "close":
                    caps.append(n)
        via = captured_by_helper(rp) if not caps else None
        if not caps and via is None:
            # `close, self.response = getattr(self.response, "close", None), <new body>`: the right-hand side is evaluated
            # as a whole before anything is stored, so the getattr still sees the old iterable
            tg_ = rp.ast.targets[0] if len(rp.ast.targets) == 1 else None
            v_ = rp.ast.value
            if isinstance(tg_, (ast.Tuple, ast.List)) and isinstance(v_, (ast.Tuple, ast.List)) and len(tg_.elts) == len(v_.elts) and not any(isinstance(x, ast.Starred) for x in [*tg_.elts, *v_.elts]):
                for x_, y_ in zip(tg_.elts, v_.elts):
                    if isinstance(x_, ast.Name) and close_of_body(rp, y_):
                        via = x_.id
        tried_name = next(iter(sorted(try_caps)), None) if not caps and via is None else None
        ok = bool(caps) or via is not None or tried_name is not None
        fact = "the old iterable's close is not captured before the replacement"
        if ok:
            cap = caps[-1] if caps else rp
            cname = tried_name if tried_name is not None else via if via is not None else (cap.ast.targets[0] if isinstance(cap.ast, ast.Assign) else cap.ast.target).id
            regs, absent = registers(Fm, cname)
            capset = try_caps[tried_name] if tried_name is not None else {cap}
            regs = [cn for cn in regs if {d.node for d in Fm.rd.reaching(cn, cname)} == capset]
            lost = Fm.cfg.exit.id in Fm.cfg.reach(rp, avoid_nodes=regs, avoid_edges=absent)
            ok = bool(regs) and not lost
            fact = f"`{norm(cap.ast)}` before the replacement; registered with call_on_close afterwards: {bool(regs)}; a path from the replacement to the exit loses an existing close: {lost}"
        ctx.ob("R5.6", f"make_sequence: `{norm(rp.ast)}` keeps the consumed iterable's close", ok, fact, ms, rp.ast, f"make_sequence keeps close {norm(rp.ast)}")


# =====================================================================
# R5.7: status normalisation

STR_METHODS = {"strip", "lstrip", "rstrip", "upper", "lower", "title", "capitalize", "format", "join", "replace", "removeprefix", "removesuffix", "decode"}
INT_CLASSES = {"int", "HTTPStatus", "IntEnum"}


def _typed(F: Fn, at, e: ast.AST | None, want: str, depth: int = 0, maybe_none: bool = False, elem: int | None = None) -> tuple[bool, str]:
    """e is a `want` ('str' or 'int') on every path, judged by construction.  maybe_none: a None among the possible values
    is fine (the use is guarded by an `is not None` test on the local it went through); elem: e is a tuple (or a call that
    returns tuples) and item `elem` of it is meant."""
    if e is None or depth > 10:
        return False, "unknown value"
    if elem is not None:
        if isinstance(e, ast.Tuple) and elem < len(e.elts) and not any(isinstance(x, ast.Starred) for x in e.elts):
            return _typed(F, at, e.elts[elem], want, depth + 1, maybe_none)
        if isinstance(e, ast.Name):
            bs = bindings(F, at, e)
            if bs and all(b.kind == "value" and b.path == () and b.node is not None for b in bs):
                whys = set()
                for b in bs:
                    ok, why = _typed(F, b.node, b.expr, want, depth + 1, maybe_none, elem)
                    if not ok:
                        return False, why
                    whys.add(why)
                return True, " | ".join(sorted(whys))
        if not isinstance(e, ast.Call):
            return False, f"item {elem} of `{norm(e)[:40]}` is not known"
    if isinstance(e, ast.Constant) and e.value is None and maybe_none:
        return True, "None (excluded by the guard at the use)"
    if isinstance(e, ast.Constant):
        ok = (isinstance(e.value, str) if want == "str" else isinstance(e.value, int) and not isinstance(e.value, bool))
        return ok, f"constant {e.value!r}"
    if want == "str" and isinstance(e, ast.JoinedStr):
        return True, "f-string"
    if elem is None and isinstance(e, ast.Call) and isinstance(e.func, ast.Name) and e.func.id == want and e.args:
        return True, f"{want}(..)"
    if want == "str" and isinstance(e, ast.Call) and isinstance(e.func, ast.Attribute) and e.func.attr in STR_METHODS:
        return True, f".{e.func.attr}() result"
    if want == "str" and isinstance(e, ast.BinOp) and isinstance(e.op, (ast.Add, ast.Mod)):
        a = _typed(F, at, e.left, "str", depth + 1)
        return a[0], f"str expression ({a[1]})"
    if isinstance(e, ast.IfExp):
        a = _typed(F, at, e.body, want, depth + 1, maybe_none)
        b = _typed(F, at, e.orelse, want, depth + 1, maybe_none)
        return a[0] and b[0], f"{a[1]} / {b[1]}"
    if isinstance(e, ast.Call) and norm(e.func).endswith("cast") and len(e.args) == 2:
        return _typed(F, at, e.args[1], want, depth + 1, maybe_none, elem)
    if isinstance(e, ast.Call):
        # one level of helper extraction: every return of the package function that is called is a `want`
        callee = callee_of(F, e)
        if callee is not None and callee is not F.fi:
            _saw(callee)
            Fc = fn_of(F.repo, callee)
            rets = astq.returns_of(callee.node)
            if not rets or any(isinstance(x, (ast.Yield, ast.YieldFrom)) for x in walk_no_nested(callee.node)):
                return False, f"{callee.qualname} returns nothing"
            whys = set()
            for r in rets:
                ok, why = _typed(Fc, Fc.node(r), r.value, want, depth + 2, maybe_none, elem)
                if not ok:
                    return False, f"{callee.qualname}: `{norm(r)}`: {why}"
                whys.add(why)
            return True, f"{callee.qualname}() -> " + " | ".join(sorted(whys))
    if isinstance(e, ast.Name):
        bs = bindings(F, at, e)
        if not bs:
            return False, f"`{e.id}` has no local binding"
        whys = set()
        # a use that is reached only where the local is known not to be None tolerates None among its sources
        guarded = maybe_none
        for tn, lab in F.cfg.guards(at):
            if tn.kind == "test" and isinstance(tn.ast, ast.Compare):
                nt = none_test(tn.ast)
                if nt is not None and astq.is_name(nt[0], e.id) and nt[1] == lab and same_binding(F, tn, at, e.id):
                    guarded = True
        for b in bs:
            if b.kind == "value" and b.path == () and b.node is not None:
                ok, why = _typed(F, b.node, b.expr, want, depth + 1, guarded)
                if not ok:
                    return False, f"`{e.id}` <- {why}"
                whys.add(why)
            elif b.kind == "value" and len(b.path) == 1 and b.node is not None:
                # unpacked from a tuple: item b.path[0] of the pair a helper returns
                ok, why = _typed(F, b.node, b.expr, want, depth + 1, guarded, b.path[0])
                if not ok:
                    return False, f"`{e.id}` <- {why}"
                whys.add(why)
            elif b.kind == "param" and want == "str":
                # the parameter itself: a str once the int-like classes are excluded
                safe = []
                for t in F.cfg.tests():
                    ia = isinstance_atom(t.ast) if t.kind == "test" else None
                    if ia and astq.is_name(ia[0], e.id):
                        if "int" in ia[1] and ia[1] <= INT_CLASSES:
                            safe.append((t, "F"))
                        elif ia[1] == {"str"}:
                            safe.append((t, "T"))
                rebinds = [d.node for d in F.rd.reaching(at, e.id) if d.node is not None]
                if at.id in F.cfg.reach(avoid_nodes=rebinds, avoid_edges=safe):
                    ok, why = _param_from_callers(F, e.id, lambda Fo, cn, a, d_: _typed(Fo, cn, a, "str", d_), depth)
                    if not ok:
                        return False, f"the raw parameter `{e.id}` reaches this point without an isinstance test that excludes int ({why})"
                    whys.add(f"parameter, a str at every caller ({why})")
                else:
                    whys.add("parameter, not an int")
            elif b.kind == "param" and want == "int":
                ok, why = _param_from_callers(F, e.id, lambda Fo, cn, a, d_: _typed(Fo, cn, a, "int", d_), depth)
                if not ok:
                    return False, why
                whys.add(f"parameter, an int at every caller ({why})")
            else:
                return False, f"`{e.id}` is bound to `{norm(b.expr) if b.expr is not None else b.kind}` (position {b.path})"
        return True, " | ".join(sorted(whys))
    return False, f"`{norm(e)[:50]}` is not a {want} by construction"


def _element_of_call(F: Fn, at, e: ast.AST | None, meth: str, index: int, depth: int = 0) -> bool:
    """e is element `index` of the tuple returned by self.<meth>(..): `self.m(..)[i]`, `pair[i]`, or a local bound by
    unpacking the call (directly or through a local holding the pair)."""
    if e is None or depth > 4:
        return False

    def whole(at_, x: ast.AST | None, d: int = 0) -> bool:
        if _self_call(x, meth):
            return True
        if isinstance(x, ast.Name) and d < 4:
            bs = bindings(F, at_, x)
            return bool(bs) and all(b.kind == "value" and b.path == () and b.node is not None and whole(b.node, b.expr, d + 1) for b in bs)
        return False

    if isinstance(e, ast.Subscript) and isinstance(e.slice, ast.Constant) and e.slice.value in (index, index - 2):
        return whole(at, e.value)
    if isinstance(e, ast.Name):
        bs = bindings(F, at, e)
        if not bs:
            return False
        for b in bs:
            if b.kind == "param":
                ok, _ = _param_from_callers(F, e.id, lambda Fo, cn, a, d_: (_element_of_call(Fo, cn, a, meth, index, d_), "not that element"), depth)
                if ok:
                    continue
                return False
            if b.kind != "value" or b.node is None:
                return False
            if b.path == (index,) and whole(b.node, b.expr):
                continue
            if b.path == () and _element_of_call(F, b.node, b.expr, meth, index, depth + 1):
                continue
            return False
        return True
    return False


def _accessor(repo, cls: ClassInfo, name: str, which: str = "get") -> FuncInfo | None:
    """getter / setter of a property, whether it is written with decorators or as `name = property(fget, fset)`."""
    owner, what = repo.lookup(cls, name if which == "get" else f"{name}.setter")
    if isinstance(what, FuncInfo):
        return what
    owner, what = repo.lookup(cls, name)
    if isinstance(what, ast.Call) and isinstance(what.func, ast.Name) and what.func.id == "property" and isinstance(owner, ClassInfo):
        a = astq.arg_or_kw(what, 0 if which == "get" else 1, "fget" if which == "get" else "fset")
        if isinstance(a, ast.Name):
            f = owner.methods.get(a.id)
            return f if isinstance(f, FuncInfo) else None
    return None


def _status_cleaner(ctx: Ctx, resp: ClassInfo) -> str:
    """name of the method that normalises a status: `_clean_status`; should that private name be gone, the one method
    of self that the `status` setter calls with its argument."""
    repo = ctx.repo
    _, what = repo.lookup(resp, "_clean_status")
    if isinstance(what, FuncInfo):
        return "_clean_status"
    setter = _accessor(repo, resp, "status", "set")
    if isinstance(setter, FuncInfo) and len(setter.params) > 1:
        names = {c.func.attr for c in astq.calls(setter.node, nested=False) if isinstance(c.func, ast.Attribute) and astq.is_name(c.func.value, "self") and any(astq.is_name(a, setter.params[1]) for a in c.args)}
        if len(names) == 1:
            return names.pop()
    return "_clean_status"


def _r57(ctx: Ctx) -> None:
    repo = ctx.repo
    resp = _resp(ctx)
    cleaner = _status_cleaner(ctx, resp)
    cs = method(repo, resp, cleaner)
    F = fn_of(repo, cs)
    rets = astq.returns_of(cs.node)
    ctx.floor("R5.7", "returns of _clean_status", len(rets), 1)  # 3 today; a single-exit rewrite has one
    def pairs(Fx: Fn, depth: int = 0) -> None:
        fx = Fx.fi
        for r in astq.returns_of(fx.node):
            for v, rn in _expansions(Fx, Fx.node(r), r.value):
                callee = callee_of(Fx, v) if isinstance(v, ast.Call) and depth < 2 else None
                if callee is not None and callee is not fx and astq.returns_of(callee.node):
                    ctx.saw(callee)
                    pairs(fn_of(repo, callee), depth + 1)  # the pair is built by a helper
                    continue
                if not (isinstance(v, ast.Tuple) and len(v.elts) == 2):
                    ctx.ob("R5.7", f"{fx.name}: `{norm(r)}` is a (str, int) pair", False, f"`{norm(v) if v is not None else None}` is not a 2-tuple", fx, r, f"status return {norm(r)}")
                    continue
                a = _typed(Fx, rn, v.elts[0], "str")
                b = _typed(Fx, rn, v.elts[1], "int")
                ctx.ob("R5.7", f"{fx.name}: `{norm(r)}` is a (str, int) pair", a[0] and b[0], f"`{norm(v)}`: status line: {a[1]}; code: {b[1]}", fx, r, f"status return {norm(v)}")

    pairs(F)
    if cs.params[1:]:
        p = cs.params[1]
        its = [(t, isinstance_atom(t.ast)) for t in F.cfg.tests() if t.kind == "test" and isinstance_atom(t.ast) and astq.is_name(isinstance_atom(t.ast)[0], p)]
        its = [(t, ia) for t, ia in its if ia and "int" in ia[1]]
        ok = len(its) >= 1
        fact = f"{len(its)} isinstance test(s) of `{p}` against int"
        if ok:
            # under the int-like edge no return hands back the argument unconverted, and no string method is applied to it
            bad = []
            for tn, _ in its:
                for n in F.cfg.nodes:
                    if n.ast is None or not F.cfg.edge_dominates(tn, "T", n) or n is tn:
                        continue
                    for x in [n.ast, *walk_no_nested(n.ast)]:
                        if isinstance(x, ast.Attribute) and astq.is_name(x.value, p):
                            bad.append(norm(x))
            ok = not bad
            fact = f"`{'`, `'.join(norm(tn.ast) for tn, _ in its)}`: int and HTTPStatus (an IntEnum) take the true edge; str-only operations on `{p}` under it: {bad}"
        ctx.ob("R5.7", "_clean_status sends int-like statuses through the integer branch", ok, fact, cs, its[0][0].ast if its else cs.node, "int-like branch")
    # the stored status comes only from _clean_status
    def getter_attr(name: str, default: str) -> str:
        """the private attribute a property getter hands out (`return self._status`)."""
        g = _accessor(repo, resp, name, "get")
        if isinstance(g, FuncInfo):
            got = {r.value.attr for r in astq.returns_of(g.node) if isinstance(r.value, ast.Attribute) and astq.is_name(r.value.value, "self")}
            if len(got) == 1 and len(astq.returns_of(g.node)) == 1:
                return got.pop()
        return default

    a_line, a_code = getter_attr("status", "_status"), getter_attr("status_code", "_status_code")
    n_st = 0
    seen = set()
    for k in repo.mro(resp):
        if not isinstance(k, ClassInfo):
            continue
        for name, fi in k.methods.items():
            if id(fi.node) in seen:
                continue
            seen.add(id(fi.node))
            for n in walk_no_nested(fi.node):
                if not isinstance(n, (ast.Assign, ast.AnnAssign, ast.AugAssign)):
                    continue
                tgts = n.targets if isinstance(n, ast.Assign) else [n.target]
                flat = [(x, None) for x in tgts]
                for tg in tgts:
                    if isinstance(tg, (ast.Tuple, ast.List)):
                        flat += [(x, i) for i, x in enumerate(tg.elts)]
                for x, idx in flat:
                    for attr, want in ((a_line, 0), (a_code, 1)):
                        if is_self_attr(x, attr):
                            n_st += 1
                            val = getattr(n, "value", None)
                            ok = idx == want and _self_call(val, cleaner)
                            if idx is None and not isinstance(n, ast.AugAssign):
                                # the pair taken apart in two steps: a local bound by unpacking, or an indexed element
                                Fs_ = fn_of(repo, fi)
                                ok = _element_of_call(Fs_, Fs_.node(n), val, cleaner, want)
                            ctx.ob("R5.7", f"{fi.qualname}: self.{attr} is element {want} of _clean_status(..)", ok, f"`{norm(n)}`", fi, n, f"status store {'_status' if want == 0 else '_status_code'} in {fi.qualname}: {norm(n)}")
    ctx.floor("R5.7", "stores of _status / _status_code", n_st, 2)
    sg = _accessor(repo, resp, "status", "get")
    if sg is None:
        raise AnalysisError("Response.status: the getter of the property was not found (slot)")
    rets = astq.returns_of(sg.node)
    ctx.ob("R5.7", "Response.status is the stored status line", bool(rets) and all(is_self_attr(r.value, a_line) for r in rets) and a_line != a_code, f"returns {[norm(r.value) for r in rets if r.value is not None]}", sg, sg.node, "status getter")


# =====================================================================
# R5.8: a loop does not change the size of the container it is walking


R58_CLASSES = ("datastructures.headers.Headers", "wrappers.response.Response", "wsgi.ClosingIterator")


def _r58_scope(ctx: Ctx) -> list[FuncInfo]:
    repo = ctx.repo
    fis: dict[str, FuncInfo] = {}
    for cq in R58_CLASSES:
        c0 = repo.cls(cq)
        for c in repo.mro(c0):
            if isinstance(c, ClassInfo):
                for fi in c.methods.values():
                    fis.setdefault(fi.fq, fi)
    # one level of extraction: functions of the same module (and local functions) that these methods call
    for fi in list(fis.values()):
        F = fn_of(repo, fi)
        for c in astq.calls(fi.node, nested=False):
            callee = callee_of(F, c)
            if callee is not None and callee.module is fi.module and callee.fq not in fis:
                fis[callee.fq] = callee
    return list(fis.values())


def _r58(ctx: Ctx) -> None:
    n_loops = 0
    for fi in _r58_scope(ctx):
        F = fn_of(ctx.repo, fi)
        for fact in iteration_facts(F):
            n_loops += 1
            walked = ", ".join(sorted(fmt_key(k) for k in fact.keys))
            head = norm(fact.node.iter) if isinstance(fact.node, (ast.For, ast.AsyncFor)) else f"while {norm(fact.node.test)}" if isinstance(fact.node, ast.While) else norm(fact.node)
            if not fact.hits:
                ctx.ob("R5.8", f"{fi.qualname}: the loop over `{head[:60]}` leaves the size of {walked} alone while it runs", True,
                       f"walks {walked} in place; no removal / insertion on it inside the loop after which another iteration follows", fi, fact.node, f"loop over {walked} keeps its size")
            for what, k in fact.hits:
                ctx.ob("R5.8", f"{fi.qualname}: the loop over `{head[:60]}` leaves the size of {walked} alone while it runs", False,
                       f"the loop walks {fmt_key(k)} in place (no copy) and {what} changes its size inside the loop, after which the loop goes on: the entry that moves into the freed (or shifted) position is skipped (or visited twice), so not every entry is processed",
                       fi, fact.node, f"loop over {fmt_key(k)} changes its size")
    # 17 today; index loops, loops over copies and rebuilt lists are not counted, so a rewrite may lower the number
    ctx.floor("R5.8", "loops that walk a nameable container in place (Headers, Response classes, ClosingIterator)", n_loops, 4)
