"""rules shared by several properties."""

from __future__ import annotations

import ast

from ..loader import AnalysisError, ClassInfo, FuncInfo, norm
from ..report import Ctx
from . import _c16_helpers as H


def truth_tested(fn: ast.AST) -> list[ast.AST]:
    """expressions whose *truthiness* is consumed somewhere in fn."""
    out: list[ast.AST] = []

    def atoms(e: ast.AST) -> None:
        if isinstance(e, ast.BoolOp):
            for v in e.values:
                atoms(v)
        elif isinstance(e, ast.UnaryOp) and isinstance(e.op, ast.Not):
            atoms(e.operand)
        else:
            out.append(e)

    for n in ast.walk(fn):
        if isinstance(n, (ast.If, ast.While, ast.IfExp)):
            atoms(n.test)
        elif isinstance(n, ast.Assert):
            atoms(n.test)
        elif isinstance(n, ast.BoolOp):
            for v in n.values[:-1]:
                atoms(v)
        elif isinstance(n, ast.UnaryOp) and isinstance(n.op, ast.Not):
            atoms(n.operand)
        elif isinstance(n, ast.comprehension):
            for c in n.ifs:
                atoms(c)
    # dedupe by identity
    seen: set[int] = set()
    res = []
    for e in out:
        if id(e) not in seen:
            seen.add(id(e))
            res.append(e)
    return res


def _is_opt_int(ann: ast.AST | None) -> bool:
    if ann is None:
        return False
    s = norm(ann)
    return s in ("int | None", "None | int", "t.Optional[int]", "Optional[int]")


def optional_int_rule(ctx: Ctx, rule: str, cls: ClassInfo) -> int:
    """0 is a value, None is absence: an ``int | None`` attribute or parameter of the
    class must be tested with ``is None``, never by truthiness."""
    attrs: set[str] = set()
    for n in ast.walk(cls.node):
        if isinstance(n, ast.AnnAssign) and _is_opt_int(n.annotation):
            if isinstance(n.target, ast.Attribute) and isinstance(n.target.value, ast.Name) and n.target.value.id == "self":
                attrs.add(n.target.attr)
            elif isinstance(n.target, ast.Name):
                attrs.add(n.target.id)
    n_sites = 0
    for name, fi in sorted(cls.methods.items()):
        params = {a.arg for a in fi.node.args.args + fi.node.args.kwonlyargs if _is_opt_int(a.annotation)}
        selfname = fi.params[0] if fi.params else "self"

        def is_opt(e: ast.AST) -> bool:
            return (isinstance(e, ast.Attribute) and isinstance(e.value, ast.Name) and e.value.id == selfname and e.attr in attrs) or (isinstance(e, ast.Name) and e.id in params)

        # locals that only ever hold such a value (length = self._length) are optional ints too
        bound: dict[str, list[bool]] = {}
        for st_ in ast.walk(fi.node):
            if isinstance(st_, ast.Assign):
                for tg in st_.targets:
                    for nm in [x.id for x in ast.walk(tg) if isinstance(x, ast.Name)]:
                        bound.setdefault(nm, []).append(isinstance(tg, ast.Name) and is_opt(st_.value))
            elif isinstance(st_, (ast.AnnAssign, ast.AugAssign, ast.NamedExpr)) and isinstance(st_.target, ast.Name):
                bound.setdefault(st_.target.id, []).append(isinstance(st_, (ast.AnnAssign, ast.NamedExpr)) and st_.value is not None and is_opt(st_.value))
            elif isinstance(st_, (ast.For, ast.comprehension)):
                for nm in [x.id for x in ast.walk(st_.target) if isinstance(x, ast.Name)]:
                    bound.setdefault(nm, []).append(False)
        params = params | {nm for nm, kinds in bound.items() if kinds and all(kinds) and nm not in {a.arg for a in fi.node.args.args}}
        bad = []
        for e in truth_tested(fi.node):
            if isinstance(e, ast.Attribute) and isinstance(e.value, ast.Name) and e.value.id == "self" and e.attr in attrs:
                bad.append(e)
            elif isinstance(e, ast.Name) and e.id in params:
                bad.append(e)
        uses = [x for x in ast.walk(fi.node) if (isinstance(x, ast.Attribute) and isinstance(x.value, ast.Name) and x.value.id == "self" and x.attr in attrs) or (isinstance(x, ast.Name) and x.id in params)]
        if not uses:
            continue
        n_sites += 1
        ctx.ob(rule, f"{cls.name}.{name}: int-or-None values are compared with None, not by truthiness", not bad,
               f"optional ints {sorted(attrs | params)}; truthiness uses: {[norm(b) for b in bad]}", fi, bad[0] if bad else fi.node, f"{cls.name}.{name} optional-int truthiness")
    return n_sites


_roles_cache: dict[int, tuple[str, str]] = {}


def headerset_roles(repo) -> tuple[str, str]:
    """(ordered-list attribute, lower-case-set attribute) of HeaderSet, found by what the constructor stores: the
    attribute built as a list of the given items, and the one built from lower-cased elements."""
    got = _roles_cache.get(id(repo))
    if got is not None:
        return got
    hs = repo.cls("datastructures.structures.HeaderSet")
    stores: list[tuple] = []
    ex = H.Exec(repo, hs, on_event=lambda a, ev, st: (stores.append(ev) if ev[0] == "mut" and ev[2] == "store" else None) or a)
    ex.run_function(hs.methods["__init__"], auto0=None)
    sets = sorted({e[1] for e in stores if H.lowered_elements(e[3][0])})
    lists = sorted({e[1] for e in stores if e[1] not in sets and isinstance(H.P(e[3][0]), (ast.Call, ast.List, ast.ListComp)) and (H.dotted(getattr(H.P(e[3][0]), "func", None)) in ("list", None))})
    if len(sets) != 1 or len(lists) != 1:
        raise AnalysisError(f"HeaderSet.__init__: cannot identify the ordered list / lower-case set attributes (lists {lists}, sets {sets})")
    _roles_cache[id(repo)] = (lists[0], sets[0])
    return lists[0], sets[0]


def _hs_public(hs: ClassInfo) -> list[tuple[str, FuncInfo]]:
    return [(n, f) for n, f in sorted(hs.methods.items()) if n != "__init__" and (not n.startswith("_") or (n.startswith("__") and n.endswith("__")))]


def _single_element(term: str) -> str | None:
    n = H.P(term)
    if isinstance(n, (ast.List, ast.Tuple, ast.Set)) and len(n.elts) == 1 and not isinstance(n.elts[0], ast.Starred):
        return H.text(n.elts[0])
    return None


def _lowered_of(key: str, x: str) -> bool:
    """``key`` is the lower-cased form of term ``x``."""
    n = H.P(key)
    if isinstance(n, ast.Call) and isinstance(n.func, ast.Attribute) and n.func.attr in ("lower", "casefold") and not n.args:
        return H.text(n.func.value) == H.text(H.P(x))
    if isinstance(n, ast.Call) and H.dotted(n.func) in ("str.lower", "str.casefold") and len(n.args) == 1:
        return H.text(n.args[0]) == H.text(H.P(x))
    return False


def headerset_insertion_rule(ctx: Ctx, rule: str) -> int:
    """set semantics of HeaderSet: every growth of the ordered list happens one element at a time, on a path on which
    that element's lower-cased key was found absent from the lower-case set (since the set last changed and for the
    element of the current iteration), together with the insertion of that key into the set before the next growth
    or the exit (otherwise two spellings of one token in a single call are both listed).  Decided path-wise on the
    inlined call graph of every public method (helpers, early continue, flipped tests, aliases)."""
    repo = ctx.repo
    hs = repo.cls("datastructures.structures.HeaderSet")
    LIST, SET = headerset_roles(repo)
    in_set = f" in __self__.{SET}"
    sites: dict[int, dict] = {}

    def site(ev) -> dict:
        d = sites.get(id(ev[-2]))
        if d is None:
            d = sites[id(ev[-2])] = {"node": ev[-2], "fi": ev[-1], "op": ev[2], "single": True, "guard": True, "paired": True, "why": []}
        return d

    def on_event(a, ev, st):
        pending, pre = a  # pending: (key, site id) of a growth whose key is not yet in the set; pre: key added ahead of its growth
        if ev[0] != "mut":
            return a
        loc, op, args = ev[1], ev[2], ev[3]
        if loc == LIST:
            x = None
            grows = True
            if op in ("append", "insert", "appendleft") and args:
                x = args[-1]
            elif op in ("extend", "__iadd__") and args:
                x = _single_element(args[0])
            elif op == "__setitem__":
                c = H.const_of(args[-1]) if args else H._NOCONST
                grows = _slice_statement(ev[-2]) and not (c is not H._NOCONST and not c) and not _selection_of(args[-1], f"{H.SELF}.{LIST}")
            elif op == "store":
                c = H.const_of(args[0]) if args else H._NOCONST
                grows = not (c is not H._NOCONST and not c) and not _selection_of(args[0], f"{H.SELF}.{LIST}")
            else:
                grows = False
            if not grows:
                return a
            d = site(ev)
            if pending is not None:
                sites[pending[1]]["paired"] = False
                sites[pending[1]]["why"].append(f"the list grows again before `{pending[0]}` is added to the set")
                pending = None
            if x is None:
                d["single"] = False
                d["why"].append(f"`{H.norm(ev[-2])}` adds several elements at once")
                return (None, None)
            absent = [k[: -len(in_set)] for k, v in st.facts.items() if v is False and k.endswith(in_set)]
            keys = [k for k in absent if _lowered_of(k, x)]
            if pre is not None and _lowered_of(pre, x):
                return (None, None)
            if not keys:
                d["guard"] = False
                d["why"].append(f"`{H.norm(ev[-2])}` is reached on a path that has not found the element's lower-cased key absent from the set")
                return (None, None)
            return ((keys[0], id(ev[-2])), None)
        if loc == SET:
            k = None
            if op == "add" and args:
                k = args[0]
            elif op in ("update", "__ior__") and args:
                k = _single_element(args[0])
            if k is not None:
                if pending is not None and pending[0] == k:
                    return (None, None)
                if pending is None and st.facts.get(f"{k}{in_set}") is False:
                    return (None, k)
        return a

    for name, fi in _hs_public(hs):
        ex = H.Exec(repo, hs, on_event=on_event)
        for o in ex.run_function(fi, auto0=(None, None)):
            if o.st.auto[0] is not None and not o.value.startswith("~"):
                key, sid = o.st.auto[0]
                sites[sid]["paired"] = False
                sites[sid]["why"].append(f"a path leaves the method without adding `{key}` to the set")
    for d in sorted(sites.values(), key=lambda d: (d["fi"].fq if d["fi"] else "", getattr(d["node"], "lineno", 0))):
        fi = d["fi"]
        nm = fi.name if fi is not None else "?"
        ok = d["single"] and d["guard"] and d["paired"]
        fact = f"`{H.norm(d['node'])}`: single-element={d['single']}, found absent on every path={d['guard']}, key added to _set alongside={d['paired']}" + ("; " + d["why"][0] if d["why"] else "")
        ctx.ob(rule, f"HeaderSet.{nm}: list growth is per element under its own membership test", ok, fact, fi or hs.fq, d["node"], f"HeaderSet.{nm} growth {d['op']}")
    return len(sites)


def lower_base(term: str) -> str | None:
    """``x`` when the term is ``x.lower()`` / ``x.casefold()`` / ``str.lower(x)``; None otherwise."""
    n = H.P(term)
    if isinstance(n, ast.Call) and isinstance(n.func, ast.Attribute) and n.func.attr in ("lower", "casefold") and not n.args and H.dotted(n.func) not in ("str.lower", "str.casefold"):
        return H.text(n.func.value)
    if isinstance(n, ast.Call) and H.dotted(n.func) in ("str.lower", "str.casefold") and len(n.args) == 1:
        return H.text(n.args[0])
    return None


_eq_cache: dict[str, tuple[str, str] | None] = {}


def _eq_sides(key: str) -> tuple[str, str] | None:
    """(a, b) for a fact key of the form ``a == b``."""
    if key not in _eq_cache:
        n = H.P(key) if " == " in key else None
        _eq_cache[key] = (H.text(n.left), H.text(n.comparators[0])) if isinstance(n, ast.Compare) and len(n.ops) == 1 and isinstance(n.ops[0], ast.Eq) else None
    return _eq_cache[key]


def _whole(term: str, cont: str) -> bool:
    """the term iterates the whole container ``cont`` (possibly through a copy)."""
    if term == cont:
        return True
    n = H.P(term)
    if isinstance(n, ast.Call) and H.dotted(n.func) in ("list", "tuple", "iter") and len(n.args) == 1 and not n.keywords:
        return _whole(H.text(n.args[0]), cont)
    return False


def _enumerates(term: str, cont: str) -> bool:
    """the term yields (index, element) pairs of the whole container: ``enumerate(cont)``, ``zip(range(len(cont)), cont)``,
    ``zip(itertools.count(), cont)``."""
    n = H.P(term)
    if not isinstance(n, ast.Call) or n.keywords:
        return False
    d = H.dotted(n.func)
    if d == "enumerate" and len(n.args) == 1:
        return _whole(H.text(n.args[0]), cont)
    if d == "zip" and len(n.args) == 2 and _whole(H.text(n.args[1]), cont):
        i = n.args[0]
        if isinstance(i, ast.Call) and not i.keywords:
            di = H.dotted(i.func) or ""
            if di.rsplit(".", 1)[-1] == "count" and (not i.args or (len(i.args) == 1 and H.const_of(H.text(i.args[0])) == 0)):
                return True
            if di == "range" and len(i.args) == 1 and isinstance(i.args[0], ast.Call) and H.dotted(i.args[0].func) == "len" and len(i.args[0].args) == 1:
                return _whole(H.text(i.args[0].args[0]), cont)
    return False


def _lowered_view(term: str, cont: str) -> bool:
    """the term is the list of the container's elements lower-cased, position by position:
    ``[x.lower() for x in cont]`` / ``list(map(str.lower, cont))``."""
    n = H.P(term)
    if isinstance(n, ast.Call) and H.dotted(n.func) in ("list", "tuple") and len(n.args) == 1 and not n.keywords:
        n = n.args[0]
    if isinstance(n, (ast.ListComp, ast.GeneratorExp)) and len(n.generators) == 1:
        g = n.generators[0]
        return isinstance(g.target, ast.Name) and not g.ifs and _whole(H.text(g.iter), cont) and lower_base(H.text(n.elt)) == g.target.id
    if isinstance(n, ast.Call) and H.dotted(n.func) == "map" and len(n.args) == 2 and H.dotted(n.args[0]) in ("str.lower", "str.casefold"):
        return _whole(H.text(n.args[1]), cont)
    return False


def _filter_keys(value: str, cont: str) -> set[str] | None:
    """``[t for t in cont if t.lower() != K ...]`` (list / generator spelling): the keys K whose elements the filter
    drops; None when the value is not such a filter of the container."""
    n = H.P(value)
    if isinstance(n, ast.Call) and H.dotted(n.func) in ("list", "tuple") and len(n.args) == 1 and isinstance(n.args[0], ast.GeneratorExp):
        n = n.args[0]
    if not isinstance(n, (ast.ListComp, ast.GeneratorExp)) or len(n.generators) != 1:
        return None
    g = n.generators[0]
    if not isinstance(g.target, ast.Name) or not isinstance(n.elt, ast.Name) or n.elt.id != g.target.id or not _whole(H.text(g.iter), cont) or not g.ifs:
        return None
    keys: set[str] = set()
    for c in g.ifs:
        neg = False
        while isinstance(c, ast.UnaryOp) and isinstance(c.op, ast.Not):
            c, neg = c.operand, not neg
        if not (isinstance(c, ast.Compare) and len(c.ops) == 1 and isinstance(c.ops[0], (ast.Eq, ast.NotEq)) and isinstance(c.ops[0], ast.Eq) == neg):
            return None
        a, b = H.text(c.left), H.text(c.comparators[0])
        if lower_base(a) == g.target.id and not _mentions(b, g.target.id):
            keys.add(b)
        elif lower_base(b) == g.target.id and not _mentions(a, g.target.id):
            keys.add(a)
        else:
            return None
    return keys


def _mentions(term: str, name: str) -> bool:
    return any(isinstance(x, ast.Name) and x.id == name for x in ast.walk(H.P(term)))


def _keeps_all(value: str, cont: str) -> bool:
    """the value holds every element of the container (a copy / a reordering)."""
    if _whole(value, cont):
        return True
    n = H.P(value)
    if isinstance(n, ast.Call) and H.dotted(n.func) in ("sorted", "reversed", "list", "tuple") and n.args:
        return _keeps_all(H.text(n.args[0]), cont)
    if isinstance(n, ast.Call) and isinstance(n.func, ast.Attribute) and n.func.attr == "copy" and not n.args:
        return _keeps_all(H.text(n.func.value), cont)
    if isinstance(n, ast.Subscript) and H.text(n.slice) in ("__unparsable__",):
        return False
    return False


def _selection_of(value: str, cont: str) -> bool:
    """the value holds elements of the container only (a copy, a reordering, a filter of it): storing it does not
    grow the container."""
    if _keeps_all(value, cont):
        return True
    n = H.P(value)
    if isinstance(n, ast.Call) and H.dotted(n.func) in ("list", "tuple", "sorted") and len(n.args) >= 1 and isinstance(n.args[0], ast.GeneratorExp):
        n = n.args[0]
    if isinstance(n, (ast.ListComp, ast.GeneratorExp)) and len(n.generators) == 1:
        g = n.generators[0]
        return isinstance(g.target, ast.Name) and isinstance(n.elt, ast.Name) and n.elt.id == g.target.id and _whole(H.text(g.iter), cont)
    if isinstance(n, ast.Call) and H.dotted(n.func) == "filter" and len(n.args) == 2:
        return _whole(H.text(n.args[1]), cont)
    return False


def _slice_statement(node: ast.AST) -> bool:
    """the statement stores into / deletes a slice."""
    tgs = node.targets if isinstance(node, (ast.Assign, ast.Delete)) else [getattr(node, "target", None)]
    return any(isinstance(t_, ast.Subscript) and isinstance(t_.slice, ast.Slice) for t_ in tgs if t_ is not None)


def _conjuncts(c: ast.AST) -> list[ast.AST]:
    if isinstance(c, ast.BoolOp) and isinstance(c.op, ast.And):
        return [y for x in c.values for y in _conjuncts(x)]
    return [c]


def _search_keys(term: str, cont: str) -> set[str]:
    """keys K when the term names an element of the container found by a search on its lower-cased form:
    ``next(h for h in cont if h.lower() == K)`` or an item of the selection ``[h for h in cont if h.lower() == K]`` /
    ``list(h for h in cont if ...)`` (any index: every selected element satisfies the filter)."""
    n = H.P(term)
    comp = None
    if isinstance(n, ast.Call) and H.dotted(n.func) == "next" and n.args and isinstance(n.args[0], ast.GeneratorExp):
        comp = n.args[0]
    elif isinstance(n, ast.Subscript) and not isinstance(n.slice, ast.Slice):
        v = n.value
        if isinstance(v, ast.Call) and H.dotted(v.func) in ("list", "tuple") and len(v.args) == 1 and not v.keywords:
            v = v.args[0]
        if isinstance(v, (ast.ListComp, ast.GeneratorExp)):
            comp = v
    keys: set[str] = set()
    if comp is None or len(comp.generators) != 1:
        return keys
    g = comp.generators[0]
    if not (isinstance(g.target, ast.Name) and _whole(H.text(g.iter), cont) and H.text(comp.elt) == g.target.id):
        return keys
    for c0 in g.ifs:
        for c in _conjuncts(c0):
            if isinstance(c, ast.Compare) and len(c.ops) == 1 and isinstance(c.ops[0], ast.Eq):
                a, b = H.text(c.left), H.text(c.comparators[0])
                if lower_base(a) == g.target.id and not _mentions(b, g.target.id):
                    keys.add(b)
                elif lower_base(b) == g.target.id and not _mentions(a, g.target.id):
                    keys.add(a)
    return keys


def headerset_removal_rule(ctx: Ctx, rule: str) -> int:
    """the other half of the pairing: an element leaves the ordered list only together with *its own* lower-cased key
    leaving the lower-case set.  On every path of the inlined call graph of every public method, each change of the
    list that drops an element e (``pop`` / ``remove`` / ``del list[i]`` / ``list[i] = new`` / a filtering rebuild;
    e identified by its terms: the popped value, ``list[i]`` read before the change, the item of the
    ``enumerate(list)`` step whose index is used, the element found by ``next(i for i, x in enumerate(list) if ...)``
    / ``list.index(x)``) is accompanied on that path by a removal from the set (``remove`` / ``discard`` /
    ``difference_update`` ..., before or after) of a key k that is e lower-cased: k is spelled ``e.lower()``, or the
    path has established ``e.lower() == k``.  Emptying the list is accompanied by emptying / rebuilding the set.
    (The converse - a key leaves the set but no element is found in the list - is a path that only a broken pairing
    makes feasible and is not judged.)"""
    repo = ctx.repo
    hs = repo.cls("datastructures.structures.HeaderSet")
    LIST, SET = headerset_roles(repo)
    L = f"{H.SELF}.{LIST}"
    iters: dict[str, set[str]] = {}
    sites: dict[int, dict] = {}

    def site(ev) -> dict:
        d = sites.get(id(ev[-2]))
        if d is None:
            d = sites[id(ev[-2])] = {"node": ev[-2], "fi": ev[-1], "op": ev[2], "ok": True, "why": [], "seen": []}
        return d

    def element_of_index(i: str, changed: bool = False) -> tuple[set[str], set[str]]:
        """(terms naming the element at index term i, keys its lower-cased form is known to equal)."""
        names = {H.text(H.P(f"({L})[{i}]"))}
        keys: set[str] = set()
        n = H.P(i)
        if isinstance(n, ast.Subscript) and H.text(n.slice) == "0" and isinstance(n.value, ast.Name):
            its = iters.get(n.value.id)
            if its and all(_enumerates(x, L) for x in its):
                names.add(f"{n.value.id}[1]")
        if isinstance(n, ast.Call) and H.dotted(n.func) == "next" and n.args and isinstance(n.args[0], ast.GeneratorExp) and len(n.args[0].generators) == 1:
            g = n.args[0].generators[0]
            tg = g.target
            if _enumerates(H.text(g.iter), L) and isinstance(tg, ast.Tuple) and len(tg.elts) == 2 and all(isinstance(x, ast.Name) for x in tg.elts) and H.text(n.args[0].elt) == tg.elts[0].id:
                item = tg.elts[1].id
                for c in g.ifs:
                    if isinstance(c, ast.Compare) and len(c.ops) == 1 and isinstance(c.ops[0], ast.Eq):
                        a, b = H.text(c.left), H.text(c.comparators[0])
                        if lower_base(a) == item and not _mentions(b, item):
                            keys.add(b)
                        elif lower_base(b) == item and not _mentions(a, item):
                            keys.add(a)
        if isinstance(n, ast.Call) and isinstance(n.func, ast.Attribute) and n.func.attr == "index" and H.text(n.func.value) == L and n.args:
            names.add(H.text(n.args[0]))
        if isinstance(n, ast.Call) and isinstance(n.func, ast.Attribute) and n.func.attr == "index" and len(n.args) == 1 and not changed and _lowered_view(H.text(n.func.value), L):
            keys.add(H.text(n.args[0]))  # position of K among the lower-cased elements: the element there lower-cases to K
        return names, keys

    def known_keys(names: set[str], st) -> set[str]:
        keys = set()
        for x in names:  # an element found by a search: next(h for h in list if h.lower() == K) / [h for h in list if ...][0]
            keys |= _search_keys(x, L)
        for k, v in st.facts.items():
            if v is not True:
                continue
            sides = _eq_sides(k)
            if sides is None:
                continue
            a, b = sides
            if lower_base(a) in names:
                keys.add(b)
            if lower_base(b) in names:
                keys.add(a)
        return keys

    def on_event(a, ev, st):
        changed, stale, ldrops, sdrops = a
        if ev[0] == "iter":
            iters.setdefault(ev[1], set()).add(ev[2])
            return a
        if ev[0] == "read" and ev[1] == LIST and ev[2] == "__getitem__" and ev[3] and changed:
            return (changed, stale | {ev[3][0]}, ldrops, sdrops)
        if ev[0] == "mut" and ev[1] == LIST:
            op, args = ev[2], ev[3]
            names: set[str] | None = None
            keys: set[str] = set()
            if op == "pop":
                names = {H.text(H.P(f"({L}).pop({', '.join(args)})"))}
                if args:
                    n2, keys = element_of_index(args[0], changed)
                    names |= n2
            elif op == "remove" and args:
                names = {args[0]}
            elif op in ("__delitem__", "__setitem__") and args and not _slice_statement(ev[-2]):
                names, keys = element_of_index(args[0], changed)
            elif op in ("clear", "__delitem__", "__imul__"):
                names = None
            elif op in ("store", "__setitem__") and args:
                v = args[-1]
                c = H.const_of(v)
                fk = _filter_keys(v, L)
                if op == "store" and _keeps_all(v, L):
                    return (True, stale, ldrops, sdrops)
                if c is not H._NOCONST and not c or fk is None:
                    names = None
                else:
                    names, keys = set(), fk
            else:
                return (True, stale, ldrops, sdrops)  # growth / reordering: nothing leaves the list
            d = site(ev)
            if names is None:
                drop = ("*", frozenset(), frozenset(), id(ev[-2]), None)
            else:
                names = {x for x in names if not (x.startswith(f"{L}[") and x[len(L) + 1 : -1] in stale)}
                # ``list[i] = new``: the element that leaves is replaced by ``new`` (whose key stays / enters the set)
                new = args[-1] if op == "__setitem__" and len(args) >= 2 else None
                drop = ("e", frozenset(names), frozenset(keys | known_keys(names, st)), id(ev[-2]), new)
            return (True, stale, ldrops | {drop}, sdrops)
        if ev[0] == "op" and ev[1] == SET:
            op, args = ev[2], ev[3]
            k: str | None = None
            if op in ("remove", "discard") and args:
                k = args[0]
            elif op in ("difference_update", "__isub__") and args:
                k = _single_element(args[0]) or "?"
            elif op in ("clear", "store", "intersection_update", "__iand__"):
                k = "*"
            elif op == "pop":
                k = "?"
            if k is None:
                return a
            base = lower_base(k) if k not in ("*", "?") else None
            if base is not None and base.startswith(f"{L}[") and base[len(L) + 1 : -1] in stale:
                base = None  # the list was read at that index after it had changed: not the element that left
            eq: set[str] = set()  # terms the path knows to be equal to k (facts that a later change of the list would forget)
            if k not in ("*", "?"):
                for f, v in st.facts.items():
                    sides = _eq_sides(f) if v is True else None
                    if sides is not None and k in sides:
                        eq.add(sides[0] if sides[1] == k else sides[1])
            return (changed, stale, ldrops, sdrops | {(k, base, frozenset(eq))})
        return a

    def matched(drop, sdrops, st) -> bool:
        kind, names, keys, _, new = drop
        if new is not None:
            # the element is overwritten by one the path has established to have the same lower-cased form: the key
            # stays in the set for the new element (names read at an index after the list changed are not the old element)
            live = {x for x in names if not (x.startswith(f"{L}[") and x[len(L) + 1 : -1] in st.auto[1])}
            for f, v in st.facts.items():
                sides = _eq_sides(f) if v is True else None
                if sides is not None and {lower_base(sides[0]), lower_base(sides[1])} - {None} and (
                    (lower_base(sides[0]) in live and lower_base(sides[1]) == new) or (lower_base(sides[1]) in live and lower_base(sides[0]) == new)
                ):
                    return True
        for k, base, eq in sdrops:
            if kind == "*":
                if k == "*":
                    return True
                continue
            if k in keys or (base is not None and base in names) or any(lower_base(x) in names for x in eq if lower_base(x)):
                return True
        return False

    for name, fi in _hs_public(hs):
        ex = H.Exec(repo, hs, on_event=on_event)
        for o in ex.run_function(fi, auto0=(False, frozenset(), frozenset(), frozenset())):
            if o.value.startswith("~"):
                continue
            _, _, ldrops, sdrops = o.st.auto
            for drop in ldrops:
                d = sites[drop[3]]
                if matched(drop, sdrops, o.st):
                    continue
                d["ok"] = False
                what = "the whole list is emptied / rebuilt" if drop[0] == "*" else f"element {sorted(drop[1]) or '(filtered)'} (lower-cased form known equal to {sorted(drop[2]) or 'nothing'}) leaves the list"
                got = sorted(k for k, _, _ in sdrops)
                d["why"].append(f"{what}, the set loses {got if got else 'nothing'} on that path (lines {', '.join(map(str, o.st.trail[-8:]))})")
    for d in sorted(sites.values(), key=lambda d: (d["fi"].fq if d["fi"] else "", getattr(d["node"], "lineno", 0))):
        fi = d["fi"]
        nm = fi.name if fi is not None else "?"
        fact = f"`{H.norm(d['node'])}`: " + (d["why"][0] if d["why"] else "on every path the set loses the lower-cased form of what leaves the list")
        ctx.ob(rule, f"HeaderSet.{nm}: an element leaves the list together with its own lower-cased key", d["ok"], fact, fi or hs.fq, d["node"], f"HeaderSet.{nm} removal {d['op']}")
    return len(sites)


def headerset_order_rule(ctx: Ctx, rule: str) -> int:
    """in a HeaderSet method that both drops a key from the lower-case set and adds one, the drop comes first: a drop
    that can run after the add deletes the key that was just added when both spell the same token.  Decided on the
    event order of every path of the inlined call graph."""
    repo = ctx.repo
    hs = repo.cls("datastructures.structures.HeaderSet")
    _, SET = headerset_roles(repo)
    n = 0

    def on_event(a, ev, st):
        added, dropped, bad = a
        if ev[0] == "op" and ev[1] == SET:
            if ev[2] in ("add", "update", "__ior__"):
                return (H.norm(ev[-2]), dropped, bad)
            if ev[2] in ("remove", "discard", "pop", "difference_update", "__isub__", "__delitem__"):
                return (added, True, bad or (f"`{H.norm(ev[-2])}` can run after `{added}`" if added else None))
        return a

    for name, fi in _hs_public(hs):
        ex = H.Exec(repo, hs, on_event=on_event)
        outs = ex.run_function(fi, auto0=(None, False, None))
        if not any(o.st.auto[0] and o.st.auto[1] for o in outs):
            continue
        n += 1
        bad = sorted({o.st.auto[2] for o in outs if o.st.auto[2]})
        ctx.ob(rule, f"HeaderSet.{name}: a key is dropped from the lower-case set before the new key is added", not bad, "; ".join(bad) or "every drop precedes every add", fi, fi.node, f"HeaderSet.{name} drop-before-add")
    return n
