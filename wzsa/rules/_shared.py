"""rules shared by several properties."""

from __future__ import annotations

import ast

from .. import astq
from ..cfg import cfg_of
from ..loader import ClassInfo, FuncInfo, norm, walk_no_nested
from ..report import Ctx


def truth_tested(fn: ast.AST) -> list[ast.AST]:
    """expressions whose *truthiness* is consumed somewhere in fn."""
    out: list[ast.AST] = []

    def atoms(e: ast.AST) -> None:
        if isinstance(e, ast.BoolOp):
            for v in e.values:
                atoms(v)
        elif isinstance(e, ast.UnaryOp) and isinstance(e.op, ast.Not):
            atoms(e.operand)
        else:
            out.append(e)

    for n in ast.walk(fn):
        if isinstance(n, (ast.If, ast.While, ast.IfExp)):
            atoms(n.test)
        elif isinstance(n, ast.Assert):
            atoms(n.test)
        elif isinstance(n, ast.BoolOp):
            for v in n.values[:-1]:
                atoms(v)
        elif isinstance(n, ast.UnaryOp) and isinstance(n.op, ast.Not):
            atoms(n.operand)
        elif isinstance(n, ast.comprehension):
            for c in n.ifs:
                atoms(c)
    # dedupe by identity
    seen: set[int] = set()
    res = []
    for e in out:
        if id(e) not in seen:
            seen.add(id(e))
            res.append(e)
    return res


def _is_opt_int(ann: ast.AST | None) -> bool:
    if ann is None:
        return False
    s = norm(ann)
    return s in ("int | None", "None | int", "t.Optional[int]", "Optional[int]")


def optional_int_rule(ctx: Ctx, rule: str, cls: ClassInfo) -> int:
    """0 is a value, None is absence: an ``int | None`` attribute or parameter of the
    class must be tested with ``is None``, never by truthiness."""
    attrs: set[str] = set()
    for n in ast.walk(cls.node):
        if isinstance(n, ast.AnnAssign) and _is_opt_int(n.annotation):
            if isinstance(n.target, ast.Attribute) and isinstance(n.target.value, ast.Name) and n.target.value.id == "self":
                attrs.add(n.target.attr)
            elif isinstance(n.target, ast.Name):
                attrs.add(n.target.id)
    n_sites = 0
    for name, fi in sorted(cls.methods.items()):
        params = {a.arg for a in fi.node.args.args + fi.node.args.kwonlyargs if _is_opt_int(a.annotation)}
        bad = []
        for e in truth_tested(fi.node):
            if isinstance(e, ast.Attribute) and isinstance(e.value, ast.Name) and e.value.id == "self" and e.attr in attrs:
                bad.append(e)
            elif isinstance(e, ast.Name) and e.id in params:
                bad.append(e)
        uses = [x for x in ast.walk(fi.node) if (isinstance(x, ast.Attribute) and isinstance(x.value, ast.Name) and x.value.id == "self" and x.attr in attrs) or (isinstance(x, ast.Name) and x.id in params)]
        if not uses:
            continue
        n_sites += 1
        ctx.ob(rule, f"{cls.name}.{name}: int-or-None values are compared with None, not by truthiness", not bad,
               f"optional ints {sorted(attrs | params)}; truthiness uses: {[norm(b) for b in bad]}", fi, bad[0] if bad else fi.node, f"{cls.name}.{name} optional-int truthiness")
    return n_sites


def headerset_insertion_rule(ctx: Ctx, rule: str) -> int:
    """set semantics of HeaderSet: every growth of the ordered list happens one element at a time, inside the loop
    iteration whose `key not in self._set` test admitted it, together with the insertion of that key into the set
    (otherwise two spellings of one token in a single call are both listed)."""
    hs = ctx.repo.cls("datastructures.structures.HeaderSet")
    n = 0
    for name, fi in sorted(hs.methods.items()):
        if name == "__init__":
            continue
        cfg = cfg_of(fi)
        for c in astq.calls(fi.node, nested=False):
            f = c.func
            if not (isinstance(f, ast.Attribute) and astq.is_self_attr(f.value, "_headers") and f.attr in ("append", "extend", "insert", "__iadd__")):
                continue
            n += 1
            gnode = cfg.node_of(c)
            guards = [(t_, l) for t_, l in cfg.guards(gnode)] if gnode is not None else []
            member = [t_ for t_, l in guards if isinstance(t_.ast, ast.Compare) and isinstance(t_.ast.ops[0], (ast.NotIn, ast.In)) and astq.is_self_attr(t_.ast.comparators[0], "_set") and ((isinstance(t_.ast.ops[0], ast.NotIn) and l == "T") or (isinstance(t_.ast.ops[0], ast.In) and l == "F"))]
            single = f.attr in ("append", "insert")
            same_iter = False
            paired = False
            if member and gnode is not None:
                loop = astq.enclosing(c, (ast.For, ast.While))
                tloop = astq.enclosing(member[0].ast, (ast.For, ast.While))
                same_iter = loop is not None and loop is tloop
                key = norm(member[0].ast.left)
                body = _stmt_list(c)
                paired = any(isinstance(s, ast.Expr) and norm(s.value) in (f"self._set.add({key})",) for s in (body or []))
            ok = single and bool(member) and same_iter and paired
            ctx.ob(rule, f"HeaderSet.{name}: list growth is per element under its own membership test", ok,
                   f"`{norm(c)}`: single-element={single}, membership guard={'`' + norm(member[0].ast) + '`' if member else None}, same loop iteration={same_iter}, key added to _set alongside={paired}", fi, c, f"HeaderSet.{name} growth {f.attr}")
    return n


def _stmt_list(node: ast.AST):
    cur = node
    while cur is not None and not isinstance(cur, ast.stmt):
        cur = astq.parent(cur)
    p = astq.parent(cur) if cur is not None else None
    if p is None:
        return None
    for fld in ("body", "orelse", "finalbody"):
        lst = getattr(p, fld, None)
        if isinstance(lst, list) and any(x is cur for x in lst):
            return lst
    return None


def headerset_order_rule(ctx: Ctx, rule: str) -> int:
    """in a HeaderSet method that both drops a key from the lower-case set and adds one, the drop comes first: a drop
    that can run after the add deletes the key that was just added when both spell the same token."""
    hs = ctx.repo.cls("datastructures.structures.HeaderSet")
    n = 0
    for name, fi in sorted(hs.methods.items()):
        if name == "__init__":
            continue
        cfg = cfg_of(fi)
        adds = [c for c in astq.calls(fi.node, nested=False) if isinstance(c.func, ast.Attribute) and astq.is_self_attr(c.func.value, "_set") and c.func.attr in ("add", "update")]
        drops = [c for c in astq.calls(fi.node, nested=False) if isinstance(c.func, ast.Attribute) and astq.is_self_attr(c.func.value, "_set") and c.func.attr in ("remove", "discard", "pop", "difference_update")]
        if not adds or not drops:
            continue
        n += 1
        bad = []
        for a in adds:
            an = cfg.node_of(a)
            r = cfg.reach(an)
            for d in drops:
                dn = cfg.node_of(d)
                if dn is not None and an is not None and dn is not an and dn.id in r:
                    bad.append(f"`{norm(d)}` can run after `{norm(a)}`")
        ctx.ob(rule, f"HeaderSet.{name}: a key is dropped from the lower-case set before the new key is added", not bad, "; ".join(bad) or "every drop precedes every add", fi, fi.node, f"HeaderSet.{name} drop-before-add")
    return n
