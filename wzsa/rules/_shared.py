"""rules shared by several properties."""

from __future__ import annotations

import ast

from ..loader import AnalysisError, ClassInfo, FuncInfo, norm
from ..report import Ctx
from . import _c16_helpers as H


def truth_tested(fn: ast.AST) -> list[ast.AST]:
    """expressions whose *truthiness* is consumed somewhere in fn."""
    out: list[ast.AST] = []

    def atoms(e: ast.AST) -> None:
        if isinstance(e, ast.BoolOp):
            for v in e.values:
                atoms(v)
        elif isinstance(e, ast.UnaryOp) and isinstance(e.op, ast.Not):
            atoms(e.operand)
        else:
            out.append(e)

    for n in ast.walk(fn):
        if isinstance(n, (ast.If, ast.While, ast.IfExp)):
            atoms(n.test)
        elif isinstance(n, ast.Assert):
            atoms(n.test)
        elif isinstance(n, ast.BoolOp):
            for v in n.values[:-1]:
                atoms(v)
        elif isinstance(n, ast.UnaryOp) and isinstance(n.op, ast.Not):
            atoms(n.operand)
        elif isinstance(n, ast.comprehension):
            for c in n.ifs:
                atoms(c)
    # dedupe by identity
    seen: set[int] = set()
    res = []
    for e in out:
        if id(e) not in seen:
            seen.add(id(e))
            res.append(e)
    return res


def _is_opt_int(ann: ast.AST | None) -> bool:
    if ann is None:
        return False
    s = norm(ann)
    return s in ("int | None", "None | int", "t.Optional[int]", "Optional[int]")


def optional_int_rule(ctx: Ctx, rule: str, cls: ClassInfo) -> int:
    """0 is a value, None is absence: an ``int | None`` attribute or parameter of the
    class must be tested with ``is None``, never by truthiness."""
    attrs: set[str] = set()
    for n in ast.walk(cls.node):
        if isinstance(n, ast.AnnAssign) and _is_opt_int(n.annotation):
            if isinstance(n.target, ast.Attribute) and isinstance(n.target.value, ast.Name) and n.target.value.id == "self":
                attrs.add(n.target.attr)
            elif isinstance(n.target, ast.Name):
                attrs.add(n.target.id)
    n_sites = 0
    for name, fi in sorted(cls.methods.items()):
        params = {a.arg for a in fi.node.args.args + fi.node.args.kwonlyargs if _is_opt_int(a.annotation)}
        selfname = fi.params[0] if fi.params else "self"

        def is_opt(e: ast.AST) -> bool:
            return (isinstance(e, ast.Attribute) and isinstance(e.value, ast.Name) and e.value.id == selfname and e.attr in attrs) or (isinstance(e, ast.Name) and e.id in params)

        # locals that only ever hold such a value (length = self._length) are optional ints too
        bound: dict[str, list[bool]] = {}
        for st_ in ast.walk(fi.node):
            if isinstance(st_, ast.Assign):
                for tg in st_.targets:
                    for nm in [x.id for x in ast.walk(tg) if isinstance(x, ast.Name)]:
                        bound.setdefault(nm, []).append(isinstance(tg, ast.Name) and is_opt(st_.value))
            elif isinstance(st_, (ast.AnnAssign, ast.AugAssign, ast.NamedExpr)) and isinstance(st_.target, ast.Name):
                bound.setdefault(st_.target.id, []).append(isinstance(st_, (ast.AnnAssign, ast.NamedExpr)) and st_.value is not None and is_opt(st_.value))
            elif isinstance(st_, (ast.For, ast.comprehension)):
                for nm in [x.id for x in ast.walk(st_.target) if isinstance(x, ast.Name)]:
                    bound.setdefault(nm, []).append(False)
        params = params | {nm for nm, kinds in bound.items() if kinds and all(kinds) and nm not in {a.arg for a in fi.node.args.args}}
        bad = []
        for e in truth_tested(fi.node):
            if isinstance(e, ast.Attribute) and isinstance(e.value, ast.Name) and e.value.id == "self" and e.attr in attrs:
                bad.append(e)
            elif isinstance(e, ast.Name) and e.id in params:
                bad.append(e)
        uses = [x for x in ast.walk(fi.node) if (isinstance(x, ast.Attribute) and isinstance(x.value, ast.Name) and x.value.id == "self" and x.attr in attrs) or (isinstance(x, ast.Name) and x.id in params)]
        if not uses:
            continue
        n_sites += 1
        ctx.ob(rule, f"{cls.name}.{name}: int-or-None values are compared with None, not by truthiness", not bad,
               f"optional ints {sorted(attrs | params)}; truthiness uses: {[norm(b) for b in bad]}", fi, bad[0] if bad else fi.node, f"{cls.name}.{name} optional-int truthiness")
    return n_sites


_roles_cache: dict[int, tuple[str, str]] = {}


def headerset_roles(repo) -> tuple[str, str]:
    """(ordered-list attribute, lower-case-set attribute) of HeaderSet, found by what the constructor stores: the
    attribute built as a list of the given items, and the one built from lower-cased elements."""
    got = _roles_cache.get(id(repo))
    if got is not None:
        return got
    hs = repo.cls("datastructures.structures.HeaderSet")
    stores: list[tuple] = []
    ex = H.Exec(repo, hs, on_event=lambda a, ev, st: (stores.append(ev) if ev[0] == "mut" and ev[2] == "store" else None) or a)
    ex.run_function(hs.methods["__init__"], auto0=None)
    sets = sorted({e[1] for e in stores if H.lowered_elements(e[3][0])})
    lists = sorted({e[1] for e in stores if e[1] not in sets and isinstance(H.P(e[3][0]), (ast.Call, ast.List, ast.ListComp)) and (H.dotted(getattr(H.P(e[3][0]), "func", None)) in ("list", None))})
    if len(sets) != 1 or len(lists) != 1:
        raise AnalysisError(f"HeaderSet.__init__: cannot identify the ordered list / lower-case set attributes (lists {lists}, sets {sets})")
    _roles_cache[id(repo)] = (lists[0], sets[0])
    return lists[0], sets[0]


def _hs_public(hs: ClassInfo) -> list[tuple[str, FuncInfo]]:
    return [(n, f) for n, f in sorted(hs.methods.items()) if n != "__init__" and (not n.startswith("_") or (n.startswith("__") and n.endswith("__")))]


def _single_element(term: str) -> str | None:
    n = H.P(term)
    if isinstance(n, (ast.List, ast.Tuple, ast.Set)) and len(n.elts) == 1 and not isinstance(n.elts[0], ast.Starred):
        return H.text(n.elts[0])
    return None


def _lowered_of(key: str, x: str) -> bool:
    """``key`` is the lower-cased form of term ``x``."""
    n = H.P(key)
    if isinstance(n, ast.Call) and isinstance(n.func, ast.Attribute) and n.func.attr in ("lower", "casefold") and not n.args:
        return H.text(n.func.value) == H.text(H.P(x))
    if isinstance(n, ast.Call) and H.dotted(n.func) in ("str.lower", "str.casefold") and len(n.args) == 1:
        return H.text(n.args[0]) == H.text(H.P(x))
    return False


def headerset_insertion_rule(ctx: Ctx, rule: str) -> int:
    """set semantics of HeaderSet: every growth of the ordered list happens one element at a time, on a path on which
    that element's lower-cased key was found absent from the lower-case set (since the set last changed and for the
    element of the current iteration), together with the insertion of that key into the set before the next growth
    or the exit (otherwise two spellings of one token in a single call are both listed).  Decided path-wise on the
    inlined call graph of every public method (helpers, early continue, flipped tests, aliases)."""
    repo = ctx.repo
    hs = repo.cls("datastructures.structures.HeaderSet")
    LIST, SET = headerset_roles(repo)
    in_set = f" in __self__.{SET}"
    sites: dict[int, dict] = {}

    def site(ev) -> dict:
        d = sites.get(id(ev[-2]))
        if d is None:
            d = sites[id(ev[-2])] = {"node": ev[-2], "fi": ev[-1], "op": ev[2], "single": True, "guard": True, "paired": True, "why": []}
        return d

    def on_event(a, ev, st):
        pending, pre = a  # pending: (key, site id) of a growth whose key is not yet in the set; pre: key added ahead of its growth
        if ev[0] != "mut":
            return a
        loc, op, args = ev[1], ev[2], ev[3]
        if loc == LIST:
            x = None
            grows = True
            if op in ("append", "insert", "appendleft") and args:
                x = args[-1]
            elif op in ("extend", "__iadd__") and args:
                x = _single_element(args[0])
            elif op == "__setitem__":
                grows = isinstance(H.P(args[0]), ast.Slice)
            elif op == "store":
                c = H.const_of(args[0]) if args else H._NOCONST
                grows = not (c is not H._NOCONST and not c)
            else:
                grows = False
            if not grows:
                return a
            d = site(ev)
            if pending is not None:
                sites[pending[1]]["paired"] = False
                sites[pending[1]]["why"].append(f"the list grows again before `{pending[0]}` is added to the set")
                pending = None
            if x is None:
                d["single"] = False
                d["why"].append(f"`{H.norm(ev[-2])}` adds several elements at once")
                return (None, None)
            absent = [k[: -len(in_set)] for k, v in st.facts.items() if v is False and k.endswith(in_set)]
            keys = [k for k in absent if _lowered_of(k, x)]
            if pre is not None and _lowered_of(pre, x):
                return (None, None)
            if not keys:
                d["guard"] = False
                d["why"].append(f"`{H.norm(ev[-2])}` is reached on a path that has not found the element's lower-cased key absent from the set")
                return (None, None)
            return ((keys[0], id(ev[-2])), None)
        if loc == SET:
            k = None
            if op == "add" and args:
                k = args[0]
            elif op in ("update", "__ior__") and args:
                k = _single_element(args[0])
            if k is not None:
                if pending is not None and pending[0] == k:
                    return (None, None)
                if pending is None and st.facts.get(f"{k}{in_set}") is False:
                    return (None, k)
        return a

    for name, fi in _hs_public(hs):
        ex = H.Exec(repo, hs, on_event=on_event)
        for o in ex.run_function(fi, auto0=(None, None)):
            if o.st.auto[0] is not None and not o.value.startswith("~"):
                key, sid = o.st.auto[0]
                sites[sid]["paired"] = False
                sites[sid]["why"].append(f"a path leaves the method without adding `{key}` to the set")
    for d in sorted(sites.values(), key=lambda d: (d["fi"].fq if d["fi"] else "", getattr(d["node"], "lineno", 0))):
        fi = d["fi"]
        nm = fi.name if fi is not None else "?"
        ok = d["single"] and d["guard"] and d["paired"]
        fact = f"`{H.norm(d['node'])}`: single-element={d['single']}, found absent on every path={d['guard']}, key added to _set alongside={d['paired']}" + ("; " + d["why"][0] if d["why"] else "")
        ctx.ob(rule, f"HeaderSet.{nm}: list growth is per element under its own membership test", ok, fact, fi or hs.fq, d["node"], f"HeaderSet.{nm} growth {d['op']}")
    return len(sites)


def headerset_order_rule(ctx: Ctx, rule: str) -> int:
    """in a HeaderSet method that both drops a key from the lower-case set and adds one, the drop comes first: a drop
    that can run after the add deletes the key that was just added when both spell the same token.  Decided on the
    event order of every path of the inlined call graph."""
    repo = ctx.repo
    hs = repo.cls("datastructures.structures.HeaderSet")
    _, SET = headerset_roles(repo)
    n = 0

    def on_event(a, ev, st):
        added, dropped, bad = a
        if ev[0] == "op" and ev[1] == SET:
            if ev[2] in ("add", "update", "__ior__"):
                return (H.norm(ev[-2]), dropped, bad)
            if ev[2] in ("remove", "discard", "pop", "difference_update", "__isub__", "__delitem__"):
                return (added, True, bad or (f"`{H.norm(ev[-2])}` can run after `{added}`" if added else None))
        return a

    for name, fi in _hs_public(hs):
        ex = H.Exec(repo, hs, on_event=on_event)
        outs = ex.run_function(fi, auto0=(None, False, None))
        if not any(o.st.auto[0] and o.st.auto[1] for o in outs):
            continue
        n += 1
        bad = sorted({o.st.auto[2] for o in outs if o.st.auto[2]})
        ctx.ob(rule, f"HeaderSet.{name}: a key is dropped from the lower-case set before the new key is added", not bad, "; ".join(bad) or "every drop precedes every add", fi, fi.node, f"HeaderSet.{name} drop-before-add")
    return n
