"""C07 reviewed roles: raising sites that neither a handler nor a guard idiom discharges, each read once.

A reviewed line no longer names a function and an expression text.  It names a ROLE: the modelled exception, the kind
of operation and what the operand IS, found through data flow (reaching definitions, local renames, parameter binding
to the call sites on the escaping chain, return values of private helpers: wzsa/effects.py ``Flow``).  Where the reason
depends on other code the *premise* is re-established on the code as it is shaped now, across a caller / helper
boundary if need be.  A role answers

* ``None``            - this site does not play the role (the site stays unreviewed: reported, fail-closed);
* ``(True, why)``     - the role applies and its premise holds;
* ``(False, why)``    - the role applies, the code shape is understood and the premise is false (violation);
* raises AnalysisError - the role applies but the anchor of its premise has a shape that is not understood (exit 2).
"""

from __future__ import annotations

import ast
import re
import typing as t

from .. import astq
from ..cfg import cfg_of
from ..effects import INF, Effects, Flow, Site, St, const_int, satoms
from ..fold import Folder, RegexConst, class_of_items, sre_c
from ..guards import canon, simulate
from ..loader import AnalysisError, ClassInfo, FuncInfo, dotted, norm, walk_no_nested


class A:
    """what a role may look at."""

    def __init__(self, ctx, eff: Effects, folder: Folder, flow: Flow):
        self.ctx = ctx
        self.repo = ctx.repo
        self.eff = eff
        self.folder = folder
        self.flow = flow


Verdict = t.Optional[t.Tuple[bool, str]]


def _is_subclass(a: A, c: ClassInfo | None, base_fq: str) -> bool:
    return c is not None and any(k.fq == base_fq for k in a.repo.mro(c))


# ---------------------------------------------------------------------
# input model: environ / header text is latin-1


_CGI_KEY = re.compile(r"[A-Z][A-Z0-9_]*\Z")


def _input_text(a: A, fi: FuncInfo, e: ast.AST, node, st: St = St(), depth: int = 0) -> bool:
    """e is text of the input model: a CGI variable looked up in a mapping parameter, an argument of an entry point
    (header text by the property's quantifier), a latin-1 constant, or a choice between those."""
    if depth > 12:
        return False
    if isinstance(e, ast.Constant):
        if e.value is None:
            return True
        if isinstance(e.value, str):
            try:
                e.value.encode("latin1")
                return True
            except UnicodeEncodeError:
                return False
        return False
    if isinstance(e, ast.BoolOp):
        return all(_input_text(a, fi, v, node, st, depth + 1) for v in e.values)
    if isinstance(e, ast.IfExp):
        return _input_text(a, fi, e.body, node, st, depth + 1) and _input_text(a, fi, e.orelse, node, st, depth + 1)
    if isinstance(e, ast.NamedExpr):
        return _input_text(a, fi, e.value, node, st, depth + 1)
    look = None
    if isinstance(e, ast.Call) and isinstance(e.func, ast.Attribute) and e.func.attr == "get" and 1 <= len(e.args) <= 2 and not e.keywords:
        look = (e.func.value, e.args[0], e.args[1] if len(e.args) == 2 else None)
    elif isinstance(e, ast.Subscript) and not isinstance(e.slice, ast.Slice):
        look = (e.value, e.slice, None)
    if look is not None:
        m, k, dflt = look
        ks = astq.const_str(k)
        if ks is None or not _CGI_KEY.match(ks):
            return False
        if dflt is not None and not _input_text(a, fi, dflt, node, st, depth + 1):
            return False
        return _mapping_param(a, fi, m, node)
    if isinstance(e, ast.Name):
        if node is None:
            return False
        defs = a.flow.rd(fi).reaching(node, e.id)
        if not defs:
            return False
        for d in defs:
            if d.kind in ("assign", "walrus") and d.index is None and d.value is not None:
                if not _input_text(a, fi, d.value, d.node, st, depth + 1):
                    return False
            elif d.kind == "param":
                if fi.fq in a.flow.entry_fqs:
                    continue  # the arguments of the entry points are the client text the property quantifies over
                srcs = a.flow.param_sources(fi, d.name, st)
                if srcs is None:
                    return False
                for f2, x, n2, s2 in srcs:
                    if not _input_text(a, f2, x, n2, s2, depth + 1):
                        return False
            else:
                return False
        return True
    return False


def _mapping_param(a: A, fi: FuncInfo, m: ast.AST, node) -> bool:
    """the mapping a CGI variable is read from is a parameter (the environ / header mapping handed in) or <x>.environ."""
    if isinstance(m, ast.Attribute) and m.attr == "environ":
        return True
    if isinstance(m, ast.Name) and node is not None:
        defs = a.flow.rd(fi).reaching(node, m.id)
        return bool(defs) and all(d.kind == "param" or (d.kind == "assign" and d.index is None and isinstance(d.value, ast.Attribute) and d.value.attr == "environ") for d in defs)
    return False


def role_latin1_input(a: A, s: Site, e: str) -> Verdict:
    if s.kind != "encode" or e != "UnicodeEncodeError" or not isinstance(s.node, ast.Call):
        return None
    enc = astq.arg_or_kw(s.node, 0, "encoding")
    if astq.const_str(enc or ast.Constant("utf-8")) not in ("latin1", "latin-1", "iso-8859-1", "iso8859-1"):
        return None
    recv = s.node.func.value  # type: ignore[attr-defined]
    node = a.flow.node(s.func, s.node)
    if _input_text(a, s.func, recv, node):
        return True, "receiver is environ / header text (a CGI variable of the environ mapping or an argument of an entry point), latin-1 by the WSGI contract (input model)"
    return None


# ---------------------------------------------------------------------
# application / server controlled raises


def role_shallow_flag(a: A, s: Site, e: str) -> Verdict:
    if s.kind != "raise" or e != "RuntimeError" or s.func.cls is None or not s.func.params:
        return None
    sn = s.func.params[0]
    node = a.flow.node(s.func, s.node)
    if node is None:
        return None
    flags = []
    for at in a.flow.atoms(s.func, node):
        if at.op == "truthy" and at.truth and astq.is_self_attr(at.a, None, sn) and a.flow.fresh(s.func, at, node):
            flags.append(at.a.attr)  # type: ignore[attr-defined]
    for fl in flags:
        # the flag is constructor configuration: some __init__ in the MRO stores its own parameter of that name
        for k in a.repo.mro(s.func.cls):
            ini = k.methods.get("__init__") if isinstance(k, ClassInfo) else None
            if ini is not None and fl in ini.params and _bool_default(ini, fl):
                stored = any(isinstance(x, ast.Assign) and any(astq.is_self_attr(tg, fl, ini.params[0]) for tg in x.targets) and isinstance(x.value, ast.Name) and x.value.id == fl for x in walk_no_nested(ini.node))
                if stored:
                    return True, f"raised only under `{sn}.{fl}`, a flag the application passes to {k.name}.__init__ (application configuration, not client input)"
    return None


def _bool_default(f: FuncInfo, pname: str) -> bool:
    """the parameter is an on/off switch: its default is the constant True or False."""
    a_ = f.node.args  # type: ignore[attr-defined]
    pos = a_.posonlyargs + a_.args
    for i, x in enumerate(pos):
        if x.arg == pname:
            j = i - (len(pos) - len(a_.defaults))
            return j >= 0 and isinstance(a_.defaults[j], ast.Constant) and isinstance(a_.defaults[j].value, bool)
    for x, d in zip(a_.kwonlyargs, a_.kw_defaults):
        if x.arg == pname:
            return isinstance(d, ast.Constant) and isinstance(d.value, bool)
    return False


def role_abstract_method(a: A, s: Site, e: str) -> Verdict:
    if s.kind != "raise" or e != "NotImplementedError" or s.func.cls is None:
        return None
    subs = a.repo.subclasses(s.func.cls.fq)
    if not subs:
        return None
    missing = []
    for c in subs:
        _, w = a.repo.lookup(c, s.func.name)
        if not isinstance(w, FuncInfo) or w is s.func:
            missing.append(c.name)
    ok = not missing
    return ok, f"abstract: all {len(subs)} subclass(es) of {s.func.cls.name} override {s.func.name}" if ok else f"abstract method not overridden in {missing}"


def _client_positions(a: A, meth: FuncInfo) -> tuple[set[int], int]:
    """argument positions of self.<meth>(...) calls (in the class hierarchy) that carry an element of `self`
    (the client's list), and the number of such calls."""
    pos: set[int] = set()
    ncalls = 0
    classes = [k for k in a.repo.mro(meth.cls) if isinstance(k, ClassInfo)] + list(a.repo.subclasses(meth.cls.fq))  # type: ignore[arg-type]
    for k in classes:
        for m in k.methods.values():
            if not m.params:
                continue
            sn = m.params[0]
            for c in astq.calls(m.node):
                if isinstance(c.func, ast.Attribute) and c.func.attr == meth.name and isinstance(c.func.value, ast.Name) and c.func.value.id == sn:
                    ncalls += 1
                    nn = cfg_of(m).node_of(c)
                    for i, arg in enumerate(c.args):
                        if _from_self_elements(a, m, arg, nn):
                            pos.add(i)
    return pos, ncalls


def _from_self_elements(a: A, m: FuncInfo, e: ast.AST, node, depth: int = 0) -> bool:
    """e is (a component of) an element obtained by iterating / indexing the method's own `self`."""
    sn = m.params[0]
    if depth > 6:
        return False
    if isinstance(e, ast.Subscript):
        if isinstance(e.value, ast.Name) and e.value.id == sn:
            return True
        return _from_self_elements(a, m, e.value, node, depth + 1)
    if isinstance(e, ast.Name) and node is not None:
        cb = a.flow._comp_binding(m, e) if hasattr(e, "_parent") else None
        if cb is not None:
            return _iter_of_self(cb[0].iter, sn)
        defs = a.flow.rd(m).reaching(node, e.id)
        if not defs:
            return False
        for d in defs:
            if d.kind == "for":
                it = d.stmt.iter if isinstance(d.stmt, (ast.For, ast.AsyncFor)) else None
                if it is None or not _iter_of_self(it, sn):
                    return False
            elif d.kind in ("assign", "unpack", "walrus") and d.value is not None:
                if not _from_self_elements(a, m, d.value, d.node, depth + 1):
                    return False
            else:
                return False
        return True
    return False


def _iter_of_self(it: ast.AST, sn: str) -> bool:
    if isinstance(it, ast.Name) and it.id == sn:
        return True
    if isinstance(it, ast.Call) and dotted(it.func) in ("enumerate", "iter", "reversed", "list", "tuple") and it.args and isinstance(it.args[0], ast.Name) and it.args[0].id == sn:
        return True
    return False


def role_application_value(a: A, s: Site, e: str) -> Verdict:
    """explicit raise in a matching method of an Accept class, under a test of the application's own value only."""
    if s.kind != "raise" or e != "ValueError" or not _is_subclass(a, s.func.cls, "werkzeug.datastructures.accept.Accept"):
        return None
    pos, ncalls = _client_positions(a, s.func)
    if not ncalls or not pos:
        return None
    params = s.func.params[1:]
    client = {params[i] for i in pos if i < len(params)}
    app = set(params) - client
    node = a.flow.node(s.func, s.node)
    if node is None or not app:
        return None
    own = []
    for at in a.flow.atoms(s.func, node):
        deps = set()
        for x in (at.a, at.b):
            if x is not None:
                deps |= a.flow.param_deps(s.func, x, at.test)
        deps.discard(s.func.params[0])
        if deps and deps <= app:
            own.append(norm(at.test.ast))
    ok = bool(own)
    why = f"of {ncalls} call(s) self.{s.func.name}(...) the argument(s) {sorted(client)} carry the client's items; "
    if ok:
        return True, why + f"this raise is dominated by a test of the application's own value only ({own[0]}): a client item cannot trigger it"
    return False, why + "this raise is not dominated by any test that depends on the application's value only"


# ---------------------------------------------------------------------
# Accept lists: (value, quality) pairs


def _accept_pairs_premise(a: A) -> tuple[bool, str]:
    f = a.repo.func("http.parse_accept_header")
    facts = []
    ok = True
    n = 0
    for r in astq.returns_of(f.node):
        v = r.value
        if isinstance(v, ast.Call) and len(v.args) == 1 and not v.keywords and isinstance(v.func, ast.Name):
            if astq.is_none(v.args[0]):
                continue
            n += 1
            save = a.flow.cur
            a.flow.cur = None
            try:
                ar = a.flow.minlen(f, v.args[0], cfg_of(f).node_of(r), (("any",),))
            finally:
                a.flow.cur = save
            facts.append(f"`{norm(v)}`: every element has >= {ar if ar < INF else 'inf'} component(s)")
            ok = ok and ar >= 2
    if not n:
        raise AnalysisError("C07 accept pairs: parse_accept_header does not return <cls>(<list>) any more; the producer of the Accept list was not found")
    return ok, "; ".join(facts)


def role_accept_pair(a: A, s: Site, e: str) -> Verdict:
    if s.kind != "const-index" or e != "IndexError" or not _is_subclass(a, s.func.cls, "werkzeug.datastructures.accept.Accept"):
        return None
    sub = s.node
    idx = const_int(sub.slice)  # type: ignore[attr-defined]
    if idx not in (0, 1):
        return None
    node = a.flow.node(s.func, sub)
    if not _from_self_elements(a, s.func, sub.value, node) or (isinstance(sub.value, ast.Name) and sub.value.id == s.func.params[0]):  # type: ignore[attr-defined]
        return None
    ok, why = _accept_pairs_premise(a)
    return ok, f"component {idx} of an element of the Accept list itself: (value, quality) pairs by construction [{why}]"


def _rename(e: ast.AST, old: str, new: str = "_") -> str:
    fresh = ast.parse(ast.unparse(e), mode="eval").body

    class T(ast.NodeTransformer):
        def visit_Name(self, n):  # noqa: N802
            return ast.copy_location(ast.Name(new, n.ctx), n) if n.id == old else n

    return norm(T().visit(fresh))


def role_fallback_search(a: A, s: Site, e: str) -> Verdict:
    """next(<x for x in M if key(x) == R>) where R was negotiated over [key(x) for x in M]."""
    if s.kind != "next" or e != "StopIteration" or not _is_subclass(a, s.func.cls, "werkzeug.datastructures.accept.Accept"):
        return None
    call = s.node
    g = call.args[0] if isinstance(call, ast.Call) and call.args else None
    if not isinstance(g, ast.GeneratorExp) or len(g.generators) != 1 or len(g.generators[0].ifs) != 1 or not isinstance(g.generators[0].target, ast.Name):
        return None
    gen = g.generators[0]
    var = gen.target.id
    cond = gen.ifs[0]
    if not (isinstance(cond, ast.Compare) and len(cond.ops) == 1 and isinstance(cond.ops[0], ast.Eq)):
        return None
    l, r = cond.left, cond.comparators[0]
    if isinstance(l, ast.Name) and l.id != var:
        l, r = r, l
    if not isinstance(r, ast.Name) or var in astq.names_in(r) or var not in astq.names_in(l):
        return None
    fi = s.func
    node = a.flow.node(fi, call)
    rd = a.flow.rd(fi)
    key_txt = _rename(l, var)
    facts = []
    # R is not None here
    nn = a.flow.holds(fi, node, lambda at: (at.op == "is" and not at.truth and norm(at.a) == r.id and astq.is_none(at.b)) or (at.op == "truthy" and at.truth and norm(at.a) == r.id))
    facts.append(f"`{r.id}` is known to be a negotiated value (not None): {nn is not None}")
    # R = <...>.best_match(L) with L = [key(y) for y in M]
    defs = list(rd.reaching(node, r.id))
    ok_src = False
    if len(defs) == 1 and defs[0].kind in ("assign", "walrus") and isinstance(defs[0].value, ast.Call) and isinstance(defs[0].value.func, ast.Attribute) and defs[0].value.func.attr == "best_match" and len(defs[0].value.args) == 1 and not defs[0].value.keywords:
        larg = defs[0].value.args[0]
        lst = larg
        if isinstance(larg, ast.Name):
            ld = list(rd.reaching(defs[0].node, larg.id))
            lst = ld[0].value if len(ld) == 1 and ld[0].kind in ("assign", "walrus") and ld[0].index is None else None
        if isinstance(lst, (ast.ListComp, ast.GeneratorExp)) and len(lst.generators) == 1 and not lst.generators[0].ifs and isinstance(lst.generators[0].target, ast.Name):
            same_key = _rename(lst.elt, lst.generators[0].target.id) == key_txt
            same_iter = norm(lst.generators[0].iter) == norm(gen.iter)
            stable = isinstance(gen.iter, ast.Name) and {id(d) for d in rd.reaching(node, gen.iter.id)} == {id(d) for d in rd.reaching(a.flow.node(fi, lst), gen.iter.id)}
            ok_src = same_key and same_iter and stable
            facts.append(f"negotiated over [{key_txt} for _ in {norm(lst.generators[0].iter)}]: same key {same_key}, same offers {same_iter and stable}")
        else:
            facts.append("the list negotiated over is not a comprehension of the searched offers")
    else:
        facts.append(f"`{r.id}` is not the single result of a best_match call")
    # best_match returns one of its offers (or the default, None here)
    bm = a.repo.func("datastructures.accept.Accept.best_match")
    ok_bm = _returns_offer_or_default(a, bm)
    facts.append(f"Accept.best_match returns one of its offers or the default: {ok_bm}")
    ok = nn is not None and ok_src and ok_bm
    return ok, "the searched value is the key of one of the offers by construction [" + "; ".join(facts) + "]"


def _returns_offer_or_default(a: A, bm: FuncInfo) -> bool:
    rd = a.flow.rd(bm)
    cfg = cfg_of(bm)
    if len(bm.params) < 3:
        return False
    offers, default = bm.params[1], bm.params[2]
    rets = astq.returns_of(bm.node)
    if not rets:
        return False

    def ok_val(v, n, depth=0) -> bool:
        if depth > 4 or not isinstance(v, ast.Name):
            return False
        ds = rd.reaching(n, v.id)
        if not ds:
            return False
        for d in ds:
            if d.kind == "param":
                if d.name != default:
                    return False
            elif d.kind == "for" and d.index is None and isinstance(d.stmt, ast.For) and isinstance(d.stmt.iter, ast.Name) and d.stmt.iter.id == offers:
                continue
            elif d.kind in ("assign", "walrus") and d.index is None and d.value is not None:
                if not ok_val(d.value, d.node, depth + 1):
                    return False
            else:
                return False
        return True

    return all(r.value is not None and ok_val(r.value, cfg.node_of(r)) for r in rets)


# ---------------------------------------------------------------------
# numbers parsed from text that a regex fully matched


def _digits_only(items, rx: RegexConst) -> bool:
    cls = class_of_items(items, rx.flags, isinstance(rx.pattern, bytes), 0x3000)
    return bool(cls) and all(48 <= c <= 57 for c in cls)


def _is_digit_run(node, rx: RegexConst, min_lo: int) -> bool:
    op, av = node
    if op in (sre_c.MAX_REPEAT, sre_c.MIN_REPEAT):
        lo, hi, sub = av
        sub = list(sub)
        return lo >= min_lo and len(sub) == 1 and sub[0][0] is sre_c.IN and _digits_only(sub[0][1], rx)
    if op is sre_c.IN and min_lo <= 1:
        return _digits_only(av, rx)
    return False


def _is_sign_opt(node) -> bool:
    op, av = node
    if op in (sre_c.MAX_REPEAT, sre_c.MIN_REPEAT) and av[0] == 0 and av[1] == 1:
        sub = list(av[2])
        if len(sub) == 1 and sub[0][0] is sre_c.LITERAL and chr(sub[0][1]) in "+-":
            return True
        if len(sub) == 1 and sub[0][0] is sre_c.IN and all(o is sre_c.LITERAL and chr(v) in "+-" for o, v in sub[0][1]):
            return True
    return False


def decimal_language(rx: RegexConst, allow_fraction: bool) -> bool:
    """L(rx) is a subset of [+-]? DIGIT+ ( '.' DIGIT* )?  (ASCII digits): every member is accepted by int()/float()."""
    if isinstance(rx.pattern, bytes):
        return False
    items = list(rx.parsed())
    i = 0
    if i < len(items) and _is_sign_opt(items[i]):
        i += 1
    if i >= len(items) or not _is_digit_run(items[i], rx, 1):
        return False
    i += 1
    if i == len(items):
        return True
    if not allow_fraction or i != len(items) - 1:
        return False
    op, av = items[i]
    frac = None
    if op in (sre_c.MAX_REPEAT, sre_c.MIN_REPEAT) and av[0] == 0 and av[1] == 1:
        sub = list(av[2])
        if len(sub) == 1 and sub[0][0] is sre_c.SUBPATTERN:
            frac = list(sub[0][1][3])
        else:
            frac = sub
    elif op is sre_c.SUBPATTERN:
        frac = list(av[3])
    if frac is None or len(frac) != 2:
        return False
    return frac[0][0] is sre_c.LITERAL and chr(frac[0][1]) == "." and _is_digit_run(frac[1], rx, 0)


def _fullmatched_by(a: A, fi: FuncInfo, x: ast.AST, node, st: St = St(), depth: int = 0):
    """regexes R with `R.fullmatch(x)` established at node (a dominating guard here, or - x being a parameter passed
    straight through - at every call site on the escaping chain).  Returns (regex, description) or None."""
    ks = a.flow.keys(fi, x, node)
    for at in a.flow.atoms(fi, node):
        c = None
        if at.op == "is" and not at.truth and astq.is_none(at.b):
            c = at.a
        elif at.op == "truthy" and at.truth:
            c = at.a
        if isinstance(c, ast.Call) and isinstance(c.func, ast.Attribute) and c.func.attr == "fullmatch" and len(c.args) == 1 and norm(c.args[0]) in ks:
            rx = a.flow.fold_regex(fi, c.func.value)
            if rx is not None and a.flow.fresh(fi, at, node):
                return rx, f"`{norm(c)}` matched on every path to the conversion in {fi.qualname}"
    if isinstance(x, ast.Name) and depth < 2:
        defs = a.flow.rd(fi).reaching(node, x.id)
        if defs and all(d.kind == "param" for d in defs):
            srcs = a.flow.param_sources(fi, x.id, st)
            if srcs:
                got = [_fullmatched_by(a, f2, y, n2, s2, depth + 1) for f2, y, n2, s2 in srcs]
                if all(g is not None and g[0].pattern == got[0][0].pattern and g[0].flags == got[0][0].flags for g in got):
                    return got[0][0], "; ".join(g[1] for g in got) + f" (argument passed straight to {fi.qualname})"
    return None


def role_regex_number(a: A, s: Site, e: str) -> Verdict:
    if s.kind not in ("float", "int") or e != "ValueError" or not isinstance(s.node, ast.Call) or len(s.node.args) != 1 or s.node.keywords:
        return None
    node = a.flow.node(s.func, s.node)
    if node is None:
        return None
    arg = s.node.args[0]
    got = None
    whole = None
    if isinstance(arg, ast.Call) and isinstance(arg.func, ast.Attribute) and arg.func.attr == "group" and (not arg.args or (len(arg.args) == 1 and const_int(arg.args[0]) == 0)):
        whole = arg.func.value
    elif isinstance(arg, ast.Subscript) and const_int(arg.slice) == 0:
        whole = arg.value
    if whole is not None:
        rx0 = a.flow.regex_of_match(s.func, whole, node)
        if rx0 is not None:
            got = rx0, f"the operand is the whole match `{norm(arg)}` of a match object of the pattern, a member of its language"
    if got is None:
        got = _fullmatched_by(a, s.func, arg, node)
    if got is None:
        return None
    rx, how = got
    ok = decimal_language(rx, allow_fraction=s.kind == "float") and bool(rx.flags & re.A)
    return ok, f"{how}; language of {rx.pattern!r} (re.ASCII: {bool(rx.flags & re.A)}) is a subset of the {'decimal' if s.kind == 'float' else 'integer'} literals {s.kind}() accepts: {ok}"


# ---------------------------------------------------------------------
# octal escapes: int(x, 8).to_bytes(1, ...)


def _alt_classes(seq, rx: RegexConst):
    """a fixed-length sequence of character classes as a list of sets, or None."""
    out = []
    for op, av in seq:
        if op in (sre_c.MAX_REPEAT, sre_c.MIN_REPEAT):
            lo, hi, sub = av
            sub = list(sub)
            if lo != hi or len(sub) != 1:
                return None
            one = _alt_classes(sub, rx)
            if one is None:
                return None
            out.extend(one * lo)
        elif op is sre_c.IN:
            out.append(class_of_items(av, rx.flags, isinstance(rx.pattern, bytes), 256))
        elif op is sre_c.LITERAL:
            out.append({av})
        elif op is sre_c.ANY:
            out.append(set(range(256)))
        else:
            return None
    return out


def _group_alternatives(rx: RegexConst, group: int):
    res = []

    def rec(seq):
        for op, av in seq:
            if op is sre_c.SUBPATTERN:
                if av[0] == group:
                    res.append(list(av[3]))
                rec(av[3])
            elif op in (sre_c.MAX_REPEAT, sre_c.MIN_REPEAT):
                rec(av[2])
            elif op is sre_c.BRANCH:
                for b in av[1]:
                    rec(b)

    rec(rx.parsed())
    if len(res) != 1:
        return None
    body = res[0]
    if len(body) == 1 and body[0][0] is sre_c.BRANCH:
        return [list(b) for b in body[0][1][1]]
    return [body]


def role_octal_escape(a: A, s: Site, e: str) -> Verdict:
    call = s.node
    if s.kind == "int" and e == "ValueError" and isinstance(call, ast.Call) and len(call.args) == 2 and const_int(call.args[1]) == 8:
        x = call.args[0]
    elif s.kind == "to_bytes" and e == "OverflowError" and isinstance(call, ast.Call) and const_int(astq.arg_or_kw(call, 0, "length")) == 1:
        src = call.func.value  # type: ignore[attr-defined]
        node0 = a.flow.node(s.func, call)
        if isinstance(src, ast.Name) and node0 is not None:
            ds = list(a.flow.rd(s.func).reaching(node0, src.id))
            src = ds[0].value if len(ds) == 1 and ds[0].kind in ("assign", "walrus") and ds[0].index is None else None
        if not (isinstance(src, ast.Call) and dotted(src.func) == "int" and len(src.args) == 2 and const_int(src.args[1]) == 8):
            return None
        x = src.args[0]
    else:
        return None
    fi = s.func
    node = a.flow.node(fi, call)
    # x is group k of a match of regex R
    grp = x
    if isinstance(x, ast.Name):
        ds = list(a.flow.rd(fi).reaching(node, x.id))
        if not ds or not all(d.kind in ("assign", "walrus") and d.index is None and d.value is not None for d in ds) or len({norm(d.value) for d in ds}) != 1:
            return None
        grp = ds[0].value
        gnode = ds[0].node
    else:
        gnode = node
    if not (isinstance(grp, ast.Call) and isinstance(grp.func, ast.Attribute) and grp.func.attr == "group" and len(grp.args) == 1 and const_int(grp.args[0])):
        return None
    k = const_int(grp.args[0])
    rx = a.flow.regex_of_match(fi, grp.func.value, gnode)
    if rx is None:
        return None
    alts = _group_alternatives(rx, k)
    if alts is None:
        raise AnalysisError(f"C07 octal escape: group {k} of {rx.pattern!r} not understood")
    # a dominating length test excludes the single-character alternative(s)
    multi = a.flow.minlen(fi, x, node) >= 2 or a.flow.holds(fi, node, lambda at: at.op == "eq" and not at.truth and any(isinstance(p, ast.Call) and dotted(p.func) == "len" and len(p.args) == 1 and norm(p.args[0]) == norm(x) and const_int(q) == 1 for p, q in ((at.a, at.b), (at.b, at.a)))) is not None
    octal = set(b"01234567")
    bad = []
    for alt in alts:
        cl = _alt_classes(alt, rx)
        if cl is not None and len(cl) == 1 and multi:
            continue
        if cl is None or not cl or len(cl) > 3 or not all(c <= octal for c in cl) or (len(cl) == 3 and not cl[0] <= set(b"0123")):
            bad.append(alt)
    ok = not bad
    pat = rx.pattern if isinstance(rx.pattern, str) else rx.pattern.decode("latin1")
    return ok, f"operand is group {k} of {pat!r}; single-character alternative excluded by a length test: {bool(multi)}; every other alternative is 1-3 octal digits below 0o400: {ok}"


# ---------------------------------------------------------------------
# ASCII bytes


def _ascii_bytes(a: A, fi: FuncInfo, e: ast.AST, node, st: St = St(), depth: int = 0) -> bool:
    if depth > 12:
        return False
    if isinstance(e, ast.Constant):
        return isinstance(e.value, bytes) and all(c < 128 for c in e.value)
    if isinstance(e, ast.Call) and isinstance(e.func, ast.Attribute):
        m = e.func.attr
        if m == "encode" and astq.const_str(astq.arg_or_kw(e, 0, "encoding") or ast.Constant("utf-8")) in ("ascii", "us-ascii"):
            return True
        if m in ("split", "rsplit", "strip", "lstrip", "rstrip", "lower", "upper", "partition", "rpartition", "splitlines"):
            return _ascii_bytes(a, fi, e.func.value, node, st, depth + 1)
        return False
    if isinstance(e, ast.Call) and dotted(e.func) in ("bytes", "bytearray", "memoryview") and len(e.args) == 1:
        return _ascii_bytes(a, fi, e.args[0], node, st, depth + 1)
    if isinstance(e, ast.Subscript):
        return _ascii_bytes(a, fi, e.value, node, st, depth + 1)
    if isinstance(e, ast.Name):
        cb = a.flow._comp_binding(fi, e) if hasattr(e, "_parent") else None
        if cb is not None:
            return _ascii_bytes(a, fi, cb[0].iter, node, st, depth + 1)
        if node is None:
            return False
        defs = a.flow.rd(fi).reaching(node, e.id)
        if not defs:
            return False
        for d in defs:
            if d.kind in ("assign", "walrus", "unpack", "for") and d.value is not None:
                if not _ascii_bytes(a, fi, d.value, d.node, st, depth + 1):
                    return False
            elif d.kind == "param":
                srcs = a.flow.param_sources(fi, d.name, st)
                if srcs is None:
                    return False
                for f2, x, n2, s2 in srcs:
                    if not _ascii_bytes(a, f2, x, n2, s2, depth + 1):
                        return False
            else:
                return False
        return True
    return False


def role_ascii_decode(a: A, s: Site, e: str) -> Verdict:
    if s.kind != "decode" or e != "UnicodeDecodeError" or not isinstance(s.node, ast.Call):
        return None
    if astq.const_str(astq.arg_or_kw(s.node, 0, "encoding") or ast.Constant("utf-8")) not in ("ascii", "us-ascii"):
        return None
    node = a.flow.node(s.func, s.node)
    if _ascii_bytes(a, s.func, s.node.func.value, node):  # type: ignore[attr-defined]
        return True, "the receiver is (a piece of) the result of <str>.encode('ascii') on every definition that reaches it, across the call boundary: ASCII bytes decode as ASCII"
    return None


# ---------------------------------------------------------------------
# constructor validation already done by the parser


class _Facts:
    """must-facts along one path: structured canonical atoms, killed when a name they mention is rebound."""

    def __init__(self, d=None):
        self.d: dict[tuple[str, str, str], tuple[bool, frozenset]] = dict(d or {})

    def copy(self) -> "_Facts":
        return _Facts(self.d)

    def add(self, op: str, x: ast.AST, y: ast.AST | None, truth: bool) -> None:
        k = (op, norm(x), norm(y) if y is not None else "")
        names = frozenset(astq.names_in(x) | (astq.names_in(y) if y is not None else set()))
        self.d[k] = (truth, names)
        self._close()

    def _close(self) -> None:
        # X >= Y and Y >= 0  =>  X >= 0
        changed = True
        while changed:
            changed = False
            for (op, x, y), (tr, nm) in list(self.d.items()):
                if op == "lt" and not tr and y != "0":
                    z = self.d.get(("lt", y, "0"))
                    if z is not None and not z[0] and ("lt", x, "0") not in self.d:
                        self.d[("lt", x, "0")] = (False, frozenset(astq.names_in(ast.parse(x, mode="eval").body)))
                        changed = True

    def kill(self, name: str) -> None:
        for k in [k for k, (_, nm) in self.d.items() if name in nm]:
            del self.d[k]

    def known(self, op: str, x: ast.AST, y: ast.AST | None) -> bool | None:
        v = self.d.get((op, norm(x), norm(y) if y is not None else ""))
        return v[0] if v is not None else None


def _int_valued(a: A, fi: FuncInfo, v: ast.AST) -> bool:
    """v evaluates to an int (never None): int constant, arithmetic on such, a call of a function annotated -> int."""
    if const_int(v) is not None:
        return True
    if isinstance(v, ast.BinOp) and isinstance(v.op, (ast.Add, ast.Sub, ast.Mult)):
        return _int_valued(a, fi, v.left) and _int_valued(a, fi, v.right)
    if isinstance(v, ast.Call):
        if dotted(v.func) in ("int", "len"):
            return True
        for g in a.flow.resolve_callee(fi, v):
            r = getattr(g.node, "returns", None)
            if r is not None and norm(r) == "int":
                return True
    return False


def _paths_to(a: A, fi: FuncInfo, goal, start_nodes) -> list[_Facts]:
    """fact sets of all acyclic paths start -> goal (exceptional edges included; a test whose atom the facts decide is
    followed only along the decided edge)."""
    cfg = cfg_of(fi)
    rd = a.flow.rd(fi)
    can = cfg.reach  # noqa
    # nodes from which goal is reachable (prune)
    useful = set()
    for n in cfg.nodes:
        if goal.id in cfg.reach(n):
            useful.add(n.id)
    out: list[_Facts] = []
    stack = [(s, _Facts(), frozenset()) for s in start_nodes]
    steps = 0
    while stack:
        n, facts, seen = stack.pop()
        steps += 1
        if steps > 20000:
            raise AnalysisError(f"C07: too many paths in {fi.qualname}")
        if n.id not in useful or n.id in seen:
            continue
        if n is goal:
            out.append(facts)
            continue
        seen2 = seen | {n.id}
        if n.kind == "test":
            ats = satoms(n.ast, True)
            decided = None
            if len(ats) == 1:
                op, x, y, tr = ats[0]
                kv = facts.known(op, x, y)
                if kv is not None:
                    decided = "T" if kv == tr else "F"
            for s_, lab in n.succs:
                if lab in ("T", "F"):
                    if decided is not None and lab != decided:
                        continue
                    f2 = facts.copy()
                    for d in rd.gen.get(n.id, []):  # walrus in the test
                        f2.kill(d.name)
                    for op, x, y, tr in satoms(n.ast, lab == "T"):
                        f2.add(op, x, y, tr)
                    stack.append((s_, f2, seen2))
                else:
                    stack.append((s_, facts.copy(), seen2))
            continue
        for s_, lab in n.succs:
            f2 = facts.copy()
            if lab != "exc":
                for d in rd.gen.get(n.id, []):
                    f2.kill(d.name)
                for d in rd.gen.get(n.id, []):
                    if d.kind in ("assign", "walrus") and d.index is None and d.value is not None and isinstance(d.target, ast.Name):
                        if astq.is_none(d.value):
                            f2.add("is", d.target, ast.Constant(None), True)
                        elif _int_valued(a, fi, d.value):
                            f2.add("is", d.target, ast.Constant(None), False)
                            c = const_int(d.value)
                            if c is not None:
                                f2.add("lt", d.target, ast.Constant(0), c < 0)
            stack.append((s_, f2, seen2))
    return out


def role_range_constructor(a: A, s: Site, e: str) -> Verdict:
    """raise in the __init__ of the class parse_range_header instantiates: the parser's own checks exclude it."""
    if s.kind != "raise" or e != "ValueError" or s.func.cls is None or s.func.name != "__init__":
        return None
    prh = a.repo.try_func("http.parse_range_header")
    if prh is None:
        return None
    cons = []
    for r in astq.returns_of(prh.node):
        if isinstance(r.value, ast.Call):
            li = prh.module.local_imports(prh.node)
            try:
                tg = a.eff._resolve_call(prh, r.value, li, None)
            except Exception:
                tg = []
            if any(g is s.func for g in tg):
                cons.append(r.value)
    if not cons:
        return None
    init = s.func
    loop = astq.enclosing(s.node, (ast.For,))
    if not (isinstance(loop, ast.For) and isinstance(loop.target, ast.Tuple) and len(loop.target.elts) == 2 and all(isinstance(x, ast.Name) for x in loop.target.elts) and isinstance(loop.iter, ast.Name) and loop.iter.id in init.params):
        raise AnalysisError(f"C07 range constructor: the validation in {init.qualname} is not a `for a, b in <parameter>` loop")
    n0, n1 = (x.id for x in loop.target.elts)
    icfg = cfg_of(init)
    lhead = icfg.by_ast.get(id(loop), [None])[0]
    body0 = icfg.succ(lhead, "T") if lhead is not None else []
    raise_node = icfg.node_of(s.node)
    if not body0 or raise_node is None:
        raise AnalysisError(f"C07 range constructor: no CFG for the validation loop of {init.qualname}")
    pcfg = cfg_of(prh)
    facts_txt = []
    npaths = 0
    for c in cons:
        b = a.flow.bind(init, c, loop.iter.id)
        if b is None or b[0] != "arg" or not isinstance(b[1], ast.Name):
            raise AnalysisError("C07 range constructor: the list handed to the constructor is not a local name")
        lname = b[1].id
        producers = []
        for n in walk_no_nested(prh.node):
            if isinstance(n, ast.Call) and isinstance(n.func, ast.Attribute) and isinstance(n.func.value, ast.Name) and n.func.value.id == lname:
                if n.func.attr == "append" and len(n.args) == 1 and isinstance(n.args[0], ast.Tuple) and len(n.args[0].elts) == 2 and all(isinstance(x, ast.Name) for x in n.args[0].elts):
                    producers.append(n)
                elif n.func.attr in ("append", "extend", "insert", "__setitem__", "__iadd__"):
                    raise AnalysisError(f"C07 range constructor: `{norm(n)}` adds to the list in a shape that is not understood")
        lst_defs = [v for _, v in astq.assigns_to(prh.node, lname)]
        if not producers or not lst_defs or not all(isinstance(v, ast.List) and not v.elts for v in lst_defs):
            raise AnalysisError(f"C07 range constructor: `{lname}` is not an empty list filled by .append((a, b))")
        for p in producers:
            goal = pcfg.node_of(p)
            lp = astq.enclosing(p, (ast.For, ast.While))
            if isinstance(lp, ast.For):
                h = pcfg.by_ast.get(id(lp), [None])[0]
                starts = pcfg.succ(h, "T")
            elif lp is None:
                starts = [s_ for s_, _ in pcfg.entry.succs]
            else:
                raise AnalysisError("C07 range constructor: the append sits in a while loop")
            bn, en = (x.id for x in p.args[0].elts)
            for facts in _paths_to(a, prh, goal, starts):
                npaths += 1
                valmap: dict[str, bool] = {}
                for (op, x, y), (tr, _) in facts.d.items():
                    xe = _rename2(x, {bn: n0, en: n1})
                    ye = _rename2(y, {bn: n0, en: n1}) if y else None
                    if xe is None or (y and ye is None):
                        continue
                    txt = {"is": f"({xe}) is ({ye})", "eq": f"({xe}) == ({ye})", "lt": f"({xe}) < ({ye})", "in": f"({xe}) in ({ye})", "truthy": f"({xe})"}[op]
                    k, pol = canon(ast.parse(txt, mode="eval").body)
                    valmap[k] = tr == pol
                outs = []
                for st0 in body0:
                    outs.extend(simulate(icfg, lambda k, v=valmap: v.get(k), start=st0))
                hit = [o for o in outs if o.kind == "raise" and o.node is raise_node]
                if hit:
                    known = sorted(f"{k}:{'T' if v else 'F'}" for k, v in valmap.items() if n0 in k or n1 in k)
                    return False, f"a path of {prh.qualname} reaches `{norm(p)}` knowing only {known}, which does not exclude the constructor's raise"
    return True, f"on each of the {npaths} path(s) of {prh.qualname} to an append, the facts established about the pair (tests passed after the last rebinding of its names) exclude this raise when the constructor's validation is replayed under them"


def _rename2(txt: str, mp: dict[str, str]) -> str | None:
    """rename the parser's pair names to the constructor's loop targets; any other name that collides is set aside."""
    try:
        e = ast.parse(txt, mode="eval").body
    except SyntaxError:
        return None

    class T(ast.NodeTransformer):
        def visit_Name(self, n):  # noqa: N802
            if n.id in mp:
                new = mp[n.id]
            elif n.id in mp.values():
                new = "_other_" + n.id
            else:
                new = n.id
            return ast.copy_location(ast.Name(new, n.ctx), n)

    return ast.unparse(T().visit(e))


def role_validated_constructor(a: A, s: Site, e: str) -> Verdict:
    """assert <pred>(params...) in a method reached from a constructor call that sits under the same predicate."""
    if s.kind != "assert" or e != "AssertionError" or s.func.cls is None:
        return None
    test = s.node.test  # type: ignore[attr-defined]
    if not (isinstance(test, ast.Call) and all(isinstance(x, ast.Name) and x.id in s.func.params for x in test.args) and not test.keywords and dotted(test.func)):
        return None
    pred = dotted(test.func).rsplit(".", 1)[-1]  # type: ignore[union-attr]
    pnames = [x.id for x in test.args]  # type: ignore[union-attr]
    facts = []
    ok = True
    work = [(s.func, pnames, 0)]
    tops = 0
    while work:
        g, names, depth = work.pop()
        cal = a.flow.callers(g)
        if not cal:
            return None
        for f, n, kind in cal:
            if kind != "call":
                return None
            args = []
            for p in names:
                b = a.flow.bind(g, n, p)
                if b is None:
                    return None
                args.append(b[1])
            if f.cls is g.cls and f.name == "__init__" and all(isinstance(x, ast.Name) and x.id in f.params for x in args) and depth < 2:
                work.append((f, [x.id for x in args], depth + 1))  # type: ignore[union-attr]
                continue
            tops += 1
            nn = cfg_of(f).node_of(n)
            want = [norm(x) for x in args]
            hit = a.flow.holds(f, nn, lambda at: at.op == "truthy" and at.truth and isinstance(at.a, ast.Call) and (dotted(at.a.func) or "").rsplit(".", 1)[-1] == pred and [norm(x) for x in at.a.args] == want and not at.a.keywords)
            facts.append(f"{f.qualname}: `{norm(n)[:60]}` under {pred}({', '.join(want)}): {hit is not None}")
            ok = ok and hit is not None
    if not tops:
        return None
    return ok, "every construction on the request path sits under the same predicate: " + "; ".join(facts)


ROLES: list[tuple[str, t.Callable[[A, Site, str], Verdict]]] = [
    ("input-model latin-1 text", role_latin1_input),
    ("application flag", role_shallow_flag),
    ("abstract method", role_abstract_method),
    ("application's own value", role_application_value),
    ("accept pair", role_accept_pair),
    ("fallback search", role_fallback_search),
    ("regex-matched number", role_regex_number),
    ("octal escape", role_octal_escape),
    ("ascii bytes", role_ascii_decode),
    ("range constructor", role_range_constructor),
    ("validated constructor", role_validated_constructor),
]


def review(a: A, s: Site, e: str) -> tuple[str, bool, str] | None:
    for name, fn in ROLES:
        v = fn(a, s, e)
        if v is not None:
            return name, v[0], v[1]
    return None


# ---------------------------------------------------------------------
# form parser silent mode (not a site role: it makes a re-raise dead)


def p_form_parser_silent(ctx, folder):
    f = ctx.repo.func("formparser.FormDataParser.parse")
    tr = [n for n in ast.walk(f.node) if isinstance(n, ast.Try)]
    ok_h = False
    guard_txt = None
    sn = f.params[0]
    for t_ in tr:
        for h in t_.handlers:
            if (dotted(h.type) or "") == "ValueError":
                rer = [x for x in ast.walk(h) if isinstance(x, ast.Raise)]
                good = bool(rer)
                for x in rer:
                    p = astq.parent(x)
                    if not (x.exc is None and isinstance(p, ast.If) and any(x is y for y in p.body)):
                        good = False
                        continue
                    k, pol = canon(p.test)
                    if (k, pol) != (f"{sn}.silent", False):
                        good = False
                    else:
                        guard_txt = norm(p.test)
                ok_h = good
    init = ctx.repo.func("formparser.FormDataParser.__init__")
    a = init.node.args
    names = [x.arg for x in a.args]
    dflt = None
    if "silent" in names:
        i = names.index("silent") - (len(names) - len(a.defaults))
        dflt = norm(a.defaults[i]) if i >= 0 else None
    stored = any(isinstance(s_, ast.Assign) and any(astq.is_self_attr(tg, "silent", init.params[0]) for tg in s_.targets) and isinstance(s_.value, ast.Name) and s_.value.id == "silent" for s_ in ast.walk(init.node))
    mk = ctx.repo.func("wrappers.request.Request.make_form_data_parser")
    passes = any(kw.arg == "silent" or kw.arg is None for c in astq.calls(mk.node) for kw in c.keywords)
    writes = [fn.fq for fn in ctx.repo.all_functions() if fn.fq != init.fq and any(isinstance(s_, (ast.Assign, ast.AugAssign)) and any(isinstance(t2, ast.Attribute) and t2.attr == "silent" for t2 in (s_.targets if isinstance(s_, ast.Assign) else [s_.target])) for s_ in ast.walk(fn.node))]
    ok = ok_h and dflt == "True" and stored and not passes and not writes
    return ok, guard_txt, f"handler re-raises only when self.silent is false: {ok_h}; default silent={dflt}; stored: {stored}; Request.make_form_data_parser passes silent: {passes}; other writers of .silent: {writes}"
